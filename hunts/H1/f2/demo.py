"""C04: data with a disabled reference epoch (RVData(..., t_ref=False), documented:
"Set to False to disable subtracting the reference time") are accepted by the sampler,
which then measures phase and trend from BMJD = 0.  The samples it returns carry
t_ref = None, and neither samples.get_orbit() nor samples.ln_unmarginalized_likelihood()
can reconstruct the orbit of a returned row: both raise TypeError.  The identity
  marginal lnL(theta) = ln p(y|theta,x) + ln p(x|theta) - ln N(x|a,A)
can therefore not be evaluated with the library, although it holds for the model the
kernel used (shown below with an independent numpy model measured from BMJD 0).

Run:  cd /tmp/wt/H1 && PYTHONPATH=/tmp/wt/H1 /venv/bin/python -W ignore findings/f2/demo.py
"""
import sys
import traceback

import astropy.units as u
import numpy as np
from astropy.time import Time

import thejoker as tj

kms = u.km / u.s


def kepler_col(dt, P, e, om, M0):
    M = np.mod(2 * np.pi * dt / P - M0, 2 * np.pi)
    E = M + e * np.sin(M)
    for _ in range(100):
        E = E - (E - e * np.sin(E) - M) / (1 - e * np.cos(E))
    f = 2 * np.arctan2(np.sqrt(1 + e) * np.sin(E / 2), np.sqrt(1 - e) * np.cos(E / 2))
    return np.cos(f + om) + e * np.cos(om)


rng = np.random.default_rng(1)
N = 10
t = 58000 + np.sort(rng.uniform(0, 300, N))
y = 30 + 5 * np.sin(2 * np.pi * t / 37.0) + 0.01 * (t - 58000) + rng.normal(0, 0.3, N)
err = np.full(N, 0.3)
data = tj.RVData(Time(t, format="mjd", scale="tcb"), y * kms, err * kms, t_ref=False)

prior = tj.JokerPrior.default(P_min=2 * u.day, P_max=300 * u.day, sigma_K0=30 * kms,
                              sigma_v=[100 * kms, 1 * kms / u.day], poly_trend=2)
joker = tj.TheJoker(prior, rng=np.random.default_rng(3))
ps = prior.sample(20000, rng=np.random.default_rng(2))
samples = joker.rejection_sample(data, ps, max_posterior_samples=3)
print("accepted:", len(samples), "rows;  samples.t_ref =", samples.t_ref)
mll = joker.marginal_ln_likelihood(data, samples)

# independent evaluation of the identity with the model measured from BMJD 0
dt = t - 0.0
for i in range(len(samples)):
    P = samples["P"][i].to_value(u.day)
    e = samples["e"][i].value
    M = np.stack([kepler_col(dt, P, e, samples["omega"][i].to_value(u.rad),
                             samples["M0"][i].to_value(u.rad)), np.ones(N), dt], axis=1)
    x = np.array([samples["K"][i].to_value(kms), samples["v0"][i].to_value(kms),
                  samples["v1"][i].to_value(kms / u.day)])
    Lam = np.array([min(30**2 * (P / 365.25) ** (-2 / 3) / (1 - e**2), 500**2), 100.0**2, 1.0])
    var = err**2
    lnlike = -0.5 * np.sum((y - M @ x) ** 2 / var + np.log(2 * np.pi * var))
    lnprior = -0.5 * np.sum(x**2 / Lam + np.log(2 * np.pi * Lam))
    S = np.sqrt(Lam)                      # scaled for a well conditioned solve
    Ms = M * S
    Ainv_s = np.eye(3) + Ms.T @ (Ms / var[:, None])
    a_s = np.linalg.solve(Ainv_s, Ms.T @ (y / var))
    d = x / S - a_s
    lnpost = (-0.5 * d @ Ainv_s @ d + 0.5 * np.linalg.slogdet(Ainv_s)[1]
              - 0.5 * 3 * np.log(2 * np.pi) - np.log(S).sum())
    print(f"row {i}: marginal lnL (library) = {mll[i]:.6f};  numpy, epoch BMJD 0: "
          f"lnlike + lnprior - lnpost = {lnlike + lnprior - lnpost:.6f}")

failed = False
for label, call in [("samples.get_orbit(0).radial_velocity(data.t)",
                     lambda: samples.get_orbit(0).radial_velocity(data.t)),
                    ("samples.ln_unmarginalized_likelihood(data)",
                     lambda: samples.ln_unmarginalized_likelihood(data))]:
    try:
        out = call()
        print(label, "->", out)
    except Exception as ex:  # noqa
        failed = True
        print(f"{label} raised {type(ex).__name__}: {ex}")
        tb = [l.strip() for l in traceback.format_exc().splitlines() if l.strip().startswith("File")]
        print("    last frames:", *tb[-2:], sep="\n      ")

if failed:
    print("\nDEFECT: rows returned for data with t_ref=False cannot be turned back into "
          "the orbit the sampler used.")
    sys.exit(1)
print("no defect")
