"""C01 (and with it C04): the marginal ln-likelihood loses its digits when
M Lambda M^T dominates C, i.e. for wide (but finite and valid) priors on the
trend terms together with long baselines / small uncertainties.

Reference values: (1) EXACT rational arithmetic (fractions.Fraction) on the very
same float inputs, (2) a plain float64 evaluation of the same closed form that
avoids inverting B = C + M Lambda M^T (it agrees with (1) to ~1e-10, so the
accuracy is attainable in double precision).

Run:  cd /tmp/wt/H1 && PYTHONPATH=/tmp/wt/H1 /venv/bin/python -W ignore findings/f1/demo.py
exits 1 when the defect is present.
"""
import math
import sys
from fractions import Fraction as F

import astropy.units as u
import numpy as np
from astropy.time import Time

import thejoker as tj

kms = u.km / u.s
ms = u.m / u.s


# ----------------------------------------------------------------- reference
def kepler_col(dt, P, e, om, M0):
    M = np.mod(2 * np.pi * dt / P - M0, 2 * np.pi)
    E = M + e * np.sin(M)
    for _ in range(100):
        E = E - (E - e * np.sin(E) - M) / (1 - e * np.cos(E))
    f = 2 * np.arctan2(np.sqrt(1 + e) * np.sin(E / 2), np.sqrt(1 - e) * np.cos(E / 2))
    return np.cos(f + om) + e * np.cos(om)


def design(dt, P, e, om, M0, poly):
    cols = [kepler_col(dt, P, e, om, M0), np.ones_like(dt)]
    cols += [dt**i for i in range(1, poly)]
    return np.stack(cols, axis=1)


def marg_ll_exact(y, var, Mx, mu, Lam):
    """ln N(y | M mu, C + M Lam M^T) with exact rational arithmetic."""
    n, p = Mx.shape
    Mf = [[F(float(v)) for v in row] for row in Mx]
    Lf = [F(float(v)) for v in Lam]
    B = [[sum(Mf[i][k] * Lf[k] * Mf[j][k] for k in range(p)) for j in range(n)]
         for i in range(n)]
    for i in range(n):
        B[i][i] += F(float(var[i]))
    r = [F(float(y[i])) - sum(Mf[i][k] * F(float(mu[k])) for k in range(p))
         for i in range(n)]
    A = [row[:] + [r[i]] for i, row in enumerate(B)]
    logdet = 0.0
    for k in range(n):
        piv = A[k][k]
        logdet += math.log(piv.numerator) - math.log(piv.denominator)
        for i in range(k + 1, n):
            fac = A[i][k] / piv
            if fac != 0:
                for j in range(k, n + 1):
                    A[i][j] -= fac * A[k][j]
    x = [F(0)] * n
    for i in reversed(range(n)):
        x[i] = (A[i][n] - sum(A[i][j] * x[j] for j in range(i + 1, n))) / A[i][i]
    chi2 = sum(r[i] * x[i] for i in range(n))
    return -0.5 * float(chi2) - 0.5 * logdet - 0.5 * n * math.log(2 * math.pi)


def marg_ll_float64(y, var, Mx, mu, Lam):
    """Same quantity in float64 without inverting B:
    ln p(y) = ln p(y|a) + ln p(a) - ln p(a|y) at the posterior mean a, with a
    from a QR least-squares solve of the prior-augmented system."""
    Aug = np.vstack([Mx / np.sqrt(var)[:, None], np.diag(1 / np.sqrt(Lam))])
    rhs = np.concatenate([y / np.sqrt(var), mu / np.sqrt(Lam)])
    Q, R = np.linalg.qr(Aug)
    a = np.linalg.solve(R, Q.T @ rhs)
    res = rhs - Aug @ a
    return (-0.5 * res @ res - 0.5 * np.log(2 * np.pi * var).sum()
            - 0.5 * np.log(Lam).sum() - np.log(np.abs(np.diag(R))).sum())


# --------------------------------------------------------------------- cases
def case(label, N, err, v0, v1, sig, unit, base, poly, seed=3):
    rng = np.random.default_rng(seed)
    f = (1 * kms).to_value(unit)
    t = 58000 + np.sort(rng.uniform(0, base, N))
    dt = t - t.min()
    Pt, Kt, et, omt, M0t = 37.3, 5 * f, 0.2, 1.1, 0.7
    y = v0 + v1 * dt + Kt * kepler_col(dt, Pt, et, omt, M0t) + rng.normal(0, err, N)
    data = tj.RVData(Time(t, format="mjd", scale="tcb"), y * unit, np.full(N, err) * unit)
    sigma_v = [sig[i] * unit / u.day**i for i in range(poly)]
    prior = tj.JokerPrior.default(P_min=2 * u.day, P_max=1000 * u.day,
                                  sigma_K0=30 * kms, sigma_v=sigma_v,
                                  poly_trend=poly)
    # nonlinear samples within the posterior width around the truth, i.e. the
    # ones that decide the outcome of the rejection step
    k = 5
    ps = tj.JokerSamples()
    ps["P"] = (Pt + rng.normal(0, 2e-4, k)) * u.day
    ps["e"] = (et + rng.normal(0, 5e-4, k)) * u.one
    ps["omega"] = (omt + rng.normal(0, 2e-3, k)) * u.rad
    ps["M0"] = (M0t + rng.normal(0, 2e-3, k)) * u.rad
    ps["s"] = np.zeros(k) * unit
    ll = tj.TheJoker(prior).marginal_ln_likelihood(data, ps)

    print(f"\n{label}")
    print(f"  N={N}, sigma_rv={err} {unit}, baseline={base} d, poly_trend={poly}, "
          f"sigma_v={[str(s) for s in sigma_v]}")
    worst_lib = worst_f64 = 0.0
    for i in range(k):
        P, e = ps["P"][i].value, ps["e"][i].value
        Mx = design(dt, P, e, ps["omega"][i].value, ps["M0"][i].value, poly)
        LamK = min((30 * f) ** 2 * (P / 365.25) ** (-2 / 3) / (1 - e**2), (500 * f) ** 2)
        Lam = np.array([LamK] + [s**2 for s in sig[:poly]])
        var = np.full(N, err**2)
        mu = np.zeros(1 + poly)
        ex = marg_ll_exact(y, var, Mx, mu, Lam)
        f64 = marg_ll_float64(y, var, Mx, mu, Lam)
        print(f"  thejoker {ll[i]: .6f}   exact {ex: .6f}   thejoker-exact {ll[i]-ex: .2e}"
              f"   float64(no B^-1)-exact {f64-ex: .1e}")
        worst_lib = max(worst_lib, abs(ll[i] - ex))
        worst_f64 = max(worst_f64, abs(f64 - ex))
    return worst_lib, worst_f64


results = [
    case("A: km/s survey data, quadratic trend with a generous prior",
         N=30, err=0.05, v0=-40.0, v1=0.002, sig=[100.0, 1.0, 0.1], unit=kms,
         base=3000, poly=3),
    case("B: same, 'uninformative' prior on the quadratic term",
         N=30, err=0.05, v0=-40.0, v1=0.002, sig=[100.0, 1.0, 1.0], unit=kms,
         base=3000, poly=3),
    case("C: m/s planet-search data, linear trend",
         N=40, err=1.0, v0=-2e4, v1=0.5, sig=[1e5, 1e3], unit=ms,
         base=1500, poly=2),
]
bad = False
for (wl, wf), name in zip(results, "ABC"):
    print(f"case {name}: max |thejoker - exact| = {wl:.3g},  "
          f"max |float64 reference - exact| = {wf:.1g}")
    if wl > 1e-3 and wf < 1e-6:
        bad = True
if bad:
    print("\nDEFECT: marginal_ln_likelihood is off by 1e-2 .. several units of ln L "
          "for samples at the posterior peak,\nwhile double precision allows ~1e-9.")
    sys.exit(1)
print("no defect")
