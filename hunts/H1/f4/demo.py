"""C01 / C03 / C04: which survey the offset parameter dv0_k (and its declared prior) belongs to
depends on the ALPHABETICAL order of the dictionary keys, not on the order in which the surveys
are given.  A list [d1, d2] and a dict {'s1': d1, 's2': d2} attach dv0_1 to the second data set;
the same two data sets passed as {'TRES': d1, 'APOGEE': d2} (or {2: d1, 1: d2}) attach it to
the FIRST one.  The two surveys do not overlap in time and are given in time order, so this is
not the known time-sorting mislabelling.

Run:  cd /tmp/wt/H1 && PYTHONPATH=/tmp/wt/H1 /venv/bin/python -W ignore findings/f4/demo.py
"""
import sys

import astropy.units as u
import numpy as np
import pymc as pm
from astropy.time import Time

import thejoker as tj
import thejoker.units as xu

kms = u.km / u.s


def kepler_col(dt, P, e, om, M0):
    M = np.mod(2 * np.pi * dt / P - M0, 2 * np.pi)
    E = M + e * np.sin(M)
    for _ in range(100):
        E = E - (E - e * np.sin(E) - M) / (1 - e * np.cos(E))
    f = 2 * np.arctan2(np.sqrt(1 + e) * np.sin(E / 2), np.sqrt(1 - e) * np.cos(E / 2))
    return np.cos(f + om) + e * np.cos(om)


def marg_ll(y, var, M, mu, Lam):
    B = np.diag(var) + M @ np.diag(Lam) @ M.T
    r = y - M @ mu
    L = np.linalg.cholesky(B)
    z = np.linalg.solve(L, r)
    return -0.5 * z @ z - np.log(np.diag(L)).sum() - 0.5 * len(y) * np.log(2 * np.pi)


r = np.random.default_rng(1)
t1 = 58000 + np.sort(r.uniform(0, 100, 6))          # survey given first  ("TRES")
t2 = 58200 + np.sort(r.uniform(0, 100, 5))          # survey given second ("APOGEE"), +3 km/s zero point
y1 = 10 + 4 * np.sin(2 * np.pi * t1 / 41.0) + r.normal(0, 0.2, 6)
y2 = 13 + 4 * np.sin(2 * np.pi * t2 / 41.0) + r.normal(0, 0.2, 5)
d1 = tj.RVData(Time(t1, format="mjd", scale="tcb"), y1 * kms, np.full(6, 0.2) * kms)
d2 = tj.RVData(Time(t2, format="mjd", scale="tcb"), y2 * kms, np.full(5, 0.2) * kms)

with pm.Model():
    # calibration says: the second survey reads 3.0 +- 0.5 km/s higher than the first
    dv0_1 = xu.with_unit(pm.Normal("dv0_1", 3.0, 0.5), kms)
    prior = tj.JokerPrior.default(P_min=2 * u.day, P_max=300 * u.day, sigma_K0=30 * kms,
                                  sigma_v=20 * kms, v0_offsets=[dv0_1])
ps = prior.sample(4, rng=np.random.default_rng(2))
joker = tj.TheJoker(prior)

lib = {}
for label, data in [("list [d1, d2]", [d1, d2]),
                    ("dict {'s1': d1, 's2': d2}", {"s1": d1, "s2": d2}),
                    ("dict {'TRES': d1, 'APOGEE': d2}", {"TRES": d1, "APOGEE": d2}),
                    ("dict {2: d1, 1: d2}", {2: d1, 1: d2})]:
    lib[label] = joker.marginal_ln_likelihood(data, ps)
    print(f"{label:34s}", np.round(lib[label], 4))

t = np.concatenate([t1, t2])
y = np.concatenate([y1, y2])
dt = t - t.min()
ref = {}
for which, ids in [("second", np.r_[np.zeros(6), np.ones(5)]), ("first", np.r_[np.ones(6), np.zeros(5)])]:
    out = []
    for i in range(4):
        P, e = ps["P"][i].value, ps["e"][i].value
        M = np.stack([kepler_col(dt, P, e, ps["omega"][i].value, ps["M0"][i].value),
                      np.ones(11), ids], axis=1)
        LamK = min(30**2 * (P / 365.25) ** (-2 / 3) / (1 - e**2), 500.0**2)
        out.append(marg_ll(y, np.full(11, 0.04), M, np.array([0, 0, 3.0]), np.array([LamK, 400.0, 0.25])))
    ref[which] = np.array(out)
    print(f"closed form, N(3, 0.5) offset on the {which:6s} survey", np.round(ref[which], 4))

ok_list = np.allclose(lib["list [d1, d2]"], ref["second"], atol=1e-6)
dict_moved = np.allclose(lib["dict {'TRES': d1, 'APOGEE': d2}"], ref["first"], atol=1e-6)
if ok_list and dict_moved:
    print("\nDEFECT: with keys 'TRES','APOGEE' the declared dv0_1 prior is applied to the FIRST survey "
          "(APOGEE < TRES alphabetically), i.e. to the other survey than for a list or for keys 's1','s2'.")
    sys.exit(1)
print("no defect")
