"""C11: setup_mcmc called a second time with OTHER data on the same TheJoker / prior
(= the same pymc model: the natural loop "for star in stars: with prior.model:
joker.setup_mcmc(data[star], samples[star]); pm.sample()") silently keeps the likelihood
of the FIRST data set: it returns a fresh initial point for the new data but the model's
observed node, model_rv and ln_likelihood still belong to the first data set.

Run:  cd /tmp/wt/H1 && PYTHONPATH=/tmp/wt/H1 /venv/bin/python -W ignore findings/f3/demo.py
"""
import sys

import astropy.units as u
import numpy as np
from astropy.time import Time

import thejoker as tj

kms = u.km / u.s


def kepler_col(dt, P, e, om, M0):
    M = np.mod(2 * np.pi * dt / P - M0, 2 * np.pi)
    E = M + e * np.sin(M)
    for _ in range(100):
        E = E - (E - e * np.sin(E) - M) / (1 - e * np.cos(E))
    f = 2 * np.arctan2(np.sqrt(1 + e) * np.sin(E / 2), np.sqrt(1 - e) * np.cos(E / 2))
    return np.cos(f + om) + e * np.cos(om)


def make_data(seed, v0, N):
    r = np.random.default_rng(seed)
    t = 58000 + np.sort(r.uniform(0, 300, N))
    y = v0 + 5 * np.sin(2 * np.pi * t / 37.0) + r.normal(0, 0.3, N)
    return t, y, tj.RVData(Time(t, format="mjd", scale="tcb"), y * kms, np.full(N, 0.3) * kms)


t1, y1, star1 = make_data(1, +30.0, 8)
t2, y2, star2 = make_data(2, -50.0, 11)

prior = tj.JokerPrior.default(P_min=2 * u.day, P_max=300 * u.day, sigma_K0=30 * kms,
                              sigma_v=100 * kms)
joker = tj.TheJoker(prior, rng=np.random.default_rng(3))
ps = prior.sample(20000, rng=np.random.default_rng(2))
s1 = joker.rejection_sample(star1, ps, max_posterior_samples=1)
s2 = joker.rejection_sample(star2, ps, max_posterior_samples=1)

model = prior.model
with model:
    init1 = joker.setup_mcmc(star1, s1)
with model:
    init2 = joker.setup_mcmc(star2, s2)          # <- second star, same joker / prior
print("init point returned by the 2nd call: v0 = %.2f km/s (star 2 has v0 ~ -50)" % init2["v0"])

# evaluate the model the 2nd call left behind at the 2nd star's sample
fn = model.compile_fn(model.replace_rvs_by_values([model["model_rv"], model["ln_likelihood"]]),
                      inputs=model.value_vars)
obs_logp = model.compile_logp(vars=[model["obs"]], jacobian=False)
pt = {
    "P": float(init2["P"]),
    "e_logodds__": float(np.log(init2["e"] / (1 - init2["e"]))),
    "__omega_angle1": float(np.sin(init2["omega"])), "__omega_angle2": float(np.cos(init2["omega"])),
    "__M0_angle1": float(np.sin(init2["M0"])), "__M0_angle2": float(np.cos(init2["M0"])),
    "K": float(init2["K"]), "v0": float(init2["v0"]),
}
model_rv, lnlike_diag = fn(pt)
lnlike_obs = float(obs_logp(pt))


def gauss_lnlike(t, y):
    rv = init2["v0"] + init2["K"] * kepler_col(t - t.min(), init2["P"], init2["e"],
                                                init2["omega"], init2["M0"])
    return rv, float(np.sum(-0.5 * ((y - rv) / 0.3) ** 2 - 0.5 * np.log(2 * np.pi * 0.09)))


rv2, ref2 = gauss_lnlike(t2, y2)
rv1, ref1 = gauss_lnlike(t1, y1)
print("model_rv has %d entries; star 2 has %d epochs, star 1 has %d" % (len(model_rv), len(t2), len(t1)))
print("model 'obs' log-density at star 2's sample : %.3f" % lnlike_obs)
print("model 'ln_likelihood' diagnostic            : %.3f" % lnlike_diag)
print("numpy ln N(y_star2 | orbit(t_star2), 0.3^2) : %.3f   <- what C11 demands" % ref2)
print("numpy ln N(y_star1 | orbit(t_star1), 0.3^2) : %.3f   <- what the model contains" % ref1)

if len(model_rv) != len(t2) or abs(lnlike_obs - ref2) > 1e-6:
    assert abs(lnlike_obs - ref1) < 1e-6 and np.allclose(model_rv, rv1)
    print("\nDEFECT: after setup_mcmc(star2, ...) the pymc model still is the model of star 1; "
          "MCMC would sample star 1's posterior, started from star 2's sample.")
    sys.exit(1)
print("no defect")
