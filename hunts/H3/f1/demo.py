"""C18: a Normal prior on a linear parameter whose sigma (or mean) depends on another
sampled parameter is accepted, and the kernel marginalises with ONE frozen sigma.

Run:  cd /tmp/wt/H3 && PYTHONPATH=/tmp/wt/H3 /venv/bin/python -W ignore findings/f1/demo.py
"""
import sys
import numpy as np
import astropy.units as u
import pymc as pm
import thejoker as tj
import thejoker.units as xu


def kepler_col(tt, t0, P, e, om, M0):
    M = np.mod(2 * np.pi * (tt - t0) / P - M0, 2 * np.pi)
    E = M + e * np.sin(M)
    for _ in range(200):
        E = E - (E - e * np.sin(E) - M) / (1 - e * np.cos(E))
    f = 2 * np.arctan2(np.sqrt(1 + e) * np.sin(E / 2), np.sqrt(1 - e) * np.cos(E / 2))
    return np.cos(om + f) + e * np.cos(om)


def marg_ll(tt, rv, err, P, e, om, M0, sig_K, sig_v0):
    """closed form: rv ~ N(0, C + M diag(sig^2) M^T), M = [kepler, 1]"""
    M = np.stack([kepler_col(tt, tt.min(), P, e, om, M0), np.ones_like(tt)], 1)
    B = np.diag(err**2) + M @ np.diag([sig_K**2, sig_v0**2]) @ M.T
    return -0.5 * (rv @ np.linalg.solve(B, rv) + np.linalg.slogdet(2 * np.pi * B)[1])


rng = np.random.default_rng(1)
t = 55000 + np.sort(rng.uniform(0, 300, 8))
rv = rng.normal(0, 5, size=8)
err = np.full(8, 0.3)
data = tj.RVData(t, rv * u.km / u.s, err * u.km / u.s)


def sigma_K(P_day):  # the K prior the user wrote down: sigma_K = 30 km/s (P / 1 yr)^(-1/3)
    return 30.0 * (P_day / 365.25) ** (-1 / 3)


with pm.Model():
    P = xu.with_unit(pm.Uniform("P", 2.0, 500.0), u.day)
    K = xu.with_unit(pm.Normal("K", 0.0, sigma_K(P)), u.km / u.s)
    prior = tj.JokerPrior.default(sigma_v=100 * u.km / u.s, pars={"P": P, "K": K})
print("JokerPrior accepted the P-dependent Normal K prior:", prior)

smp = prior.sample(size=6, rng=np.random.default_rng(2))
joker = tj.TheJoker(prior, rng=np.random.default_rng(3))
ll = joker.marginal_ln_likelihood(data, smp)

args = [
    (smp["P"][i].to_value(u.day), smp["e"][i].value, smp["omega"][i].to_value(u.rad),
     smp["M0"][i].to_value(u.rad))
    for i in range(len(smp))
]
expected = np.array([marg_ll(t, rv, err, *a, sigma_K(a[0]), 100.0) for a in args])

# which constant sigma reproduces the kernel?  (what the kernel does: dist_params[1].eval())
frozen = float(K.owner.op.dist_params(K.owner)[1].eval())
frozen_ll = np.array([marg_ll(t, rv, err, *a, frozen, 100.0) for a in args])

# the prior the user declared really is P dependent (prior.sample draws K with the row's sigma):
full = prior.sample(size=4000, generate_linear=True, rng=np.random.default_rng(5))
z = full["K"].to_value(u.km / u.s) / sigma_K(full["P"].to_value(u.day))
print(f"prior.sample(generate_linear=True): std of K / sigma_K(P) = {z.std():.3f} (1 => P-dependent prior)")

print("P [d]                         :", np.round([a[0] for a in args], 2))
print("sigma_K(P) the prior declares :", np.round([sigma_K(a[0]) for a in args], 2))
print(f"sigma_K the kernel used       : {frozen:.2f} for every row")
print("kernel   marginal ln L        :", ll)
print("expected marginal ln L        :", expected)
print("closed form with frozen sigma :", frozen_ll)
d_exp = np.abs(ll - expected).max()
d_frz = np.abs(ll - frozen_ll).max()
print(f"max |kernel - expected| = {d_exp:.3g};  max |kernel - frozen-sigma form| = {d_frz:.3g}")
if d_exp > 1e-6:
    print("VIOLATION (C18): the prior was accepted but the marginalisation is not the one of the "
          "declared model")
    sys.exit(1)
print("ok")
