"""C08: surveys passed as a dict are matched to the offset parameters by the SORTED (string)
order of the keys, not by the order in which they are supplied, so the same surveys in the
same order give different likelihoods as a list and as a dict.

The surveys here are disjoint in time and given in time order, so the already-known
"labels stay in concatenation order" defect plays no role.

Run:  cd /tmp/wt/H3 && PYTHONPATH=/tmp/wt/H3 /venv/bin/python -W ignore findings/f2/demo.py
"""
import sys
import numpy as np
import astropy.units as u
import pymc as pm
import thejoker as tj
import thejoker.units as xu


def kepler_col(tt, t0, P, e, om, M0):
    M = np.mod(2 * np.pi * (tt - t0) / P - M0, 2 * np.pi)
    E = M + e * np.sin(M)
    for _ in range(200):
        E = E - (E - e * np.sin(E) - M) / (1 - e * np.cos(E))
    f = 2 * np.arctan2(np.sqrt(1 + e) * np.sin(E / 2), np.sqrt(1 - e) * np.cos(E / 2))
    return np.cos(om + f) + e * np.cos(om)


def marg_ll(tt, rv, err, lab, P, e, om, M0, mu, sig):
    cols = [kepler_col(tt, tt.min(), P, e, om, M0), np.ones_like(tt)]
    cols += [(lab == k).astype(float) for k in range(1, lab.max() + 1)]
    M = np.stack(cols, 1)
    B = np.diag(err**2) + M @ np.diag(np.asarray(sig) ** 2) @ M.T
    r = rv - M @ np.asarray(mu)
    return -0.5 * (r @ np.linalg.solve(B, r) + np.linalg.slogdet(2 * np.pi * B)[1])


rng = np.random.default_rng(3)
n = [5, 4, 6]
ts = [55000 + 400 * i + np.sort(rng.uniform(0, 300, n[i])) for i in range(3)]   # disjoint, in time order
rvs = [rng.normal(0, 5, n[i]) for i in range(3)]
errs = [rng.uniform(0.1, 0.5, n[i]) for i in range(3)]
d = [tj.RVData(ts[i], rvs[i] * u.km / u.s, errs[i] * u.km / u.s) for i in range(3)]

with pm.Model():
    dv1 = xu.with_unit(pm.Normal("dv0_1", 0.3, 2.0), u.km / u.s)    # for the 2nd survey
    dv2 = xu.with_unit(pm.Normal("dv0_2", -1.0, 0.2), u.km / u.s)   # for the 3rd survey
    prior = tj.JokerPrior.default(P_min=2 * u.day, P_max=500 * u.day, sigma_K0=30 * u.km / u.s,
                                  sigma_v=50 * u.km / u.s, v0_offsets=[dv1, dv2])
smp = prior.sample(size=5, rng=np.random.default_rng(4))
joker = tj.TheJoker(prior, rng=np.random.default_rng(1))

tt, rv, err = np.concatenate(ts), np.concatenate(rvs), np.concatenate(errs)


def expected(labels_of_survey):
    lab = np.concatenate([[labels_of_survey[i]] * n[i] for i in range(3)])
    out = []
    for i in range(len(smp)):
        P, e = smp["P"][i].to_value(u.day), smp["e"][i].value
        sK = min(30.0 * (P / 365.25) ** (-1 / 3) / np.sqrt(1 - e**2), 500.0)
        out.append(marg_ll(tt, rv, err, lab, P, e, smp["omega"][i].to_value(u.rad),
                           smp["M0"][i].to_value(u.rad), [0, 0, 0.3, -1.0], [sK, 50.0, 2.0, 0.2]))
    return np.array(out)


in_order = expected([0, 1, 2])   # 1st source = reference, 2nd -> dv0_1, 3rd -> dv0_2

ll_list = joker.marginal_ln_likelihood([d[0], d[1], d[2]], smp)
ll_dict = joker.marginal_ln_likelihood({"apogee": d[0], "lamost": d[1], "galah": d[2]}, smp)
ll_num = joker.marginal_ln_likelihood({"s9": d[0], "s10": d[1], "s11": d[2]}, smp)
ll_mix = joker.marginal_ln_likelihood({9: d[0], 10: d[1], "x": d[2]}, smp)

print("closed form, sources labelled in the order given:", in_order)
print("list  [d0, d1, d2]                             :", ll_list)
print("dict  {apogee: d0, lamost: d1, galah: d2}       :", ll_dict)
print("dict  {s9: d0, s10: d1, s11: d2}                :", ll_num)
print("dict  {9: d0, 10: d1, 'x': d2}                  :", ll_mix)
print("   the dicts equal the closed form for the labelling by sorted str(key):")
print("   apogee<galah<lamost  -> labels [0,2,1]:", np.abs(ll_dict - expected([0, 2, 1])).max())
print("   s10<s11<s9           -> labels [2,0,1]:", np.abs(ll_num - expected([2, 0, 1])).max())
print("   '10'<'9'<'x'         -> labels [1,0,2]:", np.abs(ll_mix - expected([1, 0, 2])).max())

bad = False
for name, ll in [("list", ll_list), ("dict names", ll_dict), ("dict s9..s11", ll_num), ("dict 9,10,'x'", ll_mix)]:
    dmax = np.abs(ll - in_order).max()
    print(f"{name:15s} max |ll - closed form (order given)| = {dmax:.3g}")
    bad |= dmax > 1e-6
if bad:
    print("VIOLATION (C08): with dict input the offset priors / reference are not assigned in the order "
          "of the sources; list and dict of the same surveys disagree")
    sys.exit(1)
print("ok")
