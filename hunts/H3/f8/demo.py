"""C17 (low): pack() followed by unpack() does not reproduce the units of P, e, omega, M0:
pack() silently converts these four columns to day / one / rad / rad even when no `units` are
requested (the docstring says conversion happens "if specified"); all other columns keep theirs.
It also adds those defaults to the caller's `units` dict.

Run:  cd /tmp/wt/H3 && PYTHONPATH=/tmp/wt/H3 /venv/bin/python -W ignore findings/f8/demo.py
"""
import sys
import numpy as np
import astropy.units as u
from astropy.time import Time
from thejoker import JokerSamples

rng = np.random.default_rng(0)
N = 5
s = JokerSamples(t_ref=Time(55000.0, format="mjd", scale="tcb"))
s["P"] = rng.uniform(0.1, 3, N) * u.yr
s["e"] = rng.uniform(0, 0.9, N)
s["omega"] = rng.uniform(0, 360, N) * u.deg
s["M0"] = rng.uniform(0, 360, N) * u.deg
s["s"] = rng.uniform(0, 6, N) * u.m / u.s
s["K"] = rng.normal(0, 6000, N) * u.m / u.s
s["v0"] = rng.normal(0, 6, N) * u.km / u.s

packed, units = s.pack(nonlinear_only=False)
r = JokerSamples.unpack(packed, units, t_ref=s.t_ref, poly_trend=s.poly_trend, n_offsets=s.n_offsets)
print("names reproduced:", r.par_names == s.par_names)
bad = False
for k in s.par_names:
    same_unit = r[k].unit == s[k].unit
    same_val = np.array_equal(r[k].value, s[k].value)
    print(f"  {k:6s} in: {str(s[k].unit):8s} out: {str(r[k].unit):8s} unit kept: {same_unit}  numbers kept: {same_val}")
    bad |= not (same_unit and same_val)

mine = {"K": u.km / u.s}
s.pack(units=mine, nonlinear_only=False)
print("caller's units dict after pack(units={'K': km/s}):", mine)
if bad:
    print("VIOLATION (C17): pack -> unpack changes units (and stored numbers) of P, omega, M0")
    sys.exit(1)
print("ok")
