"""C13: if creating the temporary cache file fails (h5py.File(...) raising inside
JokerSamples.write, e.g. disk full / quota / permissions), the cleanup in tempfile_decorator
raises FileNotFoundError from its `finally`, and THAT is what reaches the caller instead of the
failure.

Fault injection: h5py.File fails at its 1st invocation inside each sampling entry point.

Run:  cd /tmp/wt/H3 && PYTHONPATH=/tmp/wt/H3 /venv/bin/python -W ignore findings/f5/demo.py
"""
import os
import sys
import tempfile
from unittest import mock
import numpy as np
import astropy.units as u
import h5py
import pymc as pm
import thejoker as tj

tmpd = tempfile.mkdtemp()
tempfile.tempdir = tmpd

rng = np.random.default_rng(3)
t = 55000 + np.sort(rng.uniform(0, 300, 8))
data = tj.RVData(t, rng.normal(0, 5, 8) * u.km / u.s, np.full(8, 0.3) * u.km / u.s)
with pm.Model():
    prior = tj.JokerPrior.default(P_min=2 * u.day, P_max=300 * u.day, sigma_K0=30 * u.km / u.s,
                                  sigma_v=50 * u.km / u.s)
smp = prior.sample(size=2000, return_logprobs=True, rng=np.random.default_rng(4))


class DiskFull(OSError):
    pass


def make_failing_File(k):
    cnt = {"n": 0}

    class F(h5py.File):
        def __init__(self, *a, **kw):
            cnt["n"] += 1
            if cnt["n"] == k:
                raise DiskFull("injected: unable to create file (no space left on device)")
            super().__init__(*a, **kw)

    return F


calls = {
    "rejection_sample": lambda j: j.rejection_sample(data, smp, return_logprobs=True),
    "marginal_ln_likelihood": lambda j: j.marginal_ln_likelihood(data, smp),
    "iterative_rejection_sample": lambda j: j.iterative_rejection_sample(
        data, smp, n_requested_samples=4, init_batch_size=500),
}
bad = False
for name, call in calls.items():
    joker = tj.TheJoker(prior, rng=np.random.default_rng(1))
    exc = None
    with mock.patch.object(h5py, "File", make_failing_File(1)):
        try:
            call(joker)
        except BaseException as e:  # noqa
            exc = e
    left = [x for x in os.listdir(tmpd) if x.endswith(".hdf5")]
    print(f"{name}: exception reaching the caller = {type(exc).__name__}: {exc}")
    print(f"   (the injected DiskFull is only its __context__: {type(exc.__context__).__name__});"
          f" leftover cache files: {left}")
    if not isinstance(exc, DiskFull):
        bad = True
    call(joker)  # next call works

if bad:
    print("VIOLATION (C13): the failure of the cache write does not reach the caller; a FileNotFoundError "
          "raised by the cleanup does")
    sys.exit(1)
print("ok")
