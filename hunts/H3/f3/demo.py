"""C09: prior.sample(return_logprobs=True) leaves out the density of every parameter whose pymc
variable name differs from its key in `pars` (accepted by JokerPrior); ln_prior is then not the
log of the joint density of the rows up to a constant.

Run:  cd /tmp/wt/H3 && PYTHONPATH=/tmp/wt/H3 /venv/bin/python -W ignore findings/f3/demo.py
"""
import sys
import numpy as np
import astropy.units as u
import pymc as pm
from scipy import stats
import thejoker as tj
import thejoker.units as xu

with pm.Model():
    # e.g. a model that holds two systems, so the variables carry a suffix
    pars = {
        "P": xu.with_unit(pm.Gamma("P_1", 2.0, 0.05), u.day),
        "e": xu.with_unit(pm.Beta("e_1", 2.0, 5.0), u.one),
        "omega": xu.with_unit(pm.Uniform("omega_1", 0, 2 * np.pi), u.rad),
        "M0": xu.with_unit(pm.Uniform("M0_1", 0, 2 * np.pi), u.rad),
        "s": xu.with_unit(pm.HalfNormal("s", 3.0), u.m / u.s),
        "K": xu.with_unit(pm.Normal("K", 0, 20.0), u.km / u.s),
        "v0": xu.with_unit(pm.Normal("v0", 0, 50.0), u.km / u.s),
    }
    prior = tj.JokerPrior(pars=pars)
print("accepted:", prior)

smp = prior.sample(size=200, return_logprobs=True, rng=np.random.default_rng(5))
P, e, s = smp["P"].to_value(u.day), smp["e"].value, smp["s"].to_value(u.m / u.s)

# the draws do follow the declared priors ...
print("KS p-values of the draws: P", round(stats.kstest(P, stats.gamma(2.0, scale=20).cdf).pvalue, 3),
      " e", round(stats.kstest(e, stats.beta(2, 5).cdf).pvalue, 3))

# ... so the joint log density (uniform angles are constants) is
lp_joint = stats.gamma(2.0, scale=20.0).logpdf(P) + stats.beta(2, 5).logpdf(e) + stats.halfnorm(scale=3).logpdf(s)
lp_s_only = stats.halfnorm(scale=3).logpdf(s)

d = smp["ln_prior"].value - lp_joint
print("ln_prior - log joint density: min %.3f max %.3f  (must be one constant)" % (d.min(), d.max()))
print("ln_prior - log p(s) alone   : spread %.2g  -> ln_prior contains only the s term"
      % np.ptp(smp["ln_prior"].value - lp_s_only))
if np.ptp(d) > 1e-8:
    print("VIOLATION (C09): ln_prior is not the log joint density of the rows up to an additive constant "
          f"(spread {np.ptp(d):.3f})")
    sys.exit(1)
print("ok")
