"""C09: the default priors on omega and M0 are documented as U(0, 2 pi) but the draws lie in
(-pi, pi): half of them are outside the documented support.

Run:  cd /tmp/wt/H3 && PYTHONPATH=/tmp/wt/H3 /venv/bin/python -W ignore findings/f6/demo.py
"""
import sys
import numpy as np
import astropy.units as u
import pymc as pm
from scipy import stats
import thejoker as tj

with pm.Model():
    prior = tj.JokerPrior.default(P_min=2 * u.day, P_max=300 * u.day, sigma_K0=30 * u.km / u.s,
                                  sigma_v=50 * u.km / u.s)
doc = [ln.strip() for ln in tj.JokerPrior.default.__doc__.splitlines() if "omega" in ln or "M_0" in ln][:2]
print("documented (JokerPrior.default docstring):", doc)

smp = prior.sample(size=20000, rng=np.random.default_rng(1))
bad = False
for name in ["omega", "M0"]:
    x = smp[name].to_value(u.rad)
    frac_out = np.mean((x < 0) | (x > 2 * np.pi))
    ks_doc = stats.kstest(x, stats.uniform(0, 2 * np.pi).cdf).pvalue
    ks_act = stats.kstest(x, stats.uniform(-np.pi, 2 * np.pi).cdf).pvalue
    print(f"{name}: min {x.min():+.4f} max {x.max():+.4f}; fraction outside (0, 2pi) = {frac_out:.3f}; "
          f"KS p vs U(0,2pi) = {ks_doc:.2g}, vs U(-pi,pi) = {ks_act:.2g}")
    bad |= frac_out > 0

# the same range ends up in posterior tables, where wrap_K() maps only the K<0 rows into [0, 2pi)
if bad:
    print("VIOLATION (C09): draws of the uniform angle priors fall outside the documented support (0, 2pi)")
    sys.exit(1)
print("ok")
