"""C12: appending a table WITHOUT reference epoch (t_ref=None, e.g. prior samples) to a file whose
table has a reference epoch is accepted; the appended rows silently acquire the file's t_ref.
(The reverse order - file without, table with t_ref - is refused.)

Run:  cd /tmp/wt/H3 && PYTHONPATH=/tmp/wt/H3 /venv/bin/python -W ignore findings/f4/demo.py
"""
import os
import sys
import tempfile
import numpy as np
import astropy.units as u
from astropy.time import Time
from thejoker import JokerSamples

rng = np.random.default_rng(0)


def mk(n, t_ref):
    s = JokerSamples(t_ref=t_ref)
    s["P"] = rng.uniform(1, 3, n) * u.day
    s["e"] = rng.uniform(0, 1, n)
    s["omega"] = rng.uniform(0, 6, n) * u.rad
    s["M0"] = rng.uniform(0, 6, n) * u.rad
    s["s"] = np.zeros(n) * u.km / u.s
    return s


T = Time(55000.123, format="mjd", scale="tcb")
d = tempfile.mkdtemp()
fn = os.path.join(d, "post.hdf5")

a = mk(4, T)        # e.g. posterior samples: M0 is the mean anomaly at t_ref = T
b = mk(3, None)     # e.g. prior.sample(...): no reference epoch
c = mk(3, Time(56000.0, format="mjd", scale="tcb"))

a.write(fn)
size0 = os.path.getsize(fn)

bad = False
try:
    c.write(fn, append=True)
    print("append of a table with a DIFFERENT t_ref: accepted (unexpected)")
    bad = True
except Exception as ex:
    print("append of a table with a different t_ref: refused  (%s)" % type(ex).__name__)

try:
    b.write(fn, append=True)
    r = JokerSamples.read(fn)
    print(f"append of a table with t_ref=None: ACCEPTED; file now has {len(r)} rows, t_ref={r.t_ref.mjd}")
    print("   rows 4..6 were written with t_ref=None, read back with t_ref =", r[4:].t_ref)
    t0_back = r[4:].get_t0()
    print("   get_t0() of those rows now returns epochs:", t0_back.mjd,
          " (before writing: get_t0() raised for lack of a reference time)")
    bad = True
except Exception as ex:
    print("append of a table with t_ref=None: refused (%s)" % type(ex).__name__)

# for contrast: the reverse order is refused
fn2 = os.path.join(d, "prior.hdf5")
b.write(fn2)
try:
    a.write(fn2, append=True)
    print("reverse (file t_ref=None, table t_ref=T): accepted")
except Exception as ex:
    print("reverse (file t_ref=None, table t_ref=T): refused (%s)" % type(ex).__name__)

if bad:
    print("VIOLATION (C12): an append with a conflicting reference epoch was not refused; read-back does "
          "not reproduce the metadata that was written")
    sys.exit(1)
print("ok")
