"""C12: read_batch with a slice allocates the batch with the dtype of the FIRST requested column.
If that column is float32 and others are float64, the float64 columns come back truncated to
float32 - and differ from what read_batch returns for the same rows given as an index array.

Run:  cd /tmp/wt/H3 && PYTHONPATH=/tmp/wt/H3 /venv/bin/python -W ignore findings/f7/demo.py
"""
import os
import sys
import tempfile
import numpy as np
import astropy.units as u
from thejoker import JokerSamples
from thejoker.utils import read_batch

rng = np.random.default_rng(0)
N = 6
s = JokerSamples()
s["P"] = rng.uniform(1, 3, N).astype(np.float32) * u.day      # a float32 column (e.g. to save space)
s["e"] = rng.uniform(0, 1, N)
s["omega"] = rng.uniform(0, 6, N) * u.rad
s["M0"] = rng.uniform(0, 6, N) * u.rad
s["s"] = rng.uniform(0, 6, N) * u.km / u.s
fn = os.path.join(tempfile.mkdtemp(), "lib.hdf5")
s.write(fn)
r = JokerSamples.read(fn)
print("stored dtypes:", {k: str(r[k].dtype) for k in r.par_names}, "- file holds the float64 values exactly:",
      bool(np.all(r["M0"] == s["M0"])))

cols = ["P", "e", "omega", "M0", "s"]            # the order the sampler asks for
want = np.stack([s[c].value.astype(np.float64) for c in cols], 1)
b_slice = read_batch(fn, cols, slice(0, N))
b_tuple = read_batch(fn, cols, (0, N))
b_idx = read_batch(fn, cols, np.arange(N))
b_other = read_batch(fn, ["e", "P", "omega", "M0", "s"], slice(0, N))
print("slice      : dtype", b_slice.dtype, " max |err| =", np.abs(b_slice - want).max())
print("tuple      : dtype", b_tuple.dtype, " max |err| =", np.abs(b_tuple - want).max())
print("index array: dtype", b_idx.dtype, " max |err| =", np.abs(b_idx - want).max())
print("slice, columns requested with e first: dtype", b_other.dtype, " max |err| =",
      np.abs(b_other - want[:, [1, 0, 2, 3, 4]]).max())
if np.abs(b_slice - want).max() > 0:
    print("VIOLATION (C12): read_batch(slice) does not return the stored values of the requested columns "
          "(float64 columns truncated to float32); same rows via index array are exact")
    sys.exit(1)
print("ok")
