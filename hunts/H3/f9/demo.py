"""C12: FITS round trip of a samples table WITHOUT reference epoch (t_ref=None - every table from
prior.sample()) does not give back the same metadata: the read-back object carries a spurious
`T_REF: <astropy.io.fits.card.Undefined>` entry (and upper-cased duplicates of user metadata),
and can then neither be written to HDF5 nor be used as `prior_samples` by the sampler.

Run:  cd /tmp/wt/H3 && PYTHONPATH=/tmp/wt/H3 /venv/bin/python -W ignore findings/f9/demo.py
"""
import os
import sys
import tempfile
import numpy as np
import astropy.units as u
import pymc as pm
import thejoker as tj

d = tempfile.mkdtemp()
with pm.Model():
    prior = tj.JokerPrior.default(P_min=2 * u.day, P_max=300 * u.day, sigma_K0=30 * u.km / u.s,
                                  sigma_v=50 * u.km / u.s)
smp = prior.sample(size=500, rng=np.random.default_rng(4), run="A7")   # extra metadata: run="A7"
fn = os.path.join(d, "prior.fits")
smp.write(fn)
back = tj.JokerSamples.read(fn)

print("metadata written :", dict(smp.tbl.meta))
print("metadata read    :", dict(back.tbl.meta))
cols_ok = back.par_names == smp.par_names and all(
    np.array_equal(back[k].value, smp[k].value) and back[k].unit == smp[k].unit for k in smp.par_names)
print("columns/values/units reproduced:", cols_ok)
meta_ok = dict(back.tbl.meta) == dict(smp.tbl.meta)

problems = []
if not meta_ok:
    problems.append("read-back metadata differs from what was written")

try:
    back.write(os.path.join(d, "again.hdf5"))
    print("read-back table -> write to HDF5: ok")
except Exception as ex:
    print("read-back table -> write to HDF5: FAILS:", type(ex).__name__, str(ex)[:90])
    problems.append("read-back table cannot be written to HDF5")

rng = np.random.default_rng(3)
t = 55000 + np.sort(rng.uniform(0, 300, 8))
data = tj.RVData(t, rng.normal(0, 5, 8) * u.km / u.s, np.full(8, 0.3) * u.km / u.s)
joker = tj.TheJoker(prior, rng=np.random.default_rng(1))
try:
    joker.rejection_sample(data, smp)            # the original object works
    joker.rejection_sample(data, back)           # the table read back from FITS
    print("rejection_sample(data, <table read from FITS>): ok")
except Exception as ex:
    print("rejection_sample(data, <table read from FITS>): FAILS:", type(ex).__name__, str(ex)[:90])
    problems.append("read-back table is rejected by the sampler's cache writer")

if problems:
    print("VIOLATION (C12):", "; ".join(problems))
    sys.exit(1)
print("ok")
