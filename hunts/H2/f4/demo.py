"""f4: randomize_prior_order=True is silently ignored when in_memory=True
(rejection_sample and iterative_rejection_sample): the first rows of the library are evaluated
for every seed, and for equal seeds the accepted set differs from the cache path.

Run:  cd /tmp/wt/H2 && PYTHONPATH=/tmp/wt/H2 /venv/bin/python -W ignore findings/f4/demo.py
"""
import sys
import numpy as np, astropy.units as u
from astropy.time import Time
import pymc as pm
import thejoker as tj

g = np.random.default_rng(1)
n = 5
t = 58000 + np.sort(g.uniform(0, 300, n))
data = tj.RVData(Time(t, format="mjd", scale="tcb"), g.normal(0, 3, n) * u.km / u.s,
                 g.uniform(1, 2, n) * u.km / u.s)
with pm.Model():
    prior = tj.JokerPrior.default(P_min=2 * u.day, P_max=100 * u.day,
                                  sigma_K0=30 * u.km / u.s, sigma_v=100 * u.km / u.s)
N, k = 400, 40
lib = prior.sample(size=N, rng=np.random.default_rng(2), return_logprobs=True)
Plib = lib["P"].to_value(u.day)


def rows_of(samples):
    return sorted({int(np.argmin(np.abs(Plib - p))) for p in samples["P"].to_value(u.day)})


fails = []
print(f"library of {N} rows, n_prior_samples={k}, randomize_prior_order=True")
evaluated = {}
for in_memory in (False, True):
    evaluated[in_memory] = []
    for seed in range(6):
        s, lls = tj.TheJoker(prior, rng=np.random.default_rng(seed)).rejection_sample(
            data, lib, n_prior_samples=k, randomize_prior_order=True, in_memory=in_memory,
            return_logprobs=True, return_all_logprobs=True)
        # which library rows were evaluated?  identify them through ln_prior-free, path-free
        # information: the full-library ln-likelihoods
        full = tj.TheJoker(prior).marginal_ln_likelihood(data, lib, in_memory=True)
        ev = [int(np.argmin(np.abs(full - x))) for x in lls]
        evaluated[in_memory].append(ev)
        print(f"  in_memory={in_memory!s:5} seed={seed}: evaluated rows {ev[:8]}...  accepted rows {rows_of(s)}")
    first_k = all(e == list(range(k)) for e in evaluated[in_memory])
    if first_k:
        fails.append(f"in_memory={in_memory}: randomize_prior_order=True evaluates rows 0..{k-1} in library order for every seed")

# equal seed, the two execution paths
for seed in range(3):
    a = tj.TheJoker(prior, rng=np.random.default_rng(seed)).rejection_sample(
        data, lib, n_prior_samples=k, randomize_prior_order=True, in_memory=False)
    b = tj.TheJoker(prior, rng=np.random.default_rng(seed)).rejection_sample(
        data, lib, n_prior_samples=k, randomize_prior_order=True, in_memory=True)
    if rows_of(a) != rows_of(b):
        fails.append(f"C05: seed {seed}: accepted set differs between in_memory=False {rows_of(a)} and True {rows_of(b)}")

# iterative sampler
for in_memory in (False, True):
    firsts = []
    for seed in range(5):
        s = tj.TheJoker(prior, rng=np.random.default_rng(seed)).iterative_rejection_sample(
            data, lib, n_requested_samples=1, init_batch_size=20, randomize_prior_order=True,
            in_memory=in_memory)
        firsts.append(rows_of(s)[0])
    print(f"  iterative, in_memory={in_memory!s:5}: returned row per seed {firsts}")
    if all(r < 20 for r in firsts) and in_memory:
        fails.append("iterative_rejection_sample(in_memory=True, randomize_prior_order=True) only ever evaluates the first init_batch_size rows")

print()
if fails:
    print("VIOLATIONS:")
    for f in fails:
        print("  -", f)
    sys.exit(1)
print("no violation")
