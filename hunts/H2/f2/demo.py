"""f2: on the cache path the random streams of the linear-parameter draws are seeded from the
generator's private SeedSequence (rng.bit_generator._seed_seq), not from the generator.

Two generators that numpy guarantees to produce the same stream (same class, same state) give
identical results in memory but different linear parameters through the cache; a generator
without a SeedSequence crashes.

Run:  cd /tmp/wt/H2 && PYTHONPATH=/tmp/wt/H2 /venv/bin/python -W ignore findings/f2/demo.py
"""
import sys
import numpy as np, astropy.units as u
from astropy.time import Time
import pymc as pm
import thejoker as tj

g = np.random.default_rng(1)
n = 8
t = 58000 + np.sort(g.uniform(0, 300, n))
data = tj.RVData(Time(t, format="mjd", scale="tcb"), g.normal(0, 5, n) * u.km / u.s,
                 g.uniform(0.3, 1, n) * u.km / u.s)
with pm.Model():
    prior = tj.JokerPrior.default(P_min=2 * u.day, P_max=100 * u.day,
                                  sigma_K0=30 * u.km / u.s, sigma_v=100 * u.km / u.s)
lib = prior.sample(size=300, rng=np.random.default_rng(2))

LIN = ["K", "v0"]
NL = ["P", "e", "omega", "M0", "s"]


def same(a, b, names):
    return len(a) == len(b) and all(np.array_equal(a[k].value, b[k].value) for k in names)


fails = []

makers = {
    # the numpy-documented way to get independent streams from one seed
    "Generator(PCG64(42).jumped(1))": lambda: np.random.Generator(np.random.PCG64(42).jumped(1)),
    # a generator restored from a saved state (checkpoint / restart)
    "default_rng() with state restored from default_rng(42)": None,
}
saved_state = np.random.default_rng(42).bit_generator.state


def restored():
    r = np.random.default_rng()
    r.bit_generator.state = saved_state
    return r


makers["default_rng() with state restored from default_rng(42)"] = restored

for label, mk in makers.items():
    a, b = mk(), mk()
    assert a.bit_generator.state == b.bit_generator.state
    # independent statement of "same generator": numpy's own streams are bit-identical
    assert np.array_equal(mk().uniform(size=50), mk().uniform(size=50))
    print(f"\n{label}: two instances, identical bit-generator state")
    for in_memory in (True, False):
        s1 = tj.TheJoker(prior, rng=mk()).rejection_sample(data, lib, in_memory=in_memory, n_linear_samples=2)
        s2 = tj.TheJoker(prior, rng=mk()).rejection_sample(data, lib, in_memory=in_memory, n_linear_samples=2)
        nl, lin = same(s1, s2, NL), same(s1, s2, LIN)
        print(f"  in_memory={in_memory!s:5}: accepted rows identical: {nl};  linear draws identical: {lin}"
              f"   K[0] = {s1['K'][0]:.6f} vs {s2['K'][0]:.6f}")
        if not (nl and lin):
            fails.append(f"C10: equal generators give different output ({label}, in_memory={in_memory})")
    s1 = tj.TheJoker(prior, rng=mk()).iterative_rejection_sample(data, lib, n_requested_samples=2, init_batch_size=100)
    s2 = tj.TheJoker(prior, rng=mk()).iterative_rejection_sample(data, lib, n_requested_samples=2, init_batch_size=100)
    if not same(s1, s2, NL + LIN):
        print("  iterative_rejection_sample (cache path): outputs differ")
        fails.append(f"C10: equal generators give different iterative output ({label})")

# a perfectly valid numpy Generator that has no SeedSequence at all
r = np.random.Generator(np.random.Philox(key=5))
try:
    tj.TheJoker(prior, rng=r).rejection_sample(data, lib, in_memory=True)
    print("\nGenerator(Philox(key=5)): in_memory=True works")
    tj.TheJoker(prior, rng=r).rejection_sample(data, lib)
    print("Generator(Philox(key=5)): cache path works")
except Exception as e:  # noqa
    print(f"Generator(Philox(key=5)): cache path raises {type(e).__name__}: {e}")
    fails.append("C10: cache path needs rng.bit_generator._seed_seq (None for Philox(key=...))")

print()
if fails:
    print("VIOLATIONS:")
    for f in fails:
        print("  -", f)
    sys.exit(1)
print("no violation")
