"""f6: the marginal ln-likelihood loses digits in proportion to (prior width / rv_err)^2.

With the polynomial-trend prior of the package's own tutorial 3 on a long, precise data set the
reported ln-likelihood of well-fitting samples is wrong in the 2nd decimal (acceptance probabilities
off by per cents), that of poorly fitting samples by hundreds; a numerically stable evaluation of
the same closed form in the same double precision is good to 1e-8.

Reference: exact rational arithmetic (fractions.Fraction) on the float inputs.

Run:  cd /tmp/wt/H2 && PYTHONPATH=/tmp/wt/H2 /venv/bin/python -W ignore findings/f6/demo.py
"""
import sys, math
from fractions import Fraction as Fr
import numpy as np, astropy.units as u
from astropy.time import Time
from astropy.table import QTable
import pymc as pm
import thejoker as tj


def kepler_rv(t, P, e, om, M0, t0):
    M = 2 * np.pi * (t - t0) / P - M0
    E = M + e * np.sin(M)
    for _ in range(200):
        dM = M - (E - e * np.sin(E))
        E = E + dM / (1 - e * np.cos(E))
        if np.all(np.abs(dM) < 1e-14):
            break
    f = 2 * np.arctan2(np.sqrt(1 + e) * np.sin(E / 2), np.sqrt(1 - e) * np.cos(E / 2))
    return np.cos(om + f) + e * np.cos(om)


def design(t, t0, P, e, om, M0, poly):
    return np.stack([kepler_rv(t, P, e, om, M0, t0)] + [(t - t0) ** i for i in range(poly)], axis=1)


def exact_ll(M, rv, err, Lam):
    """ln N(rv | 0, C + M Lam M^T), exact rational arithmetic on the double inputs."""
    nt, nl = M.shape
    Mf = [[Fr(float(x)) for x in row] for row in M]
    L = [Fr(float(x)) for x in Lam]
    B = [[sum(Mf[n][k] * L[k] * Mf[m][k] for k in range(nl)) for m in range(nt)] for n in range(nt)]
    for n in range(nt):
        B[n][n] += Fr(float(err[n])) ** 2
    r = [Fr(float(x)) for x in rv]
    A = [row[:] + [r[i]] for i, row in enumerate(B)]
    det = Fr(1)
    for i in range(nt):
        p = A[i][i]; det *= p
        for j in range(i + 1, nt):
            f = A[j][i] / p
            A[j] = [a - f * b for a, b in zip(A[j], A[i])]
    x = [Fr(0)] * nt
    for i in reversed(range(nt)):
        x[i] = (A[i][nt] - sum(A[i][j] * x[j] for j in range(i + 1, nt))) / A[i][i]
    chi2 = sum(a * b for a, b in zip(r, x))
    return -0.5 * (float(chi2) + math.log(det.numerator) - math.log(det.denominator) + nt * math.log(2 * math.pi))


def stable_ll(M, rv, err, Lam):
    """the same quantity in float64 through the whitened least-squares (QR) form"""
    w = 1 / err; sl = 1 / np.sqrt(Lam)
    Aaug = np.vstack([M * w[:, None], np.diag(sl)])
    baug = np.concatenate([rv * w, np.zeros(len(Lam))])
    Q, R = np.linalg.qr(Aaug)
    res = baug - Q @ (Q.T @ baug)
    logdetB = 2 * np.log(err).sum() + np.log(Lam).sum() + 2 * np.log(np.abs(np.diag(R))).sum()
    return -0.5 * (res @ res + logdetB + len(rv) * np.log(2 * np.pi))


g = np.random.default_rng(3)
Pt, et, omt, M0t, Kt = 17.3, 0.2, 1.0, 2.0, 8.0
SIGV = [100.0, 0.5, 1e-2]          # km/s, km/s/d, km/s/d^2 : docs/examples/3-Polynomial-velocity-trend.ipynb
fails = []
for span, errv, n in [(3000, 0.02, 20), (6000, 0.05, 20)]:
    t = 55000 + np.sort(g.uniform(0, span, n))
    dt = t - t.min()
    rv = Kt * kepler_rv(t, Pt, et, omt, M0t, t.min()) + 12.0 + 2e-3 * dt - 3e-7 * dt**2 + g.normal(0, errv, n)
    err = np.full(n, errv)
    data = tj.RVData(Time(t, format="mjd", scale="tcb"), rv * u.km / u.s, err * u.km / u.s)
    with pm.Model():
        prior = tj.JokerPrior.default(
            P_min=2 * u.day, P_max=1000 * u.day, sigma_K0=30 * u.km / u.s, poly_trend=3,
            sigma_v=[SIGV[0] * u.km / u.s, SIGV[1] * u.km / u.s / u.day, SIGV[2] * u.km / u.s / u.day**2])
    # library: 30 draws from the prior + 30 samples close to the true orbit
    ps0 = prior.sample(size=30, rng=np.random.default_rng(2))
    N = 30
    sc = 300.0 / span
    lib = QTable()
    lib["P"] = np.r_[ps0["P"].to_value(u.day), Pt + g.normal(0, 2e-3 * sc, N)] * u.day
    lib["e"] = np.r_[ps0["e"].value, np.clip(et + g.normal(0, 5e-3, N), 0, 0.9)] * u.one
    lib["omega"] = np.r_[ps0["omega"].to_value(u.rad), omt + g.normal(0, 2e-2, N)] * u.rad
    lib["M0"] = np.r_[ps0["M0"].to_value(u.rad), M0t + g.normal(0, 2e-2, N)] * u.rad
    lib["s"] = np.zeros(2 * N) * u.km / u.s
    lib["ln_prior"] = np.zeros(2 * N) * u.one
    ps = tj.JokerSamples(lib)

    ll = tj.TheJoker(prior).marginal_ln_likelihood(data, ps)
    ll_mem = tj.TheJoker(prior).marginal_ln_likelihood(data, ps, in_memory=True)
    P = ps["P"].to_value(u.day); e = ps["e"].value; om = ps["omega"].to_value(u.rad); M0 = ps["M0"].to_value(u.rad)
    ref = np.empty(2 * N); st = np.empty(2 * N)
    for i in range(2 * N):
        M = design(t, t.min(), P[i], e[i], om[i], M0[i], 3)
        Lam = np.array([min(30 * (P[i] / 365.25) ** (-1 / 3) / math.sqrt(1 - e[i] ** 2), 500) ** 2] + [s**2 for s in SIGV])
        ref[i] = exact_ll(M, rv, err, Lam); st[i] = stable_ll(M, rv, err, Lam)
    top = np.argsort(ref)[::-1][:6]
    print(f"\nbaseline {span} d, {n} epochs, rv_err {errv*1e3:.0f} m/s, tutorial-3 trend prior (poly_trend=3)")
    print(f"  prior draws : exact ln L in [{ref[:N].min():.0f}, {ref[:N].max():.0f}]; "
          f"max |kernel - exact| = {np.abs(ll - ref)[:N].max():.3g}   (float64 QR form: {np.abs(st - ref)[:N].max():.2g})")
    print(f"  6 best rows : exact ln L - max = {np.round(ref[top] - ref.max(), 2)}")
    print(f"                kernel - exact   = {np.round((ll - ref)[top], 4)}   (float64 QR form: max {np.abs(st - ref)[top].max():.2g})")
    p_exact = np.exp(ref[top] - ref.max()); p_kern = np.exp(ll[top] - ll.max())
    print(f"                acceptance prob. exact  {np.round(p_exact, 4)}")
    print(f"                acceptance prob. kernel {np.round(p_kern, 4)}")
    print(f"  cache path == in-memory path: {np.array_equal(ll, ll_mem)}")
    # what rejection_sample hands back
    s = tj.TheJoker(prior, rng=np.random.default_rng(1)).rejection_sample(data, ps, return_logprobs=True)
    j = [int(np.argmin(np.abs(P - p))) for p in s["P"].to_value(u.day)]
    d_ret = np.abs(s["ln_likelihood"].value - ref[j]).max()
    print(f"  rejection_sample: {len(s)} rows, max |returned ln_likelihood - exact| = {d_ret:.3g}")
    if np.abs(ll - ref)[top].max() > 1e-3 and np.abs(st - ref).max() < 1e-6:
        fails.append(f"C06/C02: span {span} d, err {errv}: ln-likelihood of the best rows wrong by "
                     f"{np.abs(ll - ref)[top].max():.3g} (prior draws: {np.abs(ll - ref)[:N].max():.3g}); "
                     f"a stable float64 evaluation is good to {np.abs(st - ref).max():.1g}")

print()
if fails:
    print("VIOLATIONS:")
    for f in fails:
        print("  -", f)
    sys.exit(1)
print("no violation")
