"""f8: for eccentricities above ~0.993 the Kepler solver used by the kernel (Newton iteration,
E0 = M + e sin M, unwrapped M, 128 iterations) diverges for a fraction of the epochs; the row's
ln-likelihood is then garbage (off by tens to hundreds, in either direction).

Reference: the same closed-form marginal likelihood with Kepler's equation solved by bisection.

Run:  cd /tmp/wt/H2 && PYTHONPATH=/tmp/wt/H2 /venv/bin/python -W ignore findings/f8/demo.py
"""
import sys
import numpy as np, astropy.units as u
from astropy.time import Time
import pymc as pm
import thejoker as tj, thejoker.units as xu


def ecc_anomaly_bisect(M, e):
    """robust vectorised solution of E - e sin E = M (M wrapped to [0, 2pi))"""
    M = np.mod(M, 2 * np.pi)
    lo = np.zeros_like(M); hi = np.full_like(M, 2 * np.pi)
    for _ in range(70):
        mid = 0.5 * (lo + hi)
        f = mid - e * np.sin(mid) - M
        lo = np.where(f < 0, mid, lo); hi = np.where(f < 0, hi, mid)
    return 0.5 * (lo + hi)


def marg_ll_all(t, rv, err, t0, P, e, om, M0, sigma_K0, P0, sigma_v, max_K=500.0):
    """closed-form ln N(rv | 0, C + M Lam M^T) for every row (vectorised over rows)"""
    M = 2 * np.pi * (t[None, :] - t0) / P[:, None] - M0[:, None]
    E = ecc_anomaly_bisect(M, e[:, None])
    resid = np.abs(E - e[:, None] * np.sin(E) - np.mod(M, 2 * np.pi)).max()
    f = 2 * np.arctan2(np.sqrt(1 + e[:, None]) * np.sin(E / 2), np.sqrt(1 - e[:, None]) * np.cos(E / 2))
    z = np.cos(om[:, None] + f) + e[:, None] * np.cos(om[:, None])
    sK2 = np.minimum(sigma_K0 * (P / P0) ** (-1 / 3) / np.sqrt(1 - e**2), max_K) ** 2
    B = (np.diag(err**2)[None] + sK2[:, None, None] * z[:, :, None] * z[:, None, :] + sigma_v**2)
    sol = np.linalg.solve(B, np.broadcast_to(rv, z.shape)[..., None])[..., 0]
    chi2 = (sol * rv).sum(axis=1)
    logdet = np.linalg.slogdet(2 * np.pi * B)[1]
    return -0.5 * (chi2 + logdet), resid


g = np.random.default_rng(1)
n = 15
t = 58000 + np.sort(g.uniform(0, 300, n))
rv = g.normal(0, 5, n); err = g.uniform(0.3, 1, n)
data = tj.RVData(Time(t, format="mjd", scale="tcb"), rv * u.km / u.s, err * u.km / u.s)

# a prior that is flat in eccentricity (customising e is what tutorial 2 shows for P and K)
with pm.Model():
    e_ = xu.with_unit(pm.Uniform("e", 0, 1), u.one)
    prior = tj.JokerPrior.default(P_min=2 * u.day, P_max=100 * u.day, sigma_K0=30 * u.km / u.s,
                                  sigma_v=100 * u.km / u.s, pars={"e": e_})
N = 150_000
lib = prior.sample(size=N, rng=np.random.default_rng(7), return_logprobs=True)
P = lib["P"].to_value(u.day); e = lib["e"].value; om = lib["omega"].to_value(u.rad); M0 = lib["M0"].to_value(u.rad)

ll = tj.TheJoker(prior).marginal_ln_likelihood(data, lib, in_memory=True)
ref, resid = marg_ll_all(t, rv, err, t.min(), P, e, om, M0, 30.0, 365.25, 100.0)
d = ll - ref
bad = np.abs(d) > 1e-5
print(f"library: {N} draws from a prior flat in e; Kepler residual of the reference solver {resid:.1e}")
print(f"rows with e < 0.99 : {np.sum(e < 0.99)}, max |kernel - reference| = {np.abs(d[e < 0.99]).max():.2e}")
for lo, hi in [(0.99, 0.993), (0.993, 0.999), (0.999, 1.0)]:
    m = (e >= lo) & (e < hi)
    print(f"rows with {lo} <= e < {hi}: {m.sum():5d}, wrong by > 1e-5: {np.sum(bad & m):4d}, "
          f"largest error {np.abs(d[m]).max():.3g}")
print(f"all wrong rows have e >= {e[bad].min():.5f}")
i = np.argmax(d)
print(f"largest over-estimate : row {i} (e={e[i]:.6f}) kernel {ll[i]:.2f}, reference {ref[i]:.2f}")
i = np.argmin(d)
print(f"largest under-estimate: row {i} (e={e[i]:.6f}) kernel {ll[i]:.2f}, reference {ref[i]:.2f}")
print(f"maximum of the library: kernel {ll.max():.3f} (row {ll.argmax()}), reference {ref.max():.3f} (row {ref.argmax()})")

# effect on the sampler: expected number of survivors sum_i L_i / L_max
print(f"expected number of accepted rows: reference {np.exp(ref - ref.max()).sum():.2f}, kernel {np.exp(ll - ll.max()).sum():.2f}")
s = tj.TheJoker(prior, rng=np.random.default_rng(3)).rejection_sample(data, lib, in_memory=True, return_logprobs=True)
j = [int(np.argmin(np.abs(P - p))) for p in s["P"].to_value(u.day)]
print(f"rejection_sample: {len(s)} rows; max |returned ln_likelihood - reference| = {np.abs(s['ln_likelihood'].value - ref[j]).max():.3g}")

fails = []
if bad.any():
    fails.append(f"C06/C05: {bad.sum()} rows (all with e >= {e[bad].min():.4f}) carry a ln-likelihood that is not the "
                 f"marginal likelihood of their parameters (errors up to {np.abs(d).max():.3g})")
if ll.argmax() != ref.argmax() or abs(np.exp(ll - ll.max()).sum() / np.exp(ref - ref.max()).sum() - 1) > 1e-3:
    fails.append("C02: L_max / the survival probabilities of the whole library are changed by the garbage rows")
print()
if fails:
    print("VIOLATIONS:")
    for f in fails:
        print("  -", f)
    sys.exit(1)
print("no violation")
