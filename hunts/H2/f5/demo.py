"""f5: batch_tasks(n_tasks, n_batches, arr=..., start_idx>0) does not cover the supplied array:
start_idx is used both as the label of the first task and as an offset into arr.

Run:  cd /tmp/wt/H2 && PYTHONPATH=/tmp/wt/H2 /venv/bin/python -W ignore findings/f5/demo.py
"""
import sys
import numpy as np
from thejoker.utils import batch_tasks

bad = []
total = 0
for n_tasks in range(1, 21):
    for n_batches in range(1, 26):
        for start in (0, 1, 3, 7):
            arr = np.arange(100, 100 + n_tasks)          # exactly the n_tasks elements to distribute
            tasks = batch_tasks(n_tasks, n_batches, arr=arr, start_idx=start, args=("x",))
            total += 1
            chunks = [tk[0] for tk in tasks]
            ids = [tk[1] for tk in tasks]
            cat = np.concatenate(chunks)
            # expectation (C16): non-empty contiguous chunks, concatenation == arr, in order,
            # each task labelled with its own start index (start_idx + offset of the chunk)
            exp_ids = list(start + np.cumsum([0] + [len(c) for c in chunks[:-1]]))
            ok = (all(len(c) > 0 for c in chunks) and np.array_equal(cat, arr) and ids == exp_ids)
            if not ok:
                bad.append((n_tasks, n_batches, start, [c.tolist() for c in chunks], ids))

            # the index-range form is fine for every start_idx
            tasks = batch_tasks(n_tasks, n_batches, start_idx=start)
            prev = start
            for (i1, i2), sid in [(tk[0], tk[1]) for tk in tasks]:
                assert i1 == prev and i2 > i1 and sid == i1
                prev = i2
            assert prev == start + n_tasks

print(f"{len(bad)} of {total} (n_tasks, n_batches, start_idx) combinations with an explicit array violate C16;"
      f" all of them have start_idx > 0: {all(b[2] > 0 for b in bad)}")
for b in bad[:6]:
    print("  n_tasks=%d n_batches=%d start_idx=%d -> chunks %s, task ids %s" % b)
print("example: batch_tasks(5, 2, arr=[100..104], start_idx=3) ->",
      [(tk[0].tolist(), tk[1]) for tk in batch_tasks(5, 2, arr=np.arange(100, 105), start_idx=3)])
print("         index form batch_tasks(5, 2, start_idx=3)      ->",
      [(tk[0], tk[1]) for tk in batch_tasks(5, 2, start_idx=3)])
if bad:
    sys.exit(1)
print("no violation")
