"""f7: iterative_rejection_sample grows its batches 4x faster through the cache than in memory
(safety_factor 4 vs 1), so for equal seeds the two execution paths evaluate different numbers of
prior samples and return different accepted sets.

Run:  cd /tmp/wt/H2 && PYTHONPATH=/tmp/wt/H2 /venv/bin/python -W ignore findings/f7/demo.py
"""
import sys
import numpy as np, astropy.units as u
from astropy.time import Time
import pymc as pm
import thejoker as tj

g = np.random.default_rng(1)
n = 5
t = 58000 + np.sort(g.uniform(0, 300, n))
data = tj.RVData(Time(t, format="mjd", scale="tcb"), g.normal(0, 3, n) * u.km / u.s,
                 g.uniform(1, 2, n) * u.km / u.s)
with pm.Model():
    prior = tj.JokerPrior.default(P_min=2 * u.day, P_max=100 * u.day,
                                  sigma_K0=30 * u.km / u.s, sigma_v=100 * u.km / u.s)
N = 3000
lib = prior.sample(size=N, rng=np.random.default_rng(2), return_logprobs=True)
Plib = lib["P"].to_value(u.day)


class CountingRng(np.random.Generator):
    """records the sizes of the uniform draws = number of prior samples evaluated so far"""
    def __init__(self, seed):
        super().__init__(np.random.PCG64(seed)); self.sizes = []

    def uniform(self, *a, **k):
        out = super().uniform(*a, **k); self.sizes.append(np.size(out)); return out


fails = []
for seed in range(4):
    res = {}
    for in_memory in (False, True):
        rng = CountingRng(seed)
        s = tj.TheJoker(prior, rng=rng).iterative_rejection_sample(
            data, lib, n_requested_samples=24, init_batch_size=50, in_memory=in_memory)
        rows = [int(np.argmin(np.abs(Plib - p))) for p in s["P"].to_value(u.day)]
        res[in_memory] = (rng.sizes, rows)
        print(f"seed {seed} in_memory={in_memory!s:5}: cumulative evaluations per iteration {rng.sizes}; "
              f"{len(rows)} rows, first accepted rows {rows[:6]}")
    if res[False][1] != res[True][1]:
        fails.append(f"seed {seed}: accepted set differs between the cache and the in-memory path "
                     f"(evaluated {res[False][0][-1]} vs {res[True][0][-1]} prior samples)")
    # control: one-iteration runs are identical
    a = tj.TheJoker(prior, rng=np.random.default_rng(seed)).iterative_rejection_sample(
        data, lib, n_requested_samples=2, init_batch_size=500, in_memory=False)
    b = tj.TheJoker(prior, rng=np.random.default_rng(seed)).iterative_rejection_sample(
        data, lib, n_requested_samples=2, init_batch_size=500, in_memory=True)
    assert np.array_equal(a["P"].value, b["P"].value), "control (single iteration) differs"

print()
if fails:
    print("VIOLATIONS (C05, equal seeds -> identical accepted set on every path):")
    for f in fails:
        print("  -", f)
    sys.exit(1)
print("no violation")
