"""f3: the marginal ln-likelihood is reported as +inf when the (unneeded) inversion of
Ainv = Lambda^-1 + M^T C^-1 M hits a zero pivot: fewer epochs than weakly-constrained linear
parameters (e.g. 2 epochs, poly_trend=3, broad trend priors).  The true value is finite; with
+inf in the batch no sample at all survives the rejection step.

Run:  cd /tmp/wt/H2 && PYTHONPATH=/tmp/wt/H2 /venv/bin/python -W ignore findings/f3/demo.py
"""
import sys, math
from fractions import Fraction as Fr
import numpy as np, astropy.units as u
from astropy.time import Time
import pymc as pm
import thejoker as tj


def kepler_rv(t, P, e, om, M0, t0):
    M = 2 * np.pi * (t - t0) / P - M0
    E = M + e * np.sin(M)
    for _ in range(200):
        dM = M - (E - e * np.sin(E))
        E = E + dM / (1 - e * np.cos(E))
        if np.all(np.abs(dM) < 1e-14):
            break
    f = 2 * np.arctan2(np.sqrt(1 + e) * np.sin(E / 2), np.sqrt(1 - e) * np.cos(E / 2))
    return np.cos(om + f) + e * np.cos(om)


def exact_marg_ll(t, rv, err, t0, P, e, om, M0, Lam, poly):
    """ln N(rv | 0, C + M Lam M^T) in exact rational arithmetic (prior means are 0)."""
    orb = kepler_rv(t, P, e, om, M0, t0)
    nt = len(t)
    M = [[Fr(float(orb[n]))] + [(Fr(float(t[n])) - Fr(float(t0))) ** i for i in range(poly)] for n in range(nt)]
    L = [Fr(float(x)) for x in Lam]
    B = [[sum(M[n][k] * L[k] * M[m][k] for k in range(1 + poly)) for m in range(nt)] for n in range(nt)]
    for n in range(nt):
        B[n][n] += Fr(float(err[n])) ** 2
    r = [Fr(float(x)) for x in rv]
    A = [row[:] + [r[i]] for i, row in enumerate(B)]
    det = Fr(1)
    for i in range(nt):
        p = A[i][i]; det *= p
        for j in range(i + 1, nt):
            f = A[j][i] / p
            A[j] = [a - f * b for a, b in zip(A[j], A[i])]
    x = [Fr(0)] * nt
    for i in reversed(range(nt)):
        x[i] = (A[i][nt] - sum(A[i][j] * x[j] for j in range(i + 1, nt))) / A[i][i]
    chi2 = sum(a * b for a, b in zip(r, x))
    logdet = math.log(det.numerator) - math.log(det.denominator) + nt * math.log(2 * math.pi)
    return -0.5 * (float(chi2) + logdet)


g = np.random.default_rng(1)
n, poly, sig = 2, 3, 1e6
t = 58000 + np.sort(g.uniform(0, 300, n))
rv = g.normal(0, 5, n)
err = g.uniform(0.3, 1, n)
data = tj.RVData(Time(t, format="mjd", scale="tcb"), rv * u.km / u.s, err * u.km / u.s)
with pm.Model():
    prior = tj.JokerPrior.default(
        P_min=2 * u.day, P_max=100 * u.day, sigma_K0=30 * u.km / u.s, poly_trend=poly,
        sigma_v=[sig * u.km / u.s, sig * u.km / u.s / u.day, sig * u.km / u.s / u.day**2])
lib = prior.sample(size=200, rng=np.random.default_rng(2), return_logprobs=True)

ll = tj.TheJoker(prior).marginal_ln_likelihood(data, lib)
ll_mem = tj.TheJoker(prior).marginal_ln_likelihood(data, lib, in_memory=True)
P = lib["P"].to_value(u.day); e = lib["e"].value; om = lib["omega"].to_value(u.rad); M0 = lib["M0"].to_value(u.rad)
ref = np.array([
    exact_marg_ll(t, rv, err, t.min(), P[i], e[i], om[i], M0[i],
                  [min(30 * (P[i] / 365.25) ** (-1 / 3) / math.sqrt(1 - e[i] ** 2), 500) ** 2, sig**2, sig**2, sig**2], poly)
    for i in range(len(lib))])

npos = int(np.sum(ll == np.inf))
fin = np.isfinite(ll)
print(f"{n} epochs, poly_trend={poly}, sigma_v={sig:g}: {npos} of {len(ll)} ln-likelihoods are +inf "
      f"(in_memory: {int(np.sum(ll_mem == np.inf))})")
print(f"exact rational reference: all finite, range [{ref.min():.6f}, {ref.max():.6f}]")
if fin.any():
    print(f"rows where the kernel is finite agree with the reference: max diff {np.abs(ll[fin] - ref[fin]).max():.2e}")
print("first rows  kernel:", ll[:6])
print("            exact :", ref[:6])

fails = []
if npos:
    fails.append("C05/C06: marginal ln-likelihood is +inf for samples whose marginal likelihood is finite")

for in_memory in (False, True):
    try:
        s = tj.TheJoker(prior, rng=np.random.default_rng(3)).rejection_sample(
            data, lib, in_memory=in_memory, return_logprobs=True)
        got = len(s)
        print(f"rejection_sample(in_memory={in_memory}): {got} rows, ln_likelihood = {s['ln_likelihood'][:3]}")
        if got == 0 or not np.all(np.isfinite(s["ln_likelihood"].value)):
            fails.append("C02/C06: no finite sample returned")
    except Exception as ex:  # noqa
        print(f"rejection_sample(in_memory={in_memory}) raises {type(ex).__name__}: {ex}")
        # expected by C02: every row survives with prob L_i/L_max; the acceptance
        # probabilities from the exact likelihoods:
        p = np.exp(ref - ref.max())
        print(f"   (exact acceptance probabilities are all in [{p.min():.4f}, 1]: ~{p.sum():.0f} of {len(p)} rows should survive)")
        fails.append(f"C02: no sample survives / call dies although the best sample must always survive (in_memory={in_memory})")

print()
if fails:
    print("VIOLATIONS:")
    for f in dict.fromkeys(fails):
        print("  -", f)
    sys.exit(1)
print("no violation")
