"""f1: a float32 prior-sample library whose columns need a unit conversion is read
with different rounding by the three read paths (slice read / index read / in-memory pack).

Run:  cd /tmp/wt/H2 && PYTHONPATH=/tmp/wt/H2 /venv/bin/python -W ignore findings/f1/demo.py
Exits 1 when the violation is present.
"""
import sys
import numpy as np, astropy.units as u
from astropy.time import Time
import pymc as pm
import thejoker as tj


# ---------------------------------------------------------------- closed form
def kepler_rv(t, P, e, om, M0, t0):
    M = 2 * np.pi * (t - t0) / P - M0
    E = M + e * np.sin(M)
    for _ in range(200):
        dM = M - (E - e * np.sin(E))
        E = E + dM / (1 - e * np.cos(E))
        if np.all(np.abs(dM) < 1e-13):
            break
    f = 2 * np.arctan2(np.sqrt(1 + e) * np.sin(E / 2), np.sqrt(1 - e) * np.cos(E / 2))
    return np.cos(om + f) + e * np.cos(om)


def marg_ll(t, rv, err, t0, P, e, om, M0, s, sigma_K0, P0, sigma_v0, max_K=500.0):
    M = np.stack([kepler_rv(t, P, e, om, M0, t0), np.ones_like(t)], axis=1)
    sK = min(sigma_K0 * (P / P0) ** (-1 / 3) / np.sqrt(1 - e**2), max_K)
    B = np.diag(err**2 + s**2) + M @ np.diag([sK**2, sigma_v0**2]) @ M.T
    return -0.5 * (rv @ np.linalg.solve(B, rv) + np.linalg.slogdet(2 * np.pi * B)[1])


# ---------------------------------------------------------------- set-up
g = np.random.default_rng(11)
n = 4
t = 55000.0 + np.sort(g.uniform(0, 4000, n))
rv = g.normal(0, 5, n)
err = np.full(n, 0.3)
data = tj.RVData(Time(t, format="mjd", scale="tcb"), rv * u.km / u.s, err * u.km / u.s)

with pm.Model():
    prior = tj.JokerPrior.default(P_min=0.005 * u.yr, P_max=0.05 * u.yr,
                                  sigma_K0=30 * u.km / u.s, sigma_v=100 * u.km / u.s)

N = 3000
lib32 = prior.sample(size=N, rng=np.random.default_rng(5), return_logprobs=True, dtype=np.float32)
assert lib32["P"].dtype == np.float32 and lib32["P"].unit == u.yr


def closed_form(P_day, e, om, M0, s):
    return np.array([marg_ll(t, rv, err, t.min(), P_day[i], e[i], om[i], M0[i], s[i], 30.0, 365.25, 100.0)
                     for i in range(len(P_day))])


def lib_values(lib):
    """the library values, converted to the internal units in double precision"""
    return (lib["P"].value.astype("f8") * 365.25, lib["e"].value.astype("f8"),
            lib["omega"].value.astype("f8"), lib["M0"].value.astype("f8"),
            lib["s"].value.astype("f8"))


def audit(lib, label):
    fails = []
    ref = closed_form(*lib_values(lib))

    # (1) C05: marginal_ln_likelihood, cache path vs in-memory vs closed form
    ll_file = tj.TheJoker(prior).marginal_ln_likelihood(data, lib)
    ll_mem = tj.TheJoker(prior).marginal_ln_likelihood(data, lib, in_memory=True)
    d_file = np.abs(ll_file - ref).max()
    d_mem = np.abs(ll_mem - ref).max()
    print(f"[{label}] marginal_ln_likelihood: max|cache - closed form| = {d_file:.3g},"
          f"  max|in_memory - closed form| = {d_mem:.3g}")
    if d_file > 1e-6 or d_mem > 1e-6:
        fails.append("C05/C06: ln-likelihood of a library row differs from the closed form at that row's values")

    # (2) C05: the same library rows, evaluated by rejection_sample with and without
    #     randomize_prior_order (index read vs slice read).  Rows are identified by e.
    out = {}
    for rand in (False, True):
        s, lls = tj.TheJoker(prior, rng=np.random.default_rng(1)).rejection_sample(
            data, lib, return_logprobs=True, return_all_logprobs=True, randomize_prior_order=rand)
        out[rand] = (s, np.sort(lls))
    d_all = np.abs(out[True][1] - out[False][1]).max()
    print(f"[{label}] all ln-likelihoods of the library (sorted), randomize_prior_order True vs False:"
          f" max diff = {d_all:.3g}")
    if d_all > 1e-6:
        fails.append("C05: the same library evaluated through index reads and slice reads gives different ln-likelihoods")

    # (3) C06 / C02: returned rows of a plain rejection_sample on the cache path
    for inmem in (False, True):
        s = tj.TheJoker(prior, rng=np.random.default_rng(1)).rejection_sample(
            data, lib, return_logprobs=True, in_memory=inmem)
        P = s["P"].to_value(u.day); e = s["e"].value; om = s["omega"].to_value(u.rad)
        M0 = s["M0"].to_value(u.rad); sj = s["s"].to_value(u.km / u.s)
        ll_rows = closed_form(P, e, om, M0, sj)
        d = np.abs(s["ln_likelihood"].value - ll_rows).max()
        # is the returned P the value of a library row?
        Plib = lib_values(lib)[0]
        j = np.array([np.argmin(np.abs(Plib - p)) for p in P])
        dP = np.abs(P - Plib[j]).max()
        print(f"[{label}] rejection_sample(in_memory={inmem}): {len(s)} rows; "
              f"max|returned ln_likelihood - closed form at the returned row| = {d:.3g}; "
              f"max|returned P - library P| = {dP:.3g} d")
        if d > 1e-6:
            fails.append(f"C06: returned ln_likelihood is not the ln-likelihood of the returned row (in_memory={inmem})")
        if dP > 0:
            fails.append(f"C02: returned P is not the value of a library row (in_memory={inmem})")
    return fails


# control: the same library in double precision
from astropy.table import QTable
tbl64 = QTable({k: lib32[k].astype("f8") for k in lib32.par_names})
lib64 = tj.JokerSamples(tbl64)

f64 = audit(lib64, "float64 control")
f32 = audit(lib32, "float32 library")

# variant: only P is float32 (already in days), every other column float64, no unit conversion
# needed at all -> the slice read allocates the whole batch with the dtype of the first column (P)
libd = prior.sample(size=N, rng=np.random.default_rng(6), return_logprobs=True)   # genuine float64 draws
tblmix = QTable({k: libd[k] for k in libd.par_names})
tblmix["P"] = (libd["P"].to(u.day)).astype("f4")
libmix = tj.JokerSamples(tblmix)
a = tj.TheJoker(prior).marginal_ln_likelihood(data, libmix)
b = tj.TheJoker(prior).marginal_ln_likelihood(data, libmix, in_memory=True)
Pm, em, omm, M0m, sm = (libmix["P"].value.astype("f8"), libmix["e"].value, libmix["omega"].value,
                        libmix["M0"].value, libmix["s"].value)
refmix = closed_form(Pm, em, omm, M0m, sm)
print(f"[P float32, rest float64] marginal_ln_likelihood: max|cache - in_memory| = {np.abs(a - b).max():.3g}, "
      f"max|cache - closed form| = {np.abs(a - refmix).max():.3g}, max|in_memory - closed form| = {np.abs(b - refmix).max():.3g}")
if np.abs(a - b).max() > 1e-7:
    f32.append("C05: cache path and in-memory path give different ln-likelihoods for the same library "
               "(P float32, other columns float64: the slice read truncates e, omega, M0 to float32)")
print()
if f64:
    print("control failed (unexpected):", f64)
if f32:
    print("VIOLATIONS with the float32 library:")
    for x in dict.fromkeys(f32):
        print("  -", x)
    sys.exit(1)
print("no violation")
