#!/usr/bin/env python3
"""Hand patch of the generated C mirroring `fix: the posterior-draw path applies the max_K cap ...`:
pyx line 522 (a blank line before) now reads `self.Lambda[0] = min(self.max_K**2, self.Lambda[0])` inside the
`if self.fixed_K_prior == 0:` block of batch_get_posterior_samples - the statement the marginal path has at line 464.

usage: make_nocap_c_patch.py <previous fast_likelihood.c> <new fast_likelihood.pyx> <output .c>"""
import sys
from cpatch_util import HDR, function_region, regen_comments

src_c, src_pyx, out_c = sys.argv[1:4]
c = open(src_c, errors="replace").read()
pyx = open(src_pyx).read().split("\n")
assert pyx[521].strip() == "self.Lambda[0] = min(self.max_K**2, self.Lambda[0])", pyx[521]

start, end = function_region(c, "static PyObject *__pyx_f_8thejoker_3src_15fast_likelihood_12CJokerHelper_batch_get_posterior_samples(", 547)
fn = c[start:end]
# the assignment of line 520 ends with "... Lambda.data) + __pyx_t_N)) )) = __pyx_t_M;" - the new statement goes right after it
marker = "      " + HDR + "520\n"
k = fn.rindex(marker)                      # the block that performs the store
store_end = fn.index(";\n", fn.index("__pyx_v_self->Lambda.data) + ", k)) + 2
NEW = '''
      /* "thejoker/src/fast_likelihood.pyx":522
*/
      {
        /* min(a, b) returns b only when b < a */
        double __verif_cap = pow(__pyx_v_self->max_K, 2.0);
        double *__verif_l0 = ((double *) __pyx_v_self->Lambda.data);
        __verif_l0[0] = ((__verif_l0[0] < __verif_cap) ? __verif_l0[0] : __verif_cap);
      }
'''
fn = fn[:store_end] + NEW + fn[store_end:]
whole = c[:start] + fn + c[end:]
whole = regen_comments(whole, pyx, 517, 527)
open(out_c, "w").write(whole)
print("written", out_c)
