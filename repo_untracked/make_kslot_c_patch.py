#!/usr/bin/env python3
"""Hand patch of the generated C mirroring `fix: a custom Normal K prior keeps slot 0 ...`:
pyx line 245 `elif name == 'v0':` becomes `elif name == 'K' or name == 'v0':` (a custom K prior is stored in its own slot like v0,
instead of falling into the trend branch that shifts the slot by n_offsets).

usage: make_kslot_c_patch.py <previous fast_likelihood.c> <new fast_likelihood.pyx> <output .c>"""
import sys
from cpatch_util import regen_comments

src_c, src_pyx, out_c = sys.argv[1:4]
c = open(src_c, errors="replace").read()
pyx = open(src_pyx).read().split("\n")
assert pyx[244].strip() == "elif name == 'K' or name == 'v0':", pyx[244]
old = ("    __pyx_t_17 = __Pyx_PyObject_CompareBoolEq_object_str(__pyx_v_name, __pyx_mstate_global->__pyx_n_u_v0, Py_EQ); "
       "if (unlikely((__pyx_t_17 < 0))) __PYX_ERR(0, 245, __pyx_L1_error)\n")
assert c.count(old) == 1, c.count(old)
new = ("    __pyx_t_17 = __Pyx_PyObject_CompareBoolEq_object_str(__pyx_v_name, __pyx_mstate_global->__pyx_n_u_K, Py_EQ); "
       "if (unlikely((__pyx_t_17 < 0))) __PYX_ERR(0, 245, __pyx_L1_error)\n"
       "    if (!__pyx_t_17) {\n"
       "      __pyx_t_17 = __Pyx_PyObject_CompareBoolEq_object_str(__pyx_v_name, __pyx_mstate_global->__pyx_n_u_v0, Py_EQ); "
       "if (unlikely((__pyx_t_17 < 0))) __PYX_ERR(0, 245, __pyx_L1_error)\n"
       "    }\n")
c = c.replace(old, new)
c = regen_comments(c, pyx, 242, 248)
open(out_c, "w").write(c)
print("written", out_c)
