#!/usr/bin/env python3
"""Hand patch of the GENERATED fast_likelihood.c that mirrors the `fix:` commit replacing the Woodbury form of Binv by the inverse
from the LU factors of B (Cython is not available in the sandbox, so the .c cannot be regenerated).

usage: make_woodbury_c_patch.py <jitter-patched fast_likelihood.c> <new fast_likelihood.pyx> <output .c>

What it does inside the C function of CJokerHelper.make_bBBinv only:
  1. declares `int __pyx_v_lwork;`
  2. removes the C blocks generated for old pyx lines 332-339 (the Woodbury loops)
  3. renumbers the blocks of the statements that moved up by 14 lines (old 345..353 -> 331..339)
  4. inserts hand-written C for the new statements (pyx lines 347-355): lwork = n_times; dgetri on Btmp; INF on failure; copy Btmp into Binv
  5. regenerates the quoted source comments of every block of the function from the new .pyx, so that harness/kernel.py's freshness
     gate (quoted lines == current .pyx lines) can vouch for the result.
The result is then compared against the shim rendering of the .pyx on a fixed problem (harness.kernel.cross_check)."""
import re
import sys

src_c, src_pyx, out_c = sys.argv[1:4]
c = open(src_c, errors="replace").read()
pyx = open(src_pyx).read().split("\n")


def pl(n):
    return pyx[n - 1] if 1 <= n <= len(pyx) else ""


HDR = '/* "thejoker/src/fast_likelihood.pyx":'
start = c.index("static double __pyx_f_8thejoker_3src_15fast_likelihood_12CJokerHelper_make_bBBinv("
                "struct __pyx_obj_8thejoker_3src_15fast_likelihood_CJokerHelper *__pyx_v_self) {")
end = c.index(HDR + "359\n", start)
fn = c[start:end]

# 1. declaration
assert "  int __pyx_v_m;\n" in fn
fn = fn.replace("  int __pyx_v_m;\n", "  int __pyx_v_m;\n  int __pyx_v_lwork;\n", 1)

# 2. remove the Woodbury blocks: from the first block of line 332 up to the first block of line 345
a = fn.index("  " + HDR + "332\n")
b = fn.index("  " + HDR + "345\n", a)
fn = fn[:a] + fn[b:]

# 3. renumber the moved statements
for old in (345, 346, 347, 348, 351, 352, 353):
    new = old - 14
    fn = fn.replace(HDR + "%d\n" % old, HDR + "%d\n" % new)
    fn = re.sub(r"__Pyx_TraceLine\(%d," % old, "__Pyx_TraceLine(%d," % new, fn)
    fn = re.sub(r"__PYX_ERR\(0, %d," % old, "__PYX_ERR(0, %d," % new, fn)

# 4. hand-written C for the new statements, inserted in front of the block of `return log_det_val` (line 357)
NEW = '''
  /* "thejoker/src/fast_likelihood.pyx":347
*/
  __pyx_v_lwork = __pyx_v_self->n_times;

  /* "thejoker/src/fast_likelihood.pyx":348
*/
  if (unlikely(!__pyx_v_self->Btmp.memview)) {PyErr_SetString(PyExc_AttributeError,"Memoryview is not initialized");__PYX_ERR(0, 348, __pyx_L1_error)}
  if (unlikely(!__pyx_v_self->ntime_ipiv.memview)) {PyErr_SetString(PyExc_AttributeError,"Memoryview is not initialized");__PYX_ERR(0, 349, __pyx_L1_error)}
  if (unlikely(!__pyx_v_self->ntime_work.memview)) {PyErr_SetString(PyExc_AttributeError,"Memoryview is not initialized");__PYX_ERR(0, 349, __pyx_L1_error)}
  if (unlikely(__pyx_v_self->Btmp.shape[0] < 1 || __pyx_v_self->Btmp.shape[1] < 1)) { __Pyx_RaiseBufferIndexError(0); __PYX_ERR(0, 348, __pyx_L1_error) }
  if (unlikely(__pyx_v_self->ntime_ipiv.shape[0] < 1)) { __Pyx_RaiseBufferIndexError(0); __PYX_ERR(0, 349, __pyx_L1_error) }
  if (unlikely(__pyx_v_self->ntime_work.shape[0] < 1)) { __Pyx_RaiseBufferIndexError(0); __PYX_ERR(0, 349, __pyx_L1_error) }
  __pyx_f_5scipy_6linalg_13cython_lapack_dgetri((&__pyx_v_self->n_times), ((double *) __pyx_v_self->Btmp.data), (&__pyx_v_self->n_times), ((int *) __pyx_v_self->ntime_ipiv.data), ((double *) __pyx_v_self->ntime_work.data), (&__pyx_v_lwork), (&__pyx_v_info));

  /* "thejoker/src/fast_likelihood.pyx":350
*/
  if ((__pyx_v_info != 0)) {

    /* "thejoker/src/fast_likelihood.pyx":351
*/
    __pyx_r = __pyx_v_8thejoker_3src_15fast_likelihood_INF;
    goto __pyx_L0;
  }

  /* "thejoker/src/fast_likelihood.pyx":353
*/
  for (__pyx_v_n = 0; __pyx_v_n < __pyx_v_self->n_times; __pyx_v_n+=1) {

    /* "thejoker/src/fast_likelihood.pyx":354
*/
    for (__pyx_v_m = 0; __pyx_v_m < __pyx_v_self->n_times; __pyx_v_m+=1) {

      /* "thejoker/src/fast_likelihood.pyx":355
*/
      if (unlikely(!__pyx_v_self->Binv.memview)) {PyErr_SetString(PyExc_AttributeError,"Memoryview is not initialized");__PYX_ERR(0, 355, __pyx_L1_error)}
      if (unlikely(__pyx_v_n >= __pyx_v_self->Binv.shape[0] || __pyx_v_m >= __pyx_v_self->Binv.shape[1] || __pyx_v_n >= __pyx_v_self->Btmp.shape[0] || __pyx_v_m >= __pyx_v_self->Btmp.shape[1])) { __Pyx_RaiseBufferIndexError(0); __PYX_ERR(0, 355, __pyx_L1_error) }
      *((double *) ( /* dim=1 */ ((char *) (((double *) ( /* dim=0 */ (__pyx_v_self->Binv.data + __pyx_v_n * __pyx_v_self->Binv.strides[0]) )) + __pyx_v_m)) )) = (*((double *) ( /* dim=1 */ ((char *) (((double *) ( /* dim=0 */ (__pyx_v_self->Btmp.data + __pyx_v_n * __pyx_v_self->Btmp.strides[0]) )) + __pyx_v_m)) )));
    }
  }

'''
k = fn.index("  " + HDR + "357\n")
fn = fn[:k] + NEW.lstrip("\n") + "\n" + fn[k:]


# 5. regenerate the quoted source of every block in the function (two lines of context either side, as Cython prints them)
def regen(m):
    indent, n = m.group(1), int(m.group(2))
    lines = []
    for j in range(n - 2, n + 3):
        t = pl(j)
        if j == n:
            t = t + "             # <<<<<<<<<<<<<<"
        lines.append(" * " + t if t else " * ")
    return "%s%s%d\n%s\n*/" % (indent, HDR, n, "\n".join(lines))


def regen_near(m):
    n = int(m.group(2))
    return regen(m) if (297 <= n <= 305 or 326 <= n <= 361) else m.group(0)


whole = c[:start] + fn + c[end:]
whole = re.sub(r'( *)/\* "thejoker/src/fast_likelihood\.pyx":(\d+)\n(?: \*[^\n]*\n)*\*/', regen_near, whole)
open(out_c, "w").write(whole)
print("written", out_c)
