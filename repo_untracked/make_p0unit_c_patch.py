#!/usr/bin/env python3
"""Hand patch of the generated C mirroring `fix: P0 of the default K prior is converted to the unit the period reaches the kernel in`:
pyx lines 240-241
    self.P0 = dist._P0.to_value(getattr(prior.pars['P'],
                                        xu.UNIT_ATTR_NAME))
become
    # P0 in the unit the period reaches the kernel in (days)
    self.P0 = dist._P0.to_value(self.internal_units['P'])

usage: make_p0unit_c_patch.py <previous fast_likelihood.c> <new fast_likelihood.pyx> <output .c>"""
import sys
from cpatch_util import HDR, regen_comments

src_c, src_pyx, out_c = sys.argv[1:4]
c = open(src_c, errors="replace").read()
pyx = open(src_pyx).read().split("\n")
assert pyx[240].strip() == "self.P0 = dist._P0.to_value(self.internal_units['P'])", pyx[240]
a = c.index("      " + HDR + "240\n")
b = c.index("      " + HDR + "242\n", a)
G = "__pyx_mstate_global->"
NEW = '''      /* "thejoker/src/fast_likelihood.pyx":241
*/
      __pyx_t_15 = __Pyx_PyObject_GetAttrStr(__pyx_v_dist, %(G)s__pyx_n_u_P0); if (unlikely(!__pyx_t_15)) __PYX_ERR(0, 241, __pyx_L1_error)
      __Pyx_GOTREF(__pyx_t_15);
      if (unlikely(((PyObject *)__pyx_v_self) == Py_None)) {
        PyErr_Format(PyExc_AttributeError, "\\047NoneType\\047 object has no attribute \\047%%.30s\\047", "internal_units");
        __PYX_ERR(0, 241, __pyx_L1_error)
      }
      if (unlikely(__pyx_v_self->internal_units == Py_None)) {
        PyErr_SetString(PyExc_TypeError, "\\047NoneType\\047 object is not subscriptable");
        __PYX_ERR(0, 241, __pyx_L1_error)
      }
      __pyx_t_7 = PyObject_GetItem(__pyx_v_self->internal_units, %(G)s__pyx_n_u_P); if (unlikely(!__pyx_t_7)) __PYX_ERR(0, 241, __pyx_L1_error)
      __Pyx_GOTREF(__pyx_t_7);
      {
        PyObject *__pyx_callargs[2] = {__pyx_t_15, __pyx_t_7};
        __pyx_t_8 = __Pyx_PyObject_FastCallMethod((PyObject*)%(G)s__pyx_n_u_to_value, __pyx_callargs+0, (2-0) | (1*__Pyx_PY_VECTORCALL_ARGUMENTS_OFFSET));
        __Pyx_DECREF(__pyx_t_7); __pyx_t_7 = 0;
        __Pyx_DECREF(__pyx_t_15); __pyx_t_15 = 0;
        if (unlikely(!__pyx_t_8)) __PYX_ERR(0, 241, __pyx_L1_error)
        __Pyx_GOTREF(__pyx_t_8);
      }
      __pyx_t_11 = __Pyx_PyFloat_AsDouble(__pyx_t_8); if (unlikely((__pyx_t_11 == (double)-1) && PyErr_Occurred())) __PYX_ERR(0, 241, __pyx_L1_error)
      __Pyx_DECREF(__pyx_t_8); __pyx_t_8 = 0;
      __pyx_v_self->P0 = __pyx_t_11;

''' % {"G": G}
c = c[:a] + NEW + c[b:]
c = regen_comments(c, pyx, 237, 245)
open(out_c, "w").write(c)
print("written", out_c)
