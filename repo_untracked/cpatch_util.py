"""helpers for the hand patches of the generated fast_likelihood.c (Cython is not available in the sandbox)"""
import re

HDR = '/* "thejoker/src/fast_likelihood.pyx":'
_BLOCK = re.compile(r'( *)/\* "thejoker/src/fast_likelihood\.pyx":(\d+)\n(?: \*[^\n]*\n)*\*/')


def regen_comments(c_text, pyx_lines, lo, hi):
    """rewrite the quoted source (two lines of context either side, as Cython prints it) of every block whose marked line is in lo..hi"""
    def pl(n):
        return pyx_lines[n - 1] if 1 <= n <= len(pyx_lines) else ""

    def regen(m):
        indent, n = m.group(1), int(m.group(2))
        if not (lo <= n <= hi):
            return m.group(0)
        lines = []
        for j in range(n - 2, n + 3):
            t = pl(j)
            if j == n:
                t = t + "             # <<<<<<<<<<<<<<"
            lines.append(" * " + t if t else " * ")
        return "%s%s%d\n%s\n*/" % (indent, HDR, n, "\n".join(lines))
    return _BLOCK.sub(regen, c_text)


def function_region(c_text, signature_prefix, next_block_line):
    """(start, end) of a C function body: from its definition (a line starting with signature_prefix and ending in ') {') to the
    comment block of the pyx line where the next function starts"""
    start = None
    for m in re.finditer(re.escape(signature_prefix), c_text):
        eol = c_text.index("\n", m.start())
        if c_text[m.start():eol].rstrip().endswith("{"):
            start = m.start()
            break
    if start is None:
        raise SystemExit("function definition not found: " + signature_prefix)
    end = c_text.index(HDR + "%d\n" % next_block_line, start)
    return start, end
