#!/usr/bin/env python3
"""Hand patch of the generated C mirroring `fix: the marginal likelihood no longer depends on an inversion it does not use`:
pyx line 380 now reads `info = self.make_AAinv() if make_aAinv == 1 else 0` (likelihood_worker).

usage: make_ainvskip_c_patch.py <previous fast_likelihood.c> <new fast_likelihood.pyx> <output .c>"""
import sys
from cpatch_util import HDR, function_region, regen_comments

src_c, src_pyx, out_c = sys.argv[1:4]
c = open(src_c, errors="replace").read()
pyx = open(src_pyx).read().split("\n")
assert pyx[379].strip() == "info = self.make_AAinv() if make_aAinv == 1 else 0", pyx[379]

start, end = function_region(c, "static double __pyx_f_8thejoker_3src_15fast_likelihood_12CJokerHelper_likelihood_worker(", 428)
fn = c[start:end]
CALL = ("  __pyx_t_1 = ((struct __pyx_vtabstruct_8thejoker_3src_15fast_likelihood_CJokerHelper *)__pyx_v_self->__pyx_vtab)->make_AAinv(__pyx_v_self); "
        "if (unlikely(PyErr_Occurred())) __PYX_ERR(0, 380, __pyx_L1_error)\n  __pyx_v_info = __pyx_t_1;\n")
assert fn.count(CALL) == 1, fn.count(CALL)
NEW = ("  if ((__pyx_v_make_aAinv == 1)) {\n"
       "    __pyx_t_1 = ((struct __pyx_vtabstruct_8thejoker_3src_15fast_likelihood_CJokerHelper *)__pyx_v_self->__pyx_vtab)->make_AAinv(__pyx_v_self); "
       "if (unlikely(PyErr_Occurred())) __PYX_ERR(0, 380, __pyx_L1_error)\n"
       "  } else {\n"
       "    __pyx_t_1 = 0;\n"
       "  }\n"
       "  __pyx_v_info = __pyx_t_1;\n")
fn = fn.replace(CALL, NEW, 1)
whole = c[:start] + fn + c[end:]
whole = regen_comments(whole, pyx, 376, 384)
open(out_c, "w").write(whole)
print("written", out_c)
