"""Drives the real sampler through histories of API calls with the recording collaborators and produces
traces for spec/SamplerTrace.tla (events Header / Call / Eval / Draw / Map / DrawLinear / Return)."""
import os
import tempfile

import numpy as np

from . import collab, fixture, tokens


def u_script(classes):
    """classes: {lib id: 'zero'|'below'|'equal'|'above'|'hi'}; others keep the generator's own uniform"""
    def f(evaluated, n, real_u, ratio):
        u = np.array(real_u, dtype=float)
        if ratio is None or len(evaluated) != n:
            return u
        top = np.nextafter(1.0, 0.0)
        for p in range(n):
            k = classes.get(evaluated[p])
            r = ratio[p]
            if k is None:
                continue
            if k == "zero":
                u[p] = 0.0
            elif k == "below":
                u[p] = np.nextafter(r, 0.0) if r > 0 else 0.0
            elif k == "equal":
                u[p] = r if r < 1.0 else top
            elif k == "above":
                u[p] = min(np.nextafter(r, 1.0), top) if r < 1.0 else top
            elif k == "hi":
                u[p] = top
        return u
    return f


class Session:
    def __init__(self, lib, data, prior, seed=0, pool="rec", pool_size=2, order_seed=0, inject=None, uclasses=None,
                 workdir=None, real_pool=None):
        import thejoker as tj
        self.lib, self.data, self.prior = lib, data, prior
        self.rec = collab.Recorder()
        self.rec.decode = lib.decode
        self.rec.ll_values = []
        self.rec.inject = dict(inject or {})
        self.seed = seed
        self.gen = collab.RecGen.make(seed, self.rec)
        self._uscript = u_script(uclasses) if uclasses else None
        if self._uscript:
            def uclass(evaluated, n, real_u):
                ratio = None
                if len(self.rec.ll_values) == n and n > 0:
                    ll = np.array(self.rec.ll_values, dtype=float)
                    with np.errstate(all="ignore"):
                        ratio = np.exp(ll - ll.max())
                return self._uscript(evaluated, n, real_u, ratio)
            self.rec.uclass = uclass
        self.observed = real_pool is None
        if real_pool is not None:
            self.pool = real_pool
        elif pool == "rec":
            self.pool = collab.RecPool(self.rec, size=pool_size, order_seed=order_seed)
        else:
            import schwimmbad
            self.pool = schwimmbad.SerialPool()
        self.workdir = workdir or tempfile.mkdtemp(prefix="sess", dir=os.environ.get("VERIF_WORK", None))
        self.joker = tj.TheJoker(prior, rng=self.gen, pool=self.pool, tempfile_path=os.path.join(self.workdir, "tj"))
        if collab.install_helper_factory(self.joker, self.rec) is None:
            self.observed = False
        self.events = []
        self.file = None
        self.ngroups = 0

    @classmethod
    def adopt(cls, joker, lib, data):
        """a Session around a TheJoker object somebody else made (the repository's own tests): its generator is replaced by a
        recording one over the SAME bit generator, a serial pool by the recording pool, and helpers are made by the recording
        factory; worker-process pools are left alone (their calls are validated from the returned values only)"""
        self = cls.__new__(cls)
        self.lib, self.data, self.prior = lib, data, joker.prior
        self.rec = collab.Recorder()
        self.rec.decode = lib.decode
        self.rec.ll_values = []
        self.rec.inject = {}
        self.seed = None
        self._uscript = None
        bitgen = joker.rng.bit_generator
        g = collab.RecGen(bitgen)
        g._rec, g._label = self.rec, "parent"
        self.gen = g
        joker.rng = g
        pname = type(joker.pool).__name__
        if pname in ("SerialPool", "RecPool"):
            joker.pool = collab.RecPool(self.rec, size=1, order_seed=0)
            self.observed = True
        else:
            self.observed = False
        self.pool = joker.pool
        self.joker = joker
        self.workdir = None
        self.fast_reference = True
        if collab.install_helper_factory(joker, self.rec) is None:
            self.observed = False
        self.events = []
        self.file = None
        self.ngroups = 0
        return self

    # ---------------------------------------------------------------- header
    def reference_ll(self):
        """each row alone, on a fresh helper, in memory (plain helper: no recording, no injection)"""
        import thejoker as tj
        from thejoker.data_helpers import validate_prepare_data
        from thejoker.src.fast_likelihood import CJokerHelper
        out = np.empty(self.lib.N)
        all_data, ids, M = validate_prepare_data(self.data, self.prior.poly_trend, self.prior.n_offsets)
        if getattr(self, "fast_reference", False):
            # adopted sessions (the repository's tests use libraries of thousands of rows): one fresh helper, blocks of 256 rows
            h = CJokerHelper(all_data, self.prior, M)
            for lo in range(0, self.lib.N, 256):
                out[lo:lo + 256] = np.array(h.batch_marginal_ln_likelihood(np.ascontiguousarray(self.lib.packed[lo:lo + 256])))
            return out
        for i in range(self.lib.N):
            h = CJokerHelper(all_data, self.prior, M)
            out[i] = np.array(h.batch_marginal_ln_likelihood(np.ascontiguousarray(self.lib.packed[i:i + 1])))[0]
        for i, v in self.rec.inject.items():
            out[i - 1] = v
        return out

    def header(self):
        self.ref = self.reference_ll()
        if getattr(self.lib, "lnprior_by_value", None) is not None:
            lnp = list(range(1, self.lib.N + 1))           # adopted libraries: ln_prior values are identified by their row
        else:
            lnp = [int(x) for x in self.lib.lnprior] if self.lib.lnprior is not None else []
        self.events.append({"ev": "Header", "N": self.lib.N, "lnp": lnp, "th": [self.lib.row_hash(i) for i in range(1, self.lib.N + 1)],
                            "ref": tokens.ord_tokens(self.ref)})

    def rewrite_library(self, variant):
        """overwrite the user's library file (same path) with the same physical samples in other units; the reference
        values are recomputed from what the new file holds (a new Header event)"""
        import astropy.units as u
        from thejoker import JokerSamples
        old = self.lib.samples
        uu = {"yr_deg": (u.yr, u.deg, u.m / u.s), "h_rad": (u.h, u.rad, u.km / u.s), "d_deg": (u.day, u.deg, u.cm / u.s),
              "d_rad": (u.day, u.rad, u.km / u.s)}[variant]
        s2 = JokerSamples()
        s2["P"] = old["P"].to(uu[0]); s2["e"] = old["e"]; s2["omega"] = old["omega"].to(uu[1]); s2["M0"] = old["M0"].to(uu[1])
        s2["s"] = old["s"].to(uu[2])
        if "ln_prior" in old.par_names:
            s2["ln_prior"] = old["ln_prior"]
        path = self.libfile()
        s2.write(path, overwrite=True)
        back = JokerSamples.read(path)
        self.lib = fixture.Library.from_samples(back, data_unit=self.data.rv.unit.to_string())
        self.rec.decode = self.lib.decode
        self.header()

    def reseed(self, seed=None):
        """same generator object, stream restarted (for twin runs with equal seeds)"""
        self.gen.bit_generator.state = np.random.PCG64(self.seed if seed is None else seed).state

    def libfile(self):
        if self.file is None:
            self.file = os.path.join(self.workdir, "library.hdf5")
            self.lib.write(self.file)
        return self.file

    # ---------------------------------------------------------------- one API call
    def call(self, api, path="object", nprior=0, maxpost=0, nlinear=1, randomize=False, logprobs=False, all=False,
             nbatches=0, nreq=0, budget=0, initb=0, growth=None, group=0, invoke=None):
        """invoke: a callable that makes the real call (used when the call comes from somebody else's code: the options above then
        only describe it); an exception it raises is recorded AND re-raised"""
        rec = self.rec
        rec.events = []
        rec.evaluated = []
        rec.ll_values = []
        rec.unparsed = False
        if invoke is not None:
            arg, inmem = None, path in ("inmem", "inmem_file")
        elif path == "inmem":
            arg, inmem = self.lib.samples, True
        elif path == "object":
            arg, inmem = self.lib.samples, False
        elif path == "file":
            arg, inmem = self.libfile(), False
        elif path == "inmem_file":
            arg, inmem = self.libfile(), True
        elif path in ("count", "count_inmem"):
            arg, inmem = int(self.lib.N), path == "count_inmem"
        else:
            raise ValueError(path)
        budget_eff = budget
        ev = {"ev": "Call", "api": api, "path": path, "nprior": nprior, "maxpost": maxpost, "nlinear": nlinear,
              "randomize": bool(randomize), "logprobs": bool(logprobs), "all": bool(all), "nreq": nreq, "budget": budget_eff,
              "initb": 0, "group": group, "nbatches": nbatches, "observed": self.observed}
        kw = {}
        if nbatches:
            kw["n_batches"] = nbatches
        ret = {"ev": "Return", "raised": False, "exc": "", "type": "", "rows": [], "th": [], "haslp": False, "scalars": False,
               "lnlike": [], "lnprior": [], "hasall": False, "allll": []}
        res = None
        pending_exc = None
        try:
            if invoke is not None:
                if api == "iterative":
                    ev["initb"] = initb if initb else (growth if growth is not None else 128) * nreq
                res = invoke()
            elif api == "marginal":
                res = self.joker.marginal_ln_likelihood(self.data, arg, in_memory=inmem, **kw)
            elif api == "rejection":
                res = self.joker.rejection_sample(
                    self.data, arg, n_prior_samples=(nprior or None), max_posterior_samples=(maxpost or None),
                    n_linear_samples=nlinear, return_logprobs=logprobs, return_all_logprobs=all,
                    randomize_prior_order=randomize, in_memory=inmem, **kw)
            elif api == "iterative":
                gf = growth if growth is not None else 128
                ib = initb or None
                ev["initb"] = initb if initb else gf * nreq
                res = self.joker.iterative_rejection_sample(
                    self.data, arg, n_requested_samples=nreq, max_prior_samples=(budget or None), n_linear_samples=nlinear,
                    return_logprobs=logprobs, randomize_prior_order=randomize, init_batch_size=ib, growth_factor=gf,
                    in_memory=inmem, **kw)
            else:
                raise ValueError(api)
        except collab.InjectedFault:
            raise
        except Exception as ex:
            ret["raised"] = True
            ret["exc"] = "%s: %s" % (type(ex).__name__, str(ex)[:160])
            if invoke is not None:
                pending_exc = ex
        if rec.unparsed:
            ev["observed"] = False          # the pool's tasks could not be read: judge this call from what it returned only
        self.events.append(ev)
        # recorder events, with the ratio attached to parent uniform draws
        seen_ll = []
        pending = {}

        def flush():
            for k in sorted(pending):
                seen_ll.extend(pending[k])
            pending.clear()
        for e in rec.events:
            if e["ev"] in ("Draw", "Map", "DrawLinear"):
                flush()
            if e["ev"] == "Eval":
                llv = e.pop("_llv")
                if e.get("task", 0):
                    pending.setdefault(e["task"], []).extend(llv)
                else:
                    seen_ll.extend(llv)
                self.events.append(e)
            elif e["ev"] == "Draw":
                d = {"ev": "Draw", "stream": e["stream"], "method": e["method"], "n": e.get("n", 0), "u": e.get("u", []),
                     "ratio": [], "result": [x + 1 for x in e.get("result", [])], "a": e.get("a", 0), "replace": e.get("replace", False),
                     "sid": e.get("sid"), "before": e.get("before", ""), "after": e.get("after", ""), "task": e.get("task", 0)}
                # the ratio vector always covers EVERY sample evaluated so far (a draw may cover all of them, or only the new ones)
                if e["method"] == "uniform" and e["stream"] == "parent" and len(seen_ll) >= d["n"] and d["n"] > 0:
                    ll = np.array(seen_ll, dtype=float)
                    with np.errstate(all="ignore"):
                        d["ratio"] = tokens.ord_tokens(np.exp(ll - ll.max()))
                self.events.append(d)
            elif e["ev"] == "Map":
                self.events.append({"ev": "Map", "worker": e["worker"], "call": e["call"], "fs": e.get("fs", {}),
                                    "tasks": [{"sel": t["sel"], "start": t["start"], "kind": t["kind"], "child": t.get("child", {})}
                                              for t in e["tasks"]]})
            elif e["ev"] == "DrawLinear":
                self.events.append({"ev": "DrawLinear", "rows": e["rows"], "nlinear": e["nlinear"], "sid": e.get("sid") or {},
                                    "parent": e.get("parent", False)})
        self._project(api, res, ret, all)
        if not self.observed and api == "rejection" and isinstance(res, tuple):
            # worker processes: the ratio of the (single) parent uniform draw is computed from the returned likelihoods
            ll = np.asarray(res[1], dtype=float)
            for d in self.events[::-1]:
                if d["ev"] == "Call":
                    break
                if d["ev"] == "Draw" and d["method"] == "uniform" and d["stream"] == "parent" and d["n"] == len(ll):
                    with np.errstate(all="ignore"):
                        d["ratio"] = tokens.ord_tokens(np.exp(ll - ll.max()))
        self.events.append(ret)
        if pending_exc is not None:
            raise pending_exc
        return res

    def kernel_history(self, steps):
        """direct use of ONE helper object: a sequence of likelihood evaluations and posterior draws on arbitrary row sets"""
        rec = self.rec
        rec.events = []
        rec.evaluated = []
        rec.ll_values = []
        if hasattr(self.joker, "_make_joker_helper"):
            h = self.joker._make_joker_helper(self.data)
        else:
            from thejoker.data_helpers import validate_prepare_data
            all_data, _ids, trend_M = validate_prepare_data(self.data, self.prior.poly_trend, self.prior.n_offsets)
            h = collab.make_rec_helper_class()(all_data, self.prior, trend_M)
            h._rec = rec
        self.events.append({"ev": "Call", "api": "kernel", "path": "inmem", "nprior": 0, "maxpost": 0, "nlinear": 1,
                            "randomize": False, "logprobs": False, "all": False, "nreq": 0, "budget": 0, "initb": 0, "group": 0,
                            "nbatches": 0, "observed": True})
        import dill as pickle     # what schwimmbad.MultiPool (multiprocess) uses to ship helpers to workers
        for kind, rows in steps:
            chunk = np.ascontiguousarray(self.lib.packed[[r - 1 for r in rows]])
            if kind == "ll":
                h.batch_marginal_ln_likelihood(chunk)
            elif kind == "draw":
                h.batch_get_posterior_samples(chunk, 2, np.random.default_rng(1))
            elif kind == "pickle":
                cls = collab.make_rec_helper_class()
                f, args = h.__reduce__()
                h = cls(*pickle.loads(pickle.dumps(args)))
                h._rec = rec
        for e in rec.events:
            if e["ev"] == "Eval":
                e.pop("_llv")
                self.events.append(e)
        self.events.append({"ev": "Return", "raised": False, "exc": "", "type": "kernel", "rows": [], "th": [], "haslp": False,
                            "scalars": False, "lnlike": [], "lnprior": [], "hasall": False, "allll": []})

    def _project(self, api, res, ret, want_all):
        import astropy.units as u
        from thejoker import JokerSamples
        if ret["raised"]:
            return
        samples = res
        if api == "marginal":
            ret["type"] = type(res).__name__
            ret["hasall"] = True
            ret["allll"] = tokens.ord_tokens(res)
            return
        if isinstance(res, tuple):
            samples, allll = res
            ret["hasall"] = True
            ret["allll"] = tokens.ord_tokens(allll)
        ret["type"] = type(samples).__name__
        if not isinstance(samples, JokerSamples):
            return
        n = len(samples)
        if n == 0 or "P" not in samples.par_names:
            return
        dunit = self.data.rv.unit if hasattr(self.data, "rv") else list(self.data.values())[0].rv.unit if hasattr(self.data, "values") else self.data[0].rv.unit
        P = np.atleast_1d(samples["P"].to_value(u.day))
        cols = [P, np.atleast_1d(samples["e"].to_value(u.one)), np.atleast_1d(samples["omega"].to_value(u.rad)),
                np.atleast_1d(samples["M0"].to_value(u.rad)), np.atleast_1d(samples["s"].to_value(dunit))]
        packed = np.stack(cols, axis=1)
        ret["rows"] = self.lib.decode(packed)
        ret["th"] = [tokens.bits_hash(packed[k]) for k in range(n)]
        if "ln_prior" in samples.par_names and "ln_likelihood" in samples.par_names:
            ret["haslp"] = True
            lp = samples.tbl["ln_prior"]
            ll = samples.tbl["ln_likelihood"]
            lpv = np.asarray(getattr(lp, "value", lp))
            llv = np.asarray(getattr(ll, "value", ll))
            ret["scalars"] = bool(lpv.dtype.kind == "f" and llv.dtype.kind == "f" and lpv.ndim == 1 and llv.ndim == 1)
            if ret["scalars"]:
                ret["lnlike"] = tokens.ord_tokens(llv)
                byval = getattr(self.lib, "lnprior_by_value", None)
                if byval is not None:
                    ret["lnprior"] = [int(byval.get(float(x), 0)) for x in lpv]
                else:
                    ret["lnprior"] = [int(round(x)) if np.isfinite(x) and abs(x - round(x)) < 1e-9 else 0 for x in lpv]

    def trace(self, tid):
        return {"id": tid, "events": self.events}
