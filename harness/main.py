"""bin/check <Cxx> [--tier quick|thorough] [--replay PATH] [--selftest]"""
import argparse
import importlib
import os
import sys
import traceback


def main():
    ap = argparse.ArgumentParser()
    ap.add_argument("pid")
    ap.add_argument("--tier", default=os.environ.get("VERIF_TIER", "quick"), choices=["quick", "thorough"])
    ap.add_argument("--replay", default=None)
    ap.add_argument("--selftest", action="store_true")
    a = ap.parse_args()
    seed = int(os.environ.get("VERIF_SEED", "0") or 0)
    from harness import core
    try:
        mod = importlib.import_module("harness.checks.%s" % a.pid.lower())
        ctx = core.Ctx(a.pid, a.tier, seed, mod.LEVEL)
        from harness import jk, kernel
        try:
            ctx.notes["kernel"] = dict(jk.load())
        except kernel.KernelError as ex:
            raise core.MachineryError("kernel could not be resolved: %s" % ex)
        if a.replay:
            import json
            from harness import history
            case = json.load(open(a.replay)).get("case", {})
            if isinstance(case, dict) and case.get("kind") in history.KINDS and "script" in case:
                rc = history.replay(ctx, case)          # a replayed history (spec/History.tla), whichever check reported it
            else:
                rc = mod.replay(ctx, a.replay)
        else:
            mod.run(ctx, selftest=a.selftest)
            rc = ctx.finish()
        sys.stdout.flush()
        os._exit(rc)
    except core.MachineryError as ex:
        print("MACHINERY-FAILURE property=%s: %s" % (a.pid, ex), file=sys.stderr)
        sys.stderr.flush()
        os._exit(2)
    except Exception:
        traceback.print_exc()
        print("MACHINERY-FAILURE property=%s: unexpected exception in the harness" % a.pid, file=sys.stderr)
        sys.stderr.flush()
        os._exit(2)


if __name__ == "__main__":
    main()
