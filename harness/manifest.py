"""Regenerates /verif/MANIFEST.json from the table below:  /venv/bin/python -m harness.manifest"""
import json
import os

VERIF = os.path.dirname(os.path.dirname(os.path.abspath(__file__)))

CHECKS = {
    "C16": dict(
        category="model_checking",
        text=("TLC exhausts PartitionAlg (a transcription of batch_tasks) against the Partition property for n<=24, "
              "n_batches<=28, start<=3, index and array mode; every (n,b,s,mode) TLC enumerates in the export configuration is "
              "replayed into the real batch_tasks, and those results plus seeded random calls (n to 1e7) and the tasks a recording "
              "pool receives from the public calls (marginal_ln_likelihood / rejection_sample on the cache paths; natural order, "
              "n_prior_samples, and randomized order with the index array taken from the recorded shuffle) are validated by the "
              "PartitionTrace monitor against Partition (validity, not the current algorithm). That the validity the monitor checks gives "
              "what the property promises (every requested row in exactly one task, nothing else) is proved for EVERY n, start and "
              "task list with the TLA+ proof system (spec/PartitionProof.tla, 139 obligations, re-checked by tlapm on every run). A randomized order must be covered in that order also by an implementation that hands out row ranges; the array to cover is the stretch of the recorded draw the tasks reproduce."),
        design_ref="DESIGN.md section 3 C16",
        note="Trusted: TLC/SANY, JSON transport of ints < 2^31, numpy slicing. Not covered: n or start_idx >= 2^31.",
        technique="TLA+ spec (Partition/PartitionAlg) model-checked with TLC; validity => exactly-once proved with TLAPS; spec->code replay of TLC-enumerated inputs; code->spec trace validation",
    ),
    "C15": dict(
        category="model_checking",
        text=("TLC exhausts RVDataAlg (Mask;Sort;SetTRef as the constructor performs them, any time-sorting permutation) against "
              "the declarative clauses of RVData for <=3 (thorough: 4) observations with duplicate times and every placement of "
              "one non-finite component; every enumerated input is built with the real constructor under rotating (t_ref mode, "
              "unit, 1-D error / covariance, float / Time input), then copied and sliced; those traces plus seeded random ones "
              "(to 200 observations) are validated by the RVDataTrace monitor (membership: order among equal times is free). Histories (spec/History.tla, HistoryMC, HistoryTrace): every history of calls on one data set (including plotting, merging with another survey and a second construction from the caller's own arrays) that TLC enumerates to 3 calls (reads, documented in-place changes, copies / slices / masks / pickles / file round trips) and ends in a read this property owns is replayed on a real object; at every read the answer is compared with a fresh twin on which only the content-changing calls were replayed - an answer may depend on the content only, never on the calls made before."),
        design_ref="DESIGN.md section 3 C15",
        note=("Trusted: TLC, astropy Time/units, the value-encodes-identity projection (rv=id, err=id/8, cov[i][j]=1000i+j). "
              "Inverse covariance is checked exactly on integer unimodular matrices only. Inputs with no finite observation are skipped."),
        technique="TLA+ spec (RVData/RVDataAlg) model-checked with TLC; replay of TLC-enumerated inputs; trace validation by total monitor; TLA+ spec (History) model-checked with TLC, TLC-enumerated call histories replayed on real objects against a fresh twin, validated by the HistoryTrace monitor",
    ),
    "C08": dict(
        category="model_checking",
        text=("TLC exhausts MultiSurveyAlg (Concat;Sort;Label;Design as validate_prepare_data performs them) against the declarative "
              "MultiSurvey clauses for <=4 epochs, <=3 surveys, times from a 3-point set (identical, interleaved and disjoint layouts), "
              "list and dict input with every key order; every enumerated input (times in {1,2}) is passed to the real "
              "validate_prepare_data and the returned (data, ids, trend_M) is validated by the MultiSurveyTrace monitor; seeded "
              "random cases go to 4 surveys x 30 epochs. For dict input any bijection between offset columns and non-reference "
              "surveys is accepted; for list input the first source must be the reference and the j-th further source owns dv0_j."),
        design_ref="DESIGN.md section 3 C08",
        note=("Trusted: TLC, astropy, value-encodes-identity projection. The likelihood-level consequence ('hence likelihoods are those "
              "of the correctly labelled data') is covered through the design matrix handed to the kernel, which C01/C05 bind separately."),
        technique="TLA+ spec (MultiSurvey/MultiSurveyAlg) model-checked with TLC; replay of TLC-enumerated inputs; trace validation by total monitor",
    ),
    "C19": dict(
        category="model_checking",
        text=("TLC checks the theorems of Diagnostics (largest arc independent of reference epoch and of time reversal, arcs sum to the "
              "circle, coverage bounds) over every observing pattern on 12 slots x 4 periods x 3 reference epochs; every pattern on 8 "
              "slots is replayed into the real max_phase_gap / phase_coverage / periods_spanned (observations fed shuffled, reversed "
              "and sorted), results are projected to exact rationals and validated by the DiagnosticsTrace monitor, as are MAP_sample "
              "calls on tables with ties and decoy maxima; seeded random patterns go to 300 slots. Histories (spec/History.tla, HistoryMC, HistoryTrace): every history of calls on one sample object (MAP, phase gap / coverage against two data sets, periods spanned, unimodality) that TLC enumerates to 3 calls (reads, documented in-place changes, copies / slices / masks / pickles / file round trips) and ends in a read this property owns is replayed on a real object; at every read the answer is compared with a fresh twin on which only the content-changing calls were replayed - an answer may depend on the content only, never on the calls made before."),
        design_ref="DESIGN.md section 3 C19",
        note=("Trusted: TLC, astropy; half-integer reference offsets keep every phase off bin edges, so only (P, n_bins) with an even "
              "integer bin width 2P/n are used for phase_coverage. Non-integer periods are not on the lattice."),
        technique="TLA+ spec (Diagnostics) theorems model-checked with TLC; replay of TLC-enumerated patterns; trace validation by total monitor; TLA+ spec (History) model-checked with TLC, TLC-enumerated call histories replayed on real objects against a fresh twin, validated by the HistoryTrace monitor",
    ),
    "C02": dict(
        category="model_checking",
        text=("TLC exhausts SamplerMC - the rejection pipeline Eval;Accept;Truncate;MapRows;Return over libraries of <=3 rows, "
              "likelihood classes {-inf, three finite levels incl. ties}, uniform classes {0, just below, equal, just above the "
              "ratio, ~1}, every evaluation order, max_posterior_samples, n_prior_samples, n_linear_samples (3.4M states) - against "
              "BestSurvives, NegInfNeverKept, InEvaluationOrder, TruncationIsPrefix, OnlyFirstNPriorEvaluated. Behaviours exported "
              "by TLC are realised on the real sampler (injecting kernel helper, scripted shuffle, uniforms placed with nextafter) "
              "on the in-memory, object-cache and file paths and must return the specification's rows; those runs and seeded "
              "random pass-through histories (libraries to 200/2000 rows, random batching, shuffled task execution) are validated "
              "event by event by the SamplerTrace monitor (evaluated rows - library order, or any order of distinct rows with "
              "randomize_prior_order -, one uniform variate per evaluated sample however many calls deliver them, exp(ll-max) > u, "
              "front truncation, bit-identical nonlinear parameters); a third of the libraries carry a non-zero jitter stored in "
              "m/s. thorough also validates the 98 sampler calls recorded from the repository's own test_sampler.py."),
        design_ref="DESIGN.md section 3 C02",
        note=("Trusted: TLC; numpy exp/nextafter (the ratio exp(ll-max) is computed by the harness from the recorded likelihoods "
              "and only checked for sanity by the monitor); rows identified through distinct periods; likelihood classes injected "
              "through a Python subclass of the real helper. Likelihood profiles with no finite value or with NaN are out of scope."),
        technique="TLA+ spec (Sampler/SamplerMC) model-checked with TLC; replay of TLC-exported behaviours into the real sampler; trace validation by total monitor",
    ),
    "C06": dict(
        category="model_checking",
        text=("Same specification as C02 with the three index spaces (shuffled order, accepted positions, library rows) explicit; "
              "SamplerMC checks LnLikeOfOwnRow exhaustively; the SamplerTrace monitor requires plain float columns, "
              "ln_likelihood[k] = lls[good[k]], ln_prior[k] = tag of library row full[k] (tags -1000-id), one value per returned "
              "row, and the all-logprobs array equal to the evaluated likelihoods in evaluation order, for rejection_sample and "
              "iterative_rejection_sample, with shuffling, truncation, n_linear_samples 1..3, on the three paths."),
        design_ref="DESIGN.md section 3 C06",
        note="Trusted: as C02. ln_prior values are integer tags, so a value attached to the wrong row is always visible.",
        technique="TLA+ spec (Sampler/SamplerMC) model-checked with TLC; replay of TLC-exported behaviours; trace validation by total monitor",
    ),
    "C05": dict(
        category="model_checking",
        text=("TLC exhausts PoolMC (every contiguous partition of 4 rows, 2 processes, every interleaving of task execution, posterior "
              "draws dirtying Lambda[0], histories of 2 calls) against PureLL and InputOrder. The SamplerTrace monitor checks on "
              "recorded histories that every kernel evaluation of a row - in memory, through the object cache, from a file, in any "
              "batch, after any earlier evaluations or posterior draws on the same helper, after a dill round trip - equals "
              "bit-for-bit the reference 'alone, fresh helper, in memory', that returned arrays are in input order, that draw tasks "
              "cover the accepted rows in order, and that twin calls with equal seeds accept the same rows on every path; thorough "
              "adds real schwimmbad.MultiPool(2,3) worker processes (likelihoods adopted from return_all_logprobs), larger PoolMC constants "
              "(5 rows, 3 processes, 3 calls) and the sampler calls recorded from the repository's own tests."),
        design_ref="DESIGN.md section 3 C05",
        note=("Trusted: TLC; HDF5 float64 round trip (bound by C12). In worker processes evaluations are not observable; there the "
              "returned arrays are compared with the reference. randomize_prior_order twins are excluded (the in-memory path does "
              "not shuffle, which C05 does not forbid)."),
        technique="TLA+ spec (PoolMC, Sampler) model-checked with TLC; trace validation of recorded call histories by total monitor",
    ),
    "C14": dict(
        category="model_checking",
        text=("TLC exhausts Iterative (cursor arithmetic of the grow-and-retest loop with a free growth policy and a free number of "
              "passing samples per test; N<=7, n_requested<=3) for BudgetRespected, NoRowTwice, AtMostRequested, ExactlyWhenEnough, "
              "TooSmallRaises and termination under weak fairness; Apalache discharges the inductive invariant over unbounded "
              "integers (Init=>IndInv, IndInv/\\Next=>IndInv', IndInv=>Safety). Every request TLC enumerates (library size, "
              "max_prior_samples, n_requested, init_batch_size, four uniform profiles) is run on the real sampler on alternating "
              "paths; those executions and seeded random ones (libraries to 400/5000 rows, -inf likelihoods) are validated by the "
              "SamplerTrace monitor: rows evaluated each round in order and never twice, within the budget, one uniform variate per "
              "evaluated sample (redrawn each round or kept), acceptance by the C02 rule against the maximum of everything "
              "evaluated so far, at most / exactly n_requested rows x n_linear_samples, JokerSamples or an exception. thorough: "
              "N<=11, n_requested<=4, and the iterative calls recorded from the repository's own tests."),
        design_ref="DESIGN.md section 3 C14",
        note=("Trusted: TLC, Apalache, and the C02 trusted base for the rule. The growth policy is deliberately unconstrained; whether the "
              "loop stops early while budget remains is not part of the property."),
        technique="TLA+ spec (Iterative) model-checked with TLC + Apalache inductive invariant; replay of TLC-enumerated requests; trace validation by total monitor",
    ),
    "C10": dict(
        category="model_checking",
        text=("TLC exhausts Streams (parent position, spawn counter, one child stream per task; histories of 3 calls x 3 tasks) for "
              "NoStreamReuse and OneTaskPerChild. Each recorded scenario - a history of rejection / iterative / marginal calls on the "
              "three paths, prior samples requested by count, prior.sample - is executed four times (seed s, seed s, seed s with "
              "numpy's and Python's global generators seeded differently, seed s+1); the StreamsTrace monitor requires that no parent "
              "bit-generator state is drawn from twice, that every child generator handed to a task is a stream never used before "
              "in this or any earlier call (one per task), that draws come only from the parent or announced children, that global "
              "generator states are unchanged by every call, that no linear-parameter draw vector repeats, that outputs are "
              "bit-identical across the first three runs and that no linear draw of the first run re-appears under the other seed "
              "(the randomness does come from the given generator). One scenario per run is executed in three interpreter "
              "processes with PYTHONHASHSEED 0 / 1 / 2 and must give identical outputs; thorough adds schwimmbad.MultiPool."),
        design_ref="DESIGN.md section 3 C10",
        note=("Trusted: TLC; repr of the bit-generator state identifies a stream position; SHA-256 of returned arrays. A draw from a "
              "foreign generator is visible only through non-reproducibility (runs A/B/G/H) or seed-independence (run D), not directly. How "
              "child streams are derived from the given generator is not judged."),
        technique="TLA+ spec (Streams) model-checked with TLC; trace validation of triple executions by total monitor",
    ),
    "C13": dict(
        category="fault_enumeration",
        text=("TLC exhausts SamplerFaults - the pipeline of each API call on each path with a failing twin for every action, then "
              "Unwind and Raise - for NoLeak, UserFileIntact and InjectedAlwaysRaises, and enumerates the crash-point set. For every "
              "configuration (marginal / rejection / iterative x object / file / in-memory x batching) a dry run under harness-side "
              "boundary interposition yields the dynamic call sequence (NamedTemporaryFile, write, open_file, h5py.File, "
              "batch_tasks, pool.map, each task, read_batch, kernel calls, generator draws, concatenate, pack/unpack); each call is "
              "a crash point, injected in a re-run from the same generator state; the FaultsTrace monitor requires the injected "
              "exception object at the caller, no new file in TMPDIR / tempfile_path, an unchanged SHA-256 of the user's file and a "
              "correct follow-up call on the same TheJoker. A call kind with no model action is a spec gap (exit 2). Inside the cache write the writer's own h5py File open and create_dataset calls are crash points too: what the writer does about its own failure may not hide the error from the caller."),
        design_ref="DESIGN.md section 3 C13",
        note=("Trusted: the interposed boundary covers the calls made inside the sampling functions; os.unlink in the finally clause and "
              "the temp file's own close() are not crash points. thorough: failures inside real worker processes (MultiPool forked under "
              "the interposition; read_batch / open_file / h5py.File fail at their j-th call in a worker; Exception subclasses only)."),
        technique="TLA+ spec (SamplerFaults) model-checked with TLC to enumerate crash points; fault injection at every dynamic call; trace validation by total monitor",
    ),
    "C12": dict(
        category="model_checking",
        text=("TLC exhausts SampleFileMC - histories of 3 writes over 24 table shapes x overwrite x append (about 1M states) - for the "
              "action properties AppendIsConcat, RefusedLeavesFile, RefusedOnlyWhenIncompatible. Every history of two writes TLC "
              "enumerates is replayed on a real HDF5 file (quick: seeded subset), followed by a read and batch reads (range, slice, "
              "unsorted / repeated index arrays, random subsets; column subsets; requested units); after every step the logical "
              "content read back (per-row SHA-256 of the float64 values, row ids, columns, units, t_ref, poly_trend, n_offsets) must "
              "be an outcome the SampleFile specification allows (SampleFileTrace monitor). Seeded random histories go to 6 "
              "operations on tables of up to 200/5000 rows and include FITS write/read; every history hands over its reference epochs "
              "on one of the tcb / utc / tt / tdb scales. One history in four stores a column in single precision (double-precision columns must come back to 1e-10); FITS histories write what they read back to HDF5 again; a reference epoch on one side only makes an append incompatible."),
        design_ref="DESIGN.md section 3 C12",
        note=("Trusted: TLC, astropy/h5py/PyTables. An append where exactly one side has no reference epoch may be accepted or refused "
              "(the property does not define it; astropy's metadata merge treats None as unspecified). Batch values are decoded "
              "through the requested unit with a 1e-6 lattice tolerance."),
        technique="TLA+ spec (SampleFile/SampleFileMC) model-checked with TLC; replay of TLC-enumerated histories on real files; trace validation by total monitor",
    ),
    "C17": dict(
        category="model_checking",
        text=("TLC checks the theorems of SampleTable over a lattice of rows (K in -2..2, omega / M0 in units of pi/4 not reduced to a turn, "
              "P a multiple of 8 d): wrap_K keeps every row's RV curve at all 8 phases, makes K non-negative, leaves non-negative rows "
              "alone, is idempotent; get_time_with_phase hits exactly the requested mean anomaly (and no other of the 8 phases). Every "
              "table of <=2 rows TLC enumerates is built as a real JokerSamples (rotating deg/rad, m/s / km/s, d / yr, t_ref present "
              "/ absent, poly_trend 1/2, n_offsets 0/1) and put through wrap_K, get_time_with_phase / get_t0, pack->unpack, integer / "
              "slice / mask / array indexing, copy, mean, std, median_period; results projected to the lattice are validated by the "
              "SampleTableTrace monitor; seeded random tables go to 300 rows. wrap_K is also applied to a table whose orbits have already "
              "been read (read, wrap in place, read again, replace a column, read again): the curve may not come from anything the "
              "object remembered about the rows as they were. Histories (spec/History.tla, HistoryMC, HistoryTrace): every history of calls on one sample table that TLC enumerates to 3 calls (reads, documented in-place changes, copies / slices / masks / pickles / file round trips) and ends in a read this property owns is replayed on a real object; at every read the answer is compared with a fresh twin on which only the content-changing calls were replayed - an answer may depend on the content only, never on the calls made before."),
        design_ref="DESIGN.md section 3 C17",
        note=("Trusted: TLC, astropy. pack->unpack identity is checked with the table's own units (and for tables already in internal "
              "units with default arguments): pack() by design converts to internal units otherwise. Lattice tolerance 1e-7."),
        technique="TLA+ spec (SampleTable) theorems model-checked with TLC; replay of TLC-enumerated tables; trace validation by total monitor; TLA+ spec (History) model-checked with TLC, TLC-enumerated call histories replayed on real objects against a fresh twin, validated by the HistoryTrace monitor",
    ),
    "C18": dict(
        category="model_checking",
        text=("TLC enumerates the decision tables of Validation: every prior case with <=2 defective parameters (missing / no unit / "
              "inconvertible unit / non-Normal linear prior / constant) for poly_trend 1..3 x n_offsets 0..2, and every data case (single, "
              "list, dict, non-iterable; 1..3 sources; a non-RVData element; a covariance source), and checks that acceptance implies "
              "Normal linear priors, nothing missing and matching source counts. Each enumerated case (quick: <=1 defect) is built with "
              "real pymc variables (canonical and alternative units) and passed to JokerPrior(...) / "
              "TheJoker(...).marginal_ln_likelihood(...); accepted priors must list parameters as nonlinear, linear, offsets and run "
              "the kernel; a seeded sample of the JokerPrior.default argument table is covered; the ValidationTrace monitor compares "
              "outcome (accepted / raised) with the specification."),
        design_ref="DESIGN.md section 3 C18",
        note=("Trusted: TLC, pymc. Any exception counts as 'raises'. An 'omitted' offset is realised as an offset under a wrong name, "
              "because n_offsets is by definition the length of v0_offsets."),
        technique="TLA+ spec (Validation) decision tables enumerated and checked with TLC; replay of every enumerated case; trace validation by total monitor",
    ),
    "C01": dict(
        category="model_checking",
        text=("Gauss states the linear-Gaussian model in exact rationals on a lattice (one slot order K, v0, offsets, v1.. for design "
              "matrix, prior means and variances; jitter-inflated variances; K-variance rule with cap); TLC checks its theorems on all 864 "
              "structural points (epochs 1..3 x poly_trend 1..3 x offsets 0..2 x every survey labelling x default / capped / custom K "
              "prior x means x jitter x e in {0,3/5,4/5}). Each point gets seeded lattice values and is realised through RVData / "
              "JokerPrior / JokerSamples; the kernel's public B and b after marginal_ln_likelihood (a decoy row evaluated first) are "
              "projected to physical units and exact rationals and compared entry by entry with the specification by TLC "
              "(GaussTrace); the value is compared with ln N(y; b, B) of those certified matrices and with TheJoker's in-memory and "
              "cache-file entry points; finiteness on random valid inputs (e to 0.99, periods 0.5 d .. 1e4 d)."
              ' Off the lattice the specification is carried by a floating-point transcription of Gauss.tla (harness/gauss_oracle.py, its own Kepler solver) that TLC certifies on every lattice configuration (monitor family H) and that is then the oracle for seeded random real-valued problems (2-27 epochs, e to 0.99, poly_trend 1..3, offsets, means, jitter, caps, random units; quick 60, thorough 1500; tolerance 1e-6 relative).'),
        design_ref="DESIGN.md section 3 C01, 2.5",
        note=("Open finding KF_IllConditionedB: with long baselines x wide trend priors x small errors (condition number of B beyond 1e8) the kernel's value is off by far more than round-off against exact rational arithmetic; reported as KNOWN-FINDING, a deviation on a better-conditioned problem is a violation. The few-epoch corner (fewer epochs than broad linear parameters) is checked against exact rational arithmetic too and holds since fix dc43793. Exhaustive on the lattice only (Keplerian phases 0 and pi, e in {0, 0.6, 0.8}, P in {2, 4} d); off the lattice agreement with "
              "the closed form is explored on seeded random problems inside the input classes no known finding touches, not decided for "
              "every real input. Trusted: TLC, numpy slogdet/solve for the density of a given Gaussian, twobody's Kepler solver. "
              "Multi-survey lattice cases are time-disjoint in list order (C08's open finding). The kernel findings of earlier sessions "
              "(KF_CustomKSlot, KF_P0Unit, KF_NoCapOnPosterior, jitter, Woodbury cancellation) are repaired; their named deviations stay in "
              "the specification and would classify a recurrence."),
        technique="TLA+ spec (Gauss) in exact rational arithmetic, theorems model-checked with TLC; replay of TLC-enumerated structural points; kernel state validated entry by entry by total monitor",
    ),
    "C03": dict(
        category="model_checking",
        text=("Same specification; for every structural point the posterior-draw path is run on the real helper through "
              "make_full_samples_inmem with a scripted generator that records (mean, cov, size) of multivariate_normal and returns "
              "sentinel draws; Ainv and Ainv.a are compared with the specification's exact precision and right-hand side (same C_s, "
              "same prior incl. the cap) by TLC; cov.Ainv = I numerically; one call per sample with size = n_linear_samples; every "
              "sentinel in its slot and unit; nonlinear parameters copied bit-for-bit. The scripted generator is interposed at the kernel "
              "boundary (batch_get_posterior_samples), whichever generator object the library hands over. Off the lattice the (mean, "
              "cov) handed to multivariate_normal are compared with (A rhs, A) of the TLC-certified floating-point transcription of "
              "Gauss.tla on seeded random real-valued problems (uncapped K priors; quick 60, thorough 1500; 1e-6 relative)."),
        design_ref="DESIGN.md section 3 C03",
        note=("Exhaustive on the lattice only; off the lattice explored on seeded random problems. Not decided: that numpy's multivariate_normal samples the distribution it is given (independence of "
              "draws). The former kernel findings (KF_NoCapOnPosterior, KF_P0Unit, KF_CustomKSlot) are repaired."),
        technique="TLA+ spec (Gauss) exact rationals checked with TLC; replay of TLC-enumerated structural points with a scripted generator; total monitor",
    ),
    "C04": dict(
        category="model_checking",
        text=("Gauss.Curve uses the very columns of the kernel's design matrix; for every structural point (with and without survey offsets: at "
              "the epochs of survey k the row's curve is its orbit plus its dv0_k) the row "
              "emitted by the posterior path (sentinel linear parameters) is turned into samples.get_orbit(0) and its radial velocity "
              "at the data epochs (explicit t_ref before the first epoch, lattice M0 / omega, poly_trend 1..3, random unit assignment) "
              "must equal the specification's curve exactly (TLC); ln_unmarginalized_likelihood must be the jitter-inflated Gaussian "
              "sum of that curve; samples.t_ref the data's; and marginal = unmarginalised + linear prior - conditional posterior. Off "
              "the lattice the identity is evaluated on seeded random real-valued problems with the row's unmarginalised likelihood "
              "from the real code (get_orbit) and prior / posterior densities from the TLC-certified floating-point transcription of "
              "Gauss.tla (quick 80, thorough 1500; 1e-6 relative to the largest term). Histories (spec/History.tla, HistoryMC, HistoryTrace): every history of calls on one sample table (ln_unmarginalized_likelihood after orbit reads, wrap_K, column assignment, copies) that TLC enumerates to 3 calls (reads, documented in-place changes, copies / slices / masks / pickles / file round trips) and ends in a read this property owns is replayed on a real object; at every read the answer is compared with a fresh twin on which only the content-changing calls were replayed - an answer may depend on the content only, never on the calls made before. Off the lattice single sources without reference epoch (t_ref=False, times from BMJD 0) are included."),
        design_ref="DESIGN.md section 3 C04",
        note=("Exhaustive on the lattice only; off the lattice explored on seeded random problems. twobody's KeplerOrbit is the independent orbit path. A failing identity would be attributed to a "
              "listed kernel finding only when the kernel's marginal or posterior state in the same trace was classified as that "
              "deviation (none is open)."),
        technique="TLA+ spec (Gauss) exact rationals checked with TLC; replay of TLC-enumerated structural points; total monitor; TLA+ spec (History) model-checked with TLC, TLC-enumerated call histories replayed on real objects against a fresh twin, validated by the HistoryTrace monitor",
    ),
    "C07": dict(
        category="model_checking",
        text=("Gauss is stated in physical units only, so every unit assignment of a configuration must project to the same exact "
              "matrices: each structural point is realised in 2 (thorough 3) random unit assignments - data km/s or m/s, every prior "
              "scale km/s or m/s, slopes per day or per year, period prior in d / 8 d / d/8 / yr / h, P0 in d / yr / 8 d / h, sample "
              "columns d/yr, rad/deg, km/s / m/s - and marginal state, value (incl. N ln ratio), posterior state, emitted columns and "
              "orbit are validated by TLC against the single physical specification; rejection_sample twins with equal seeds must "
              "accept the same rows, differ in ln-likelihood only by the Jacobian constant and return physically equal samples. Off "
              "the lattice seeded random real-valued problems are posed in random unit assignments (period prior in d / yr / h / 8 d) "
              "and compared with the unit-free floating-point transcription of the specification (quick 60, thorough 1500)."),
        design_ref="DESIGN.md section 3 C07",
        note=("Exhaustive on the lattice only; off the lattice explored on seeded random problems. The former finding KF_P0Unit (P0 in the "
              "period prior's unit) is repaired; its named deviation stays in the specification."),
        technique="TLA+ spec (Gauss) in physical units checked with TLC; replay of TLC-enumerated structural points under random unit assignments; total monitor",
    ),
    "C11": dict(
        category="model_checking",
        text=("The sampler's model is Gauss.Curve (Keplerian column, constant, offset columns of MultiSurvey, trend columns relative to "
              "t_ref) and the jitter-inflated Gaussian data term. For structural points TLC enumerates (poly_trend 1..3 x offsets 0..2 x "
              "K-prior kinds x jitter x e) with lattice values and random unit assignments (period prior in d / 8 d / d/8 / yr / h, velocity "
              "priors in km/s / m/s, slopes per day / year, angles rad / deg), setup_mcmc is run on the real prior; model_rv, the "
              "observed node's log-density and the ln_likelihood deterministic are compiled as functions of the prior's own variables "
              "and evaluated at the lattice point: the curve is compared exactly with the specification by TLC, both Gaussian terms "
              "with the certified curve; mcmc_init must be the chosen sample (median-period member for 3 / 5 rows in shuffled order) "
              "in the prior's units; every parameter of the prior must be a named variable of the returned model. Half of the eligible "
              "lattice priors are built through JokerPrior.default(sigma_v=...), uncertainties are declared in km/s or m/s "
              "independently of the velocities. Off the lattice model_rv, the observed node and the ln_likelihood deterministic are "
              "compared at random parameter points of seeded random real-valued problems with the TLC-certified floating-point "
              "transcription of Gauss.tla (independent Kepler solver; quick 16, thorough 240; 1e-6 relative). Every off-lattice problem also calls setup_mcmc a second time on the same model for another data set: the call must be refused or the model must describe that data (spec McmcModel, monitor McmcModelTrace: C11.SecondSetupOnTheSameModelDescribesItsOwnData)."),
        design_ref="DESIGN.md section 3 C11",
        note=("Exhaustive on the lattice only; off the lattice explored on seeded random problems. NOT decided: the prior term of the model's total log-density (pymc transforms / Jacobians); it is "
              "bound only structurally (the free variables are the prior's variables, whose densities are the declared ones)."),
        technique="TLA+ spec (Gauss.Curve) exact rationals checked with TLC; replay of TLC-enumerated structural points through setup_mcmc; total monitor",
    ),
    "C09": dict(
        category="model_checking",
        text=("STRUCTURAL SCOPE ONLY. PriorModel states, on a lattice of powers of two, the log-uniform draw map a (b/a)^u, the 1/x density "
              "(ratio law, support, normalisation), the K-scale rule min(sigma_K0 (P/P0)^(-1/3) (1-e^2)^(-1/2), max_K) with P0 in the "
              "period's unit, the Kipping Beta parameters and which parameters' densities make up ln_prior; TLC checks the lattice "
              "theorems (draws in support, log-flatness, ratio law, cap) and enumerates the cases. Each case is replayed: "
              "UniformLogRV.rng_fn under a scripted generator, exp(logp(x)-logp(a)) projected to a/x, -inf outside the support, "
              "x ln(b/a) p(x) = 1, the sigma graph of FixedCompanionMass at lattice (P, e) with P0 in d / yr / 8 d, Beta parameters "
              "read from the constructed variables, the declared mean of the K prior {0, 3, -2} km/s (location parameter and "
              "-2 (ln p(mu + z sigma) - ln p(mu)) = z^2), the trend / offset scales that reach the model for sigma_v declared in "
              "km/s/d^i, m/s/d^i or km/s/yr^i, and for prior.sample(return_logprobs=True) ln_prior[i] - sum_p logp_p(row_i | "
              "row_i's parents) constant over rows (uniform and Lognormal jitter priors) with every draw inside its support. "
              "The draw map is accepted in either direction (a (b/a)^u or b (b/a)^-u) and through uniform() or random(). Histories (spec/History.tla, HistoryMC, HistoryTrace): every history of calls on one prior object (the four generate_linear / return_logprobs combinations of prior.sample in every order) that TLC enumerates to 3 calls (reads, documented in-place changes, copies / slices / masks / pickles / file round trips) and ends in a read this property owns is replayed on a real object; at every read the answer is compared with a fresh twin on which only the content-changing calls were replayed - an answer may depend on the content only, never on the calls made before."),
        design_ref="DESIGN.md section 3 C09, section 4",
        note=("NOT decided: that numpy / pytensor Beta, Normal, uniform and angle samplers produce the distribution whose parameters they "
              "are given (no statistical test is made - TLC cannot decide distributional claims); the absolute normalisation of pymc's "
              "Beta / Normal densities; the uniform-angle prior of pymc_ext (it has no log-density; treated as a constant)."),
        technique="TLA+ spec (PriorModel) lattice theorems model-checked with TLC; replay of TLC-enumerated cases into the distribution classes; total monitor; TLA+ spec (History) model-checked with TLC, TLC-enumerated call histories replayed on real objects against a fresh twin, validated by the HistoryTrace monitor",
    ),
}

NOT_YET = "check not built yet (build in progress; see DESIGN.md section 7)"


def main():
    ids = [json.loads(l)["id"] for l in open(os.path.join(VERIF, "properties.jsonl"))]
    m = {
        "version": 1,
        "setup_cmd": "bin/setup",
        "hooks": {
            "guard": "THEJOKER_VERIF",
            "enable": ("no source hooks: observation goes through injected collaborators (recording Generator / pool / helper "
                       "subclasses) and harness-side interposition; the name THEJOKER_VERIF is reserved and unused"),
            "baseline_off_cmd": "cd /repo && /venv/bin/python -m pytest -ra -q -p no:cacheprovider --timeout=900 --continue-on-collection-errors",
            "source_commits": [],
            "add_only": True,
        },
        "engines": [
            {"name": "tlc", "path": "/usr/local/bin/tlc", "serves_properties": sorted(CHECKS),
             "kind_free_text": "TLC 1.8 explicit-state model checker; exhaustive MC_* configurations, -simulate, and batch trace validation of total monitor modules (spec/*Trace.tla)"},
        ],
        "checks": [],
        "notes": ("One TLA+ specification under spec/ (modules mirror the code's structure), checked by TLC and bound to the code by "
                  "replay (TLC-enumerated behaviours executed on the real code) and trace validation (recorded executions checked "
                  "by total monitors that print one verdict per trace). bin/check <id> --tier quick|thorough; exit 0/1/2."),
        "not_applicable": [],
    }
    for i in ids:
        if i in CHECKS:
            c = CHECKS[i]
            m["checks"].append({
                "property_id": i,
                "quick_cmd": "bin/check %s --tier quick" % i,
                "thorough_cmd": "bin/check %s --tier thorough" % i,
                "evidence_file": "evidence/%s.json" % i,
                "replay_cmd_template": "bin/check %s --replay {path}" % i,
                "engine": "tlc",
                "level_claimed": {"category": c["category"], "text": c["text"], "design_ref": c["design_ref"]},
                "level_note": c["note"],
                "technique": c["technique"],
            })
        else:
            m["not_applicable"].append({"property_id": i, "reason": NOT_YET})
    with open(os.path.join(VERIF, "MANIFEST.json"), "w") as f:
        json.dump(m, f, indent=1)
    print("MANIFEST.json written: %d checks, %d not_applicable" % (len(m["checks"]), len(m["not_applicable"])))


if __name__ == "__main__":
    main()
