"""Boundary interposition for crash-point enumeration (C13, DESIGN 2.3): harness-side only, nothing in /repo changes.
Inside `with interpose(rec):` the callables that thejoker's sampling functions reach are replaced, in thejoker's own
module namespaces, by counting proxies that call rec.tick(kind) first; rec.fault = (kind, k) makes the k-th call of
that kind raise collab.InjectedFault."""
import contextlib


class _ModProxy:
    """stands in for a module object (tb, h5py, np, os) inside one thejoker module; selected attributes are wrapped"""

    def __init__(self, real, wrapped):
        self.__dict__["_real"] = real
        self.__dict__["_wrapped"] = wrapped

    def __getattr__(self, name):
        w = self.__dict__["_wrapped"]
        if name in w:
            return w[name]
        return getattr(self.__dict__["_real"], name)


def _wrap(rec, kind, fn):
    def inner(*a, **k):
        rec.tick(kind)
        return fn(*a, **k)
    inner.__name__ = getattr(fn, "__name__", kind)
    inner.__wrapped_by_verif__ = True
    return inner


# kind -> model action (spec/SamplerFaults.tla); a kind observed without an entry here is a specification gap
KIND_TO_ACTION = {
    "make_helper": "MakeHelper", "tempfile": "CreateTmp", "write": "WriteCache", "write_dataset": "WriteCache", "write_h5file": "WriteCache",
    "mh_open_file": "Count", "mh_h5py": "CheckLnPrior", "contains": "CheckLnPrior",
    "choice": "ChooseOrder", "batch_tasks": "Partition", "map": "Map", "task": "RunTask",
    "read_batch": "RunTask", "utils_open_file": "RunTask", "utils_h5py": "RunTask", "kernel_ll": "RunTask",
    "kernel_draw": "RunLinearTask", "mvn": "RunLinearTask", "concatenate": "Concat", "uniform": "DrawU",
    "unpack": "Unpack", "pack": "Pack",
}
INMEM_ACTION = {"kernel_ll": "EvalAll", "kernel_draw": "DrawLinear", "mvn": "DrawLinear", "concatenate": "EvalAll"}


@contextlib.contextmanager
def interpose(rec):
    import h5py
    import numpy as np
    import tables as tb
    import thejoker.likelihood_helpers as lh
    import thejoker.multiproc_helpers as mh
    import thejoker.samples as sm
    import thejoker.utils as ut
    saved = []

    def patch(mod, name, new):
        # `new` may be a factory taking the current attribute; a name the module does not (or no longer) use is simply not a
        # crash point of this implementation (which helper creates the cache file, say, is not fixed by the property)
        if not hasattr(mod, name):
            return
        old = getattr(mod, name)
        saved.append((mod, name, old))
        setattr(mod, name, new(old) if getattr(new, "_factory", False) else new)

    def wrapping(kind):
        f = lambda old: _wrap(rec, kind, old)
        f._factory = True
        return f

    try:
        for nm in ("NamedTemporaryFile", "mkstemp", "mkdtemp", "TemporaryDirectory", "TemporaryFile", "mktemp"):
            patch(ut, nm, wrapping("tempfile"))
        if hasattr(ut, "tempfile"):
            import tempfile as _tf
            patch(ut, "tempfile", _ModProxy(_tf, {nm: _wrap(rec, "tempfile", getattr(_tf, nm)) for nm in
                                                  ("NamedTemporaryFile", "mkstemp", "mkdtemp", "TemporaryDirectory", "mktemp")}))
        patch(sm, "write_table_hdf5", wrapping("write"))
        # ... and INSIDE the cache write: the file exists and is half written when a dataset cannot be created (disk full, a value
        # HDF5 cannot store); what the writer does about its own failure must not hide it from the caller
        patch(h5py.Group, "create_dataset", wrapping("write_dataset"))
        # (the writer opens the file through the h5py module itself; the proxies above keep the real class, so only that open -
        # and astropy's own - is counted here.  A subclass, not a function: the writer asks isinstance(output, h5py.File))
        real_file = h5py.File

        class _CountingFile(real_file):
            def __init__(self, *a, **k):
                rec.tick("write_h5file")
                super().__init__(*a, **k)
        _CountingFile.__name__ = "File"
        patch(h5py, "File", _CountingFile)
        patch(mh, "tb", _ModProxy(tb, {"open_file": _wrap(rec, "mh_open_file", tb.open_file)}))
        patch(mh, "h5py", _ModProxy(h5py, {"File": _wrap(rec, "mh_h5py", h5py.File)}))
        patch(mh, "table_contains_column", wrapping("contains"))
        patch(mh, "batch_tasks", wrapping("batch_tasks"))
        patch(mh, "read_batch", wrapping("read_batch"))
        patch(ut, "tb", _ModProxy(tb, {"open_file": _wrap(rec, "utils_open_file", tb.open_file)}))
        patch(ut, "h5py", _ModProxy(h5py, {"File": _wrap(rec, "utils_h5py", h5py.File)}))
        patch(mh, "np", _ModProxy(np, {"concatenate": _wrap(rec, "concatenate", np.concatenate)}))
        patch(lh, "np", _ModProxy(np, {"concatenate": _wrap(rec, "concatenate", np.concatenate)}))
        real_unpack = sm.JokerSamples.__dict__["unpack"].__func__
        patch(sm.JokerSamples, "unpack", classmethod(lambda cls, *a, **k: (rec.tick("unpack"), real_unpack(cls, *a, **k))[1]))
        real_pack = sm.JokerSamples.pack
        patch(sm.JokerSamples, "pack", lambda self, *a, **k: (rec.tick("pack"), real_pack(self, *a, **k))[1])
        yield
    finally:
        for mod, name, old in reversed(saved):
            setattr(mod, name, old)
