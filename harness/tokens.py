"""Token encodings (DESIGN 2.4): floats never reach TLC; order tokens are exact."""
import hashlib
import struct

import numpy as np

NAN = [-2, 0, 0]


def ord_token(x):
    """IEEE-754 double -> order-preserving 64-bit key split into limbs <<20, 22, 22 bits>>; NaN -> <<-2,0,0>>."""
    x = float(x)
    if x != x:
        return list(NAN)
    if x == 0.0:
        x = 0.0
    b = struct.unpack("<Q", struct.pack("<d", x))[0]
    key = (~b & 0xFFFFFFFFFFFFFFFF) if (b >> 63) else (b | (1 << 63))
    return [key >> 44, (key >> 22) & 0x3FFFFF, key & 0x3FFFFF]


def ord_tokens(a):
    return [ord_token(v) for v in np.asarray(a, dtype=float).ravel()]


ONE = ord_token(1.0)
ZERO = ord_token(0.0)


def bits_hash(*arrays):
    h = hashlib.sha256()
    for a in arrays:
        h.update(np.ascontiguousarray(np.asarray(a, dtype=np.float64)).tobytes())
    return h.hexdigest()[:16]


def file_sha(path):
    h = hashlib.sha256()
    with open(path, "rb") as f:
        for blk in iter(lambda: f.read(1 << 20), b""):
            h.update(blk)
    return h.hexdigest()
