"""Recording / scripting collaborators injected through thejoker's public API (DESIGN 2.3): no source hooks.

RecGen   - numpy Generator subclass passed as rng=: records every draw, can script uniforms / choice
RecPool  - pool (.map/.close/.size) passed as pool=: records task tuples, runs them in a chosen order, injects faults
make_rec_helper - Python subclass of the (compiled or shim) CJokerHelper: records kernel calls, injects ll values
"""
import hashlib
import os
import random

import numpy as np

from . import tokens


def _state_hash(bitgen):
    return hashlib.sha256(repr(bitgen.state).encode()).hexdigest()[:12]


def stream_id(gen):
    ss = gen.bit_generator.seed_seq
    return {"entropy": str(ss.entropy), "key": [int(k) for k in ss.spawn_key]}


class Recorder:
    """shared event log of one API call (or one history)"""

    def __init__(self):
        self.events = []
        self.evaluated = []      # library ids in evaluation order (from RecHelper)
        self.decode = None       # function: packed chunk -> library ids
        self.uclass = None       # function(list of lib ids at positions, n) -> array of uniforms or None
        self.choice_script = None
        self.choice_script_used = False     # the scripted order / uniforms actually reached the sampler (else a replay does not apply)
        self.uscript_used = False
        self.inject = {}         # lib id -> forced ll value
        self.fault = None        # (kind, k) raise at the k-th call of kind
        self.counts = {}
        self.mvn = False         # record multivariate_normal arguments
        self.current_task = 0
        self.task_buf = {}
        self.unparsed = False    # a pool call whose tasks could not be read: the API call's inside is not observable

    def emit(self, ev, **kw):
        kw["ev"] = ev
        self.events.append(kw)

    def tick(self, kind):
        self.counts[kind] = self.counts.get(kind, 0) + 1
        if self.fault and self.fault[0] == kind and self.fault[1] == self.counts[kind]:
            marker = getattr(self, "fault_marker", None)      # lets the parent see that the fault fired inside a worker process
            if marker:
                try:
                    open(marker + ".%d" % os.getpid(), "w").close()
                except OSError:
                    pass
            if len(self.fault) > 2 and self.fault[2] == "interrupt":
                raise InjectedInterrupt("injected at %s #%d" % self.fault[:2])
            raise InjectedFault("injected at %s #%d" % self.fault[:2])


class InjectedFault(Exception):
    pass


class InjectedInterrupt(KeyboardInterrupt):
    """a failure that is not an Exception subclass (Ctrl-C, SystemExit from a worker, ...)"""


class RecGen(np.random.Generator):
    """Generator that records parent draws.  Construct with RecGen.make(seed, recorder)."""

    @classmethod
    def make(cls, seed, rec, label="parent"):
        g = cls(np.random.PCG64(seed))
        g._rec = rec
        g._label = label
        return g

    _depth = 0

    def _log(self, method, **kw):
        if self._depth > 1:      # a draw made by numpy inside another recorded draw (e.g. mvn -> standard_normal)
            return
        self._rec.emit("Draw", stream=self._label, sid=stream_id(self), method=method, **kw)

    def uniform(self, low=0.0, high=1.0, size=None):
        self._depth += 1
        try:
            return self._uniform(low, high, size)
        finally:
            self._depth -= 1

    def _uniform(self, low=0.0, high=1.0, size=None):
        if self._depth > 1:
            return super().uniform(low, high, size)
        self._rec.tick("uniform")
        before = _state_hash(self.bit_generator)
        u = super().uniform(low, high, size)          # always advance the real stream
        if self._rec.uclass is not None and size is not None:
            n = int(size) if np.ndim(size) == 0 else int(size[0])
            s = self._rec.uclass(list(self._rec.evaluated), n, np.asarray(u, dtype=float))
            if s is not None:
                if len(self._rec.evaluated) == n:
                    self._rec.uscript_used = True
                u = np.asarray(s, dtype=float)
        self._log("uniform", n=int(np.size(u)), u=tokens.ord_tokens(u), before=before, after=_state_hash(self.bit_generator))
        return u

    def choice(self, a, size=None, replace=True, p=None, axis=0, shuffle=True):
        self._depth += 1
        try:
            return self._choice(a, size, replace, p, axis, shuffle)
        finally:
            self._depth -= 1

    def _choice(self, a, size=None, replace=True, p=None, axis=0, shuffle=True):
        if self._depth > 1:
            return super().choice(a, size=size, replace=replace, p=p, axis=axis, shuffle=shuffle)
        self._rec.tick("choice")
        before = _state_hash(self.bit_generator)
        r = super().choice(a, size=size, replace=replace, p=p, axis=axis, shuffle=shuffle)
        if self._rec.choice_script is not None:
            r = np.asarray(self._rec.choice_script(a, size), dtype=r.dtype)
            self._rec.choice_script_used = True
        self._log("choice", a=int(a) if np.ndim(a) == 0 else int(len(a)), n=int(np.size(r)), replace=bool(replace),
                  result=[int(x) for x in np.atleast_1d(r)], before=before, after=_state_hash(self.bit_generator))
        return r

    def multivariate_normal(self, mean, cov, size=None, **kw):
        self._depth += 1
        try:
            return self._mvn(mean, cov, size, **kw)
        finally:
            self._depth -= 1

    def _mvn(self, mean, cov, size=None, **kw):
        if self._depth > 1:
            return super().multivariate_normal(mean, cov, size=size, **kw)
        self._rec.tick("mvn")
        before = _state_hash(self.bit_generator)
        r = super().multivariate_normal(mean, cov, size=size, **kw)
        self._log("mvn", n=int(np.size(r)), before=before, after=_state_hash(self.bit_generator),
                  **({"mean": [float(x) for x in mean], "cov": np.asarray(cov, dtype=float).tolist(), "size": size} if self._rec.mvn else {}))
        return r

    def _passthrough(self, name, a, k):
        self._depth += 1
        try:
            before = _state_hash(self.bit_generator)
            r = getattr(super(), name)(*a, **k)
            self._log(name, n=int(np.size(r)) if r is not None else 1, before=before, after=_state_hash(self.bit_generator))
            return r
        finally:
            self._depth -= 1

    def random(self, size=None, dtype=np.float64, out=None):
        # rng.random(n) and rng.uniform(size=n) are the same flat variates: recorded (and scripted) alike
        if out is not None or dtype is not np.float64:
            return self._passthrough("random", (size, dtype, out), {})
        return self.uniform(0.0, 1.0, size)

    def normal(self, *a, **k):
        return self._passthrough("normal", a, k)

    def integers(self, *a, **k):
        return self._passthrough("integers", a, k)

    def permutation(self, x, axis=0):
        # a shuffled evaluation order drawn as a permutation: recorded (and scripted) like choice(n, n, replace=False)
        if self._depth > 0 or np.ndim(x) != 0:
            return self._passthrough("permutation", (x, axis), {})
        self._depth += 1
        try:
            self._rec.tick("choice")
            before = _state_hash(self.bit_generator)
            r = super().permutation(x, axis)
            if self._rec.choice_script is not None:
                r = np.asarray(self._rec.choice_script(x, int(x)), dtype=r.dtype)
                self._rec.choice_script_used = True
            self._log("choice", a=int(x), n=int(np.size(r)), replace=False, result=[int(v) for v in np.atleast_1d(r)],
                      before=before, after=_state_hash(self.bit_generator))
            return r
        finally:
            self._depth -= 1

    def shuffle(self, *a, **k):
        return self._passthrough("shuffle", a, k)

    def standard_normal(self, *a, **k):
        return self._passthrough("standard_normal", a, k)

    def spawn(self, n_children):
        # Generator.spawn would build children of type(self) - recording generators without a recorder.  Children are plain
        # generators over the spawned bit generators (what they are handed to, and what they draw, is seen by the pool / helper).
        return [np.random.Generator(bg) for bg in self.bit_generator.spawn(n_children)]

    def beta(self, *a, **k):
        return self._passthrough("beta", a, k)


class ChildProxy:
    """wraps a child Generator handed to a worker: records the stream identity and its draws"""

    def __init__(self, gen, rec, task_no):
        self._g = gen
        self._rec = rec
        self._task = task_no

    def multivariate_normal(self, mean, cov, size=None, **kw):
        self._rec.tick("mvn")
        before = _state_hash(self._g.bit_generator)
        r = self._g.multivariate_normal(mean, cov, size=size, **kw)
        extra = {}
        if self._rec.mvn:
            extra = {"mean": [float(x) for x in mean], "cov": np.asarray(cov, dtype=float).tolist(), "size": size}
        self._rec.emit("Draw", stream="child", sid=stream_id(self._g), method="mvn", task=self._task, n=int(np.size(r)),
                       before=before, after=_state_hash(self._g.bit_generator), **extra)
        return r

    def __getattr__(self, name):
        return getattr(self._g, name)


def parse_task(t):
    """What a pool task says about the rows it covers, whatever its container: the row selection ((lo, hi) pair or integer index
    array), the task's start index, and the child generator if it carries one.  Fields are found by TYPE (and, for named tuples, by
    telling field names) - not by position.  Returns None when the task cannot be understood (the call is then treated as one whose
    inside cannot be observed, like a call run by worker processes)."""
    try:
        items = list(t._asdict().items()) if hasattr(t, "_asdict") else list(enumerate(t))
    except TypeError:
        return None
    sel = rng = None
    ints = []
    for key, v in items:
        if isinstance(v, np.random.Generator):
            if rng is None:
                rng = (key, v)
        elif isinstance(v, tuple) and len(v) == 2 and all(isinstance(x, (int, np.integer)) and not isinstance(x, bool) for x in v):
            if sel is None:
                sel = (key, "range", v)
        elif isinstance(v, (np.ndarray, list)) and np.ndim(v) == 1 and len(v) > 0 and np.issubdtype(np.asarray(v).dtype, np.integer):
            if sel is None:
                sel = (key, "idx", v)
        elif isinstance(v, (int, np.integer)) and not isinstance(v, bool):
            ints.append((key, int(v)))
    if sel is None or not ints:
        return None
    named = [iv for iv in ints if isinstance(iv[0], str) and iv[0].lower() in ("start", "start_idx", "first", "task_id", "offset", "i0")]
    start = (named or ints)[0][1]
    d = {"start": start, "len": len(items)}
    if sel[1] == "range":
        d["kind"] = "range"
        d["lo"], d["hi"] = int(sel[2][0]), int(sel[2][1])
        d["sel"] = list(range(d["lo"] + 1, d["hi"] + 1))
    else:
        d["kind"] = "idx"
        d["sel"] = [int(x) + 1 for x in np.asarray(sel[2])]
    return d, rng


def replace_field(t, key, value):
    if hasattr(t, "_replace") and isinstance(key, str):
        return t._replace(**{key: value})
    lst = list(t)
    lst[key] = value
    return type(t)(lst) if isinstance(t, (tuple, list)) and not hasattr(t, "_fields") else tuple(lst)


class RecPool:
    def __init__(self, rec, size=1, order_seed=0, wrap_children=True):
        self.rec = rec
        self.size = size
        self._rnd = random.Random(order_seed)
        self.wrap_children = wrap_children
        self.ncalls = 0
        self.closed = False
        self.watch = None      # callable returning fs observation dict, called while tasks run

    def map(self, worker, tasks):
        if self.closed:        # like a real pool: the caller's pool must not be closed by the library
            raise ValueError("Pool not running")
        self.rec.tick("map")
        tasks = list(tasks)
        self.ncalls += 1
        desc = []
        new_tasks = []
        parsed = [parse_task(t) for t in tasks]
        if any(p is None for p in parsed):
            # tasks this harness cannot read: run them as they are; the call's inside counts as not observable
            self.rec.unparsed = True
            return [worker(t) for t in tasks]
        has_rng = False
        for k, (t, (d, rng)) in enumerate(zip(tasks, parsed)):
            if rng is not None:
                has_rng = True
                d["child"] = stream_id(rng[1])
                if self.wrap_children:
                    t = replace_field(t, rng[0], ChildProxy(rng[1], self.rec, k + 1))
            desc.append(d)
            new_tasks.append(t)
        fs = self.watch() if self.watch else {}
        # the kind of work is told by what the tasks carry (a generator: linear-parameter draws), not by the worker's name
        kind = "make_full_samples_worker" if has_rng else "marginal_ln_likelihood_worker"
        self.rec.emit("Map", call=self.ncalls, worker=kind, worker_name=getattr(worker, "__name__", str(worker)), tasks=desc, fs=fs)
        order = list(range(len(new_tasks)))
        self._rnd.shuffle(order)
        res = [None] * len(new_tasks)
        self.rec.task_buf = {}
        try:
            for k in order:
                self.rec.tick("task")
                self.rec.current_task = k + 1
                self.rec.emit("TaskBegin", call=self.ncalls, task=k + 1)
                res[k] = worker(new_tasks[k])
                self.rec.emit("TaskEnd", call=self.ncalls, task=k + 1, n=int(len(res[k])))
        finally:
            self.rec.current_task = 0
            # what the sampler sees is the concatenation in TASK order, whatever the execution order was
            for k in sorted(self.rec.task_buf):
                ids, lls = self.rec.task_buf[k]
                self.rec.evaluated.extend(ids)
                if hasattr(self.rec, "ll_values"):
                    self.rec.ll_values.extend(lls)
            self.rec.task_buf = {}
        return res

    def close(self):
        self.closed = True


_helper_cls = None


def make_rec_helper_class():
    """Python subclass of the real CJokerHelper (compiled extension type or shim class)."""
    global _helper_cls
    if _helper_cls is not None:
        return _helper_cls
    from thejoker.src.fast_likelihood import CJokerHelper

    class RecHelper(CJokerHelper):
        def batch_marginal_ln_likelihood(self, chunk):
            rec = getattr(self, "_rec", None)
            if rec is None:
                return CJokerHelper.batch_marginal_ln_likelihood(self, chunk)
            rec.tick("kernel_ll")
            ll = np.array(CJokerHelper.batch_marginal_ln_likelihood(self, chunk))
            ids = rec.decode(np.asarray(chunk)) if rec.decode else []
            if rec.inject:
                for j, i in enumerate(ids):
                    if i in rec.inject:
                        ll[j] = rec.inject[i]
            task = getattr(rec, "current_task", 0)
            if task:
                b = rec.task_buf.setdefault(task, ([], []))
                b[0].extend(ids)
                b[1].extend(float(x) for x in ll)
            else:
                rec.evaluated.extend(ids)
                if hasattr(rec, "ll_values"):
                    rec.ll_values.extend(float(x) for x in ll)
            rec.emit("Eval", rows=[int(i) for i in ids], ll=tokens.ord_tokens(ll), helper=id(self) % 100000,
                     _llv=[float(x) for x in ll], task=task)
            return ll

        def batch_get_posterior_samples(self, chunk, n_linear_samples_per, rng):
            rec = getattr(self, "_rec", None)
            if rec is None:
                return CJokerHelper.batch_get_posterior_samples(self, chunk, n_linear_samples_per, rng)
            rec.tick("kernel_draw")
            ids = rec.decode(np.asarray(chunk)) if rec.decode else []
            sid = None
            g = getattr(rng, "_g", rng)
            if isinstance(g, np.random.Generator):
                sid = stream_id(g)
            rec.emit("DrawLinear", rows=[int(i) for i in ids], nlinear=int(n_linear_samples_per), sid=sid,
                     parent=isinstance(rng, RecGen))
            return CJokerHelper.batch_get_posterior_samples(self, chunk, n_linear_samples_per, rng)

    _helper_cls = RecHelper
    return RecHelper


_current_rec = [None]


def install_helper_factory(joker, rec):
    """make `joker` build RecHelper objects bound to `rec` (patches the instance, not the repository).  Preferred hook: the
    instance's _make_joker_helper; if TheJoker has no such method (renamed / inlined), the name CJokerHelper in thejoker.thejoker's
    namespace is pointed at a recording subclass that binds itself to the current recorder; if neither exists the session's
    evaluations are simply not observable."""
    from thejoker.data_helpers import validate_prepare_data
    cls = make_rec_helper_class()
    if hasattr(type(joker), "_make_joker_helper"):
        def _make(data):
            rec.tick("make_helper")
            all_data, ids, trend_M = validate_prepare_data(data, joker.prior.poly_trend, joker.prior.n_offsets)
            h = cls(all_data, joker.prior, trend_M)
            h._rec = rec
            return h
        joker._make_joker_helper = _make
        return "method"
    import thejoker.thejoker as tjm
    if hasattr(tjm, "CJokerHelper"):
        _current_rec[0] = rec

        class Bound(cls):
            def __init__(self, *a, **k):
                r = _current_rec[0]
                if r is not None:
                    r.tick("make_helper")
                cls.__init__(self, *a, **k)
                self._rec = r
        tjm.CJokerHelper = Bound
        return "class"
    return None


def make_helper(joker, data):
    """a plain likelihood helper for (joker.prior, data), the way TheJoker makes it"""
    if hasattr(joker, "_make_joker_helper"):
        return joker._make_joker_helper(data)
    from thejoker.data_helpers import validate_prepare_data
    from thejoker.src.fast_likelihood import CJokerHelper
    all_data, ids, trend_M = validate_prepare_data(data, joker.prior.poly_trend, joker.prior.n_offsets)
    return CJokerHelper(all_data, joker.prior, trend_M)
