"""Replay driver of spec/History.tla: one real object (JokerSamples / RVData / JokerPrior) is taken through a history of calls TLC
enumerated; at every READ the answer of the used object is compared with the answer of a FRESH TWIN - a new object built from
pristine copies of the construction inputs on which only the content-changing calls (History.ContentOf) were replayed.

The alphabets are the ones of History.tla (the monitor HistoryTrace rejects a call outside them and a twin that was not built from
the content as a machinery failure).  Which listed property a read belongs to is decided by the monitor (History.Owner)."""
import copy
import io
import os
import pickle
import random
import tempfile

import numpy as np

KINDS = {
    "samples": {"reads": ["orbit", "t0", "phase1", "pack", "packU", "median", "mean", "map", "gapA", "gapB", "coverA", "spanA", "unimodal", "unmarg"],
                "muts": ["wrapK", "setK", "setLL", "setP"], "derivs": ["copy", "slice2", "mask", "pickle", "roundtrip"]},
    "data": {"reads": ["t", "rv", "ivar", "tref", "phase", "trend", "merge", "series", "plot", "plotrel"], "muts": [],
             "derivs": ["copy", "slice", "mask", "pickle", "rebuild"]},
    "prior": {"reads": ["s00", "s01", "s10", "s11", "shape", "touch"], "muts": [], "derivs": []},
    "sampler": {"reads": ["mA", "mAf", "mB", "mBm", "bad"], "muts": [], "derivs": [], "draws": ["rA", "rAm", "rB", "iA"]},
}
# mirror of History.Owner, used ONLY to choose which histories a property's check replays (the verdict's owner is the monitor's)
OWNER = {"samples": {"map": "C19", "gapA": "C19", "gapB": "C19", "coverA": "C19", "spanA": "C19", "unimodal": "C19", "unmarg": "C04"},
         "data": {}, "prior": {"shape": "C18", "touch": "C18"}, "sampler": {"mA": "C05", "mAf": "C05", "mB": "C05", "mBm": "C05", "bad": "C18"}}
DEFAULT_OWNER = {"samples": "C17", "data": "C15", "prior": "C09", "sampler": "C10"}
T0 = 55000.0


def owner(kind, r):
    return OWNER[kind].get(r, DEFAULT_OWNER[kind])


TRANSPARENT = {"samples": ("copy", "pickle", "roundtrip"), "data": ("copy", "pickle"), "prior": (), "sampler": ()}     # History.TransparentOf
RESETS = {"data": ("rebuild",)}                                                                                       # History.ResetsOf


def cls_of(kind, op):
    k = KINDS[kind]
    return ("read" if op in k["reads"] else "mut" if op in k["muts"] else "deriv" if op in k["derivs"] else
            "draw" if op in k.get("draws", ()) else "unknown")


# ----------------------------------------------------------------------------------------------------------------- values
def _norm(v):
    """a comparable rendering of whatever a read returned"""
    import astropy.units as u
    from astropy.time import Time
    if isinstance(v, Time):
        return ("time", np.atleast_1d(np.asarray(v.tcb.mjd, dtype=float)))
    if isinstance(v, u.Quantity):
        return ("q", v.unit.to_string(), np.atleast_1d(np.asarray(v.value, dtype=float)))
    if isinstance(v, (list, tuple)):
        return tuple(_norm(x) for x in v)
    if isinstance(v, dict):
        return tuple((k, _norm(v[k])) for k in sorted(v))
    if isinstance(v, np.ndarray):
        return np.asarray(v, dtype=float) if v.dtype.kind in "fiub" else tuple(str(x) for x in v.ravel())
    if isinstance(v, (float, np.floating, int, np.integer, bool, np.bool_)):
        return np.asarray([float(v)])
    return v


def same(a, b):
    if isinstance(a, np.ndarray) or isinstance(b, np.ndarray):
        if not (isinstance(a, np.ndarray) and isinstance(b, np.ndarray)) or a.shape != b.shape:
            return False
        return bool(np.allclose(a, b, rtol=1e-11, atol=1e-13, equal_nan=True))
    if isinstance(a, tuple) or isinstance(b, tuple):
        return isinstance(a, tuple) and isinstance(b, tuple) and len(a) == len(b) and all(same(x, y) for x, y in zip(a, b))
    return a == b


def _guard(f):
    try:
        return _norm(f())
    except Exception as ex:      # an exception is an answer too: the twin must raise the same kind
        return ("raise", type(ex).__name__)


def brief(v):
    if isinstance(v, np.ndarray):
        return [round(float(x), 6) for x in v.ravel()[:6]]
    if isinstance(v, tuple):
        return [brief(x) for x in v[:4]]
    return v


# ----------------------------------------------------------------------------------------------------------------- samples
class SamplesKind:
    kind = "samples"

    SCALAR = ("gapA", "gapB", "coverA", "spanA")       # diagnostics of ONE sample: the table has a single row when the history asks for one

    def inputs(self, seed, workdir, script=()):
        import astropy.units as u
        from astropy.time import Time
        from thejoker import RVData
        g = np.random.default_rng(1000 + seed)
        n = 1 if any(o in self.SCALAR for o in script) else 5
        poly = 1 + (seed % 2)
        ku = [u.km / u.s, u.m / u.s][(seed // 2) % 2]
        au = [u.rad, u.deg][(seed // 3) % 2]
        K = g.uniform(1.0, 5.0, n) * np.where(g.random(n) < 0.5, -1.0, 1.0)
        K[0] = -abs(K[0])
        cols = {"P": g.uniform(5.0, 50.0, n) * u.day, "e": g.uniform(0.0, 0.6, n),
                "omega": (g.uniform(0, 2 * np.pi, n) * u.rad).to(au), "M0": (g.uniform(0, 2 * np.pi, n) * u.rad).to(au),
                "s": (np.full(n, 0.3) * u.km / u.s).to(ku), "K": (K * u.km / u.s).to(ku), "v0": (g.normal(0, 3, n) * u.km / u.s).to(ku)}
        if poly == 2:
            cols["v1"] = (g.normal(0, 0.01, n) * u.km / u.s / u.day).to(ku / u.day)
        cols["ln_prior"] = g.normal(-5, 2, n)
        cols["ln_likelihood"] = g.normal(-20, 4, n)
        tA = np.sort(g.uniform(0, 60, 9))
        rvA = g.normal(0, 4, 9)
        tref = Time(T0 + 0.25, format="mjd", scale="tcb")
        mk = lambda sl: RVData(t=Time(T0 + tA[sl], format="mjd", scale="tcb"), rv=rvA[sl] * u.km / u.s,
                               rv_err=np.full(len(tA[sl]), 0.5) * u.km / u.s, t_ref=tref)
        return {"cols": cols, "n": n, "poly": poly, "tref": tref, "dataA": lambda: mk(slice(None)), "dataB": lambda: mk(slice(0, 5)),
                "workdir": workdir, "seed": seed}

    def make(self, inp, pristine):
        from thejoker import JokerSamples
        s = JokerSamples(t_ref=inp["tref"], poly_trend=inp["poly"])
        for k, v in inp["cols"].items():
            s[k] = copy.deepcopy(v)
        return s

    def apply(self, obj, op, inp):
        import astropy.units as u
        from astropy.time import Time
        from thejoker import JokerSamples
        from thejoker import samples_analysis as sa
        n = len(obj)
        if op == "orbit":
            tt = Time(T0 + np.array([0.0, 1.3, 2.9, 7.7, 31.1]), format="mjd", scale="tcb")
            return obj, _guard(lambda: np.array([obj.get_orbit(k).radial_velocity(tt).to_value(u.km / u.s) for k in range(n)]))
        if op == "t0":
            return obj, _guard(lambda: obj.get_t0())
        if op == "phase1":
            return obj, _guard(lambda: obj.get_time_with_phase(1.0 * u.rad))
        if op == "pack":
            return obj, _guard(lambda: (obj.pack(nonlinear_only=False)[0], [str(x) for x in obj.pack(nonlinear_only=False)[1].values()]))
        if op == "packU":      # the same columns asked for in other units
            def f():
                uu = {"P": u.yr, "e": u.one, "omega": u.deg, "M0": u.rad, "s": u.m / u.s, "K": u.m / u.s, "v0": u.km / u.s}
                arr, un = obj.pack(units=uu, nonlinear_only=False)
                return (arr, [str(x) for x in un.values()])
            return obj, _guard(f)
        if op == "median":
            return obj, _guard(lambda: obj.median_period()["P"])
        if op == "mean":
            return obj, _guard(lambda: (obj.mean()["P"], obj.mean()["K"]))
        if op == "map":
            def f():
                row, idx = sa.MAP_sample(obj, return_index=True)
                return (row["P"], int(idx))
            return obj, _guard(f)
        if op in ("gapA", "gapB"):
            d = inp["dataA"]() if op == "gapA" else inp["dataB"]()
            return obj, _guard(lambda: sa.max_phase_gap(obj, d))
        if op == "coverA":
            return obj, _guard(lambda: sa.phase_coverage(obj, inp["dataA"]()))
        if op == "spanA":
            return obj, _guard(lambda: sa.periods_spanned(obj, inp["dataA"]()))
        if op == "unimodal":
            return obj, _guard(lambda: bool(sa.is_P_unimodal(obj, inp["dataA"]())))
        if op == "unmarg":
            return obj, _guard(lambda: obj.ln_unmarginalized_likelihood(inp["dataA"]()))
        if op == "wrapK":
            obj.wrap_K()
            return obj, None
        if op == "setK":
            obj["K"] = 3 * obj["K"]
            return obj, None
        if op == "setLL":
            ll = np.asarray(obj["ln_likelihood"], dtype=float)
            obj["ln_likelihood"] = ll[::-1] - 0.37 * np.arange(len(ll)) ** 2 - 7.5 * (ll > np.median(ll))
            return obj, None
        if op == "setP":
            obj["P"] = obj["P"] * 1.7
            return obj, None
        if op == "copy":
            return obj.copy(), None
        if op == "slice2":
            return obj[::2], None
        if op == "mask":
            m = np.ones(n, dtype=bool)
            if n > 1:
                m[1] = False
            return obj[m], None
        if op == "pickle":
            return pickle.loads(pickle.dumps(obj)), None
        if op == "roundtrip":
            fd, path = tempfile.mkstemp(suffix=".hdf5", dir=inp["workdir"])
            os.close(fd)
            try:
                obj.write(path, overwrite=True)
                return JokerSamples.read(path), None
            finally:
                os.unlink(path)
        raise KeyError(op)


# ----------------------------------------------------------------------------------------------------------------- data
class DataKind:
    kind = "data"

    def inputs(self, seed, workdir, script=()):
        import astropy.units as u
        from astropy.time import Time
        g = np.random.default_rng(2000 + seed)
        n = 8
        variant = seed % 4
        t = T0 + g.permutation(np.round(g.uniform(0, 80, n), 3))        # unsorted on purpose
        rv = g.normal(0, 5, n) * u.km / u.s
        if variant == 3:
            A = g.normal(0, 0.3, (n, n))
            err = (A @ A.T + np.eye(n) * 0.5) * (u.km / u.s) ** 2
        else:
            err = g.uniform(0.2, 1.0, n) * u.km / u.s
        tin = t if variant in (0, 3) else Time(t, format="mjd", scale="tcb" if variant == 1 else "utc")
        tref = [None, Time(T0 + 1.5, format="mjd", scale="tcb"), False][seed % 3]
        return {"t": tin, "rv": rv, "err": err, "tref": tref, "clean": variant == 2, "seed": seed, "workdir": workdir, "script": tuple(script)}

    def make(self, inp, pristine):
        from thejoker import RVData
        return RVData(t=inp["t"], rv=inp["rv"], rv_err=inp["err"], t_ref=inp["tref"], clean=inp["clean"])

    def _other(self):
        import astropy.units as u
        from astropy.time import Time
        from thejoker import RVData
        return RVData(t=Time(T0 + 100 + np.arange(4.0), format="mjd", scale="tcb"), rv=np.arange(4.0) * u.km / u.s,
                      rv_err=np.full(4, 0.4) * u.km / u.s)

    def apply(self, obj, op, inp):
        import astropy.units as u
        if op == "t":
            return obj, _guard(lambda: obj.t)
        if op == "rv":
            return obj, _guard(lambda: obj.rv)
        if op == "ivar":
            return obj, _guard(lambda: (obj.ivar, obj.rv_err))
        if op == "tref":
            return obj, _guard(lambda: obj.t_ref)
        if op == "phase":
            return obj, _guard(lambda: obj.phase(P=7.3 * u.day))
        if op == "trend":       # the design matrix of a linear trend: epochs relative to the reference epoch the kernel will use
            def f():
                from thejoker.data_helpers import validate_prepare_data
                d, ids, M = validate_prepare_data(obj, 2, 0)
                return (d.t, np.asarray(M, dtype=float))
            return obj, _guard(f)
        if op == "merge":
            def f():
                from thejoker.data_helpers import validate_prepare_data
                d, ids, M = validate_prepare_data([obj, self._other()], 1, 1)
                return (d.t, d.rv, d.t_ref, np.asarray(ids, dtype=float), np.asarray(M, dtype=float))
            return obj, _guard(f)
        if op == "series":
            def f():
                ts = obj.to_timeseries()
                return (ts.time, ts["rv"], sorted(str(k) for k in ts.meta))
            return obj, _guard(f)
        if op in ("plot", "plotrel"):
            def f():
                import matplotlib
                matplotlib.use("Agg")
                import matplotlib.pyplot as plt
                fig, ax = plt.subplots()
                try:
                    obj.plot(ax=ax, relative_to_t_ref=(op == "plotrel"))
                    line = ax.lines[0] if ax.lines else None
                    return "drawn"
                finally:
                    plt.close(fig)
            return obj, _guard(f)
        if op == "copy":
            return obj.copy(), None
        if op == "slice":
            return obj[1:], None
        if op == "mask":
            m = np.ones(len(obj), dtype=bool)
            m[0] = False
            m[len(obj) // 2] = False
            return obj[m], None
        if op == "pickle":
            return pickle.loads(pickle.dumps(obj)), None
        if op == "rebuild":
            # the used object: a second RVData from the arrays the caller still holds; the twin: from arrays nobody has touched
            return self.make(self.inputs(inp["seed"], inp["workdir"], inp["script"]) if inp.get("pristine") else inp, False), None
        raise KeyError(op)


# ----------------------------------------------------------------------------------------------------------------- prior
class PriorKind:
    kind = "prior"

    def inputs(self, seed, workdir, script=()):
        # histories in which the caller touches its list of offset priors are run on a prior that has one
        return {"seed": seed, "variant": 3 if "touch" in script else seed % 3, "offsets": []}

    def make(self, inp, pristine):
        import astropy.units as u
        import thejoker as tj
        v = inp["variant"]
        if v == 0:
            return tj.JokerPrior.default(P_min=2 * u.day, P_max=200 * u.day, sigma_K0=30 * u.km / u.s, sigma_v=50 * u.km / u.s)
        if v == 1:
            return tj.JokerPrior.default(P_min=1 * u.day, P_max=50 * u.day, sigma_K0=20 * u.km / u.s, P0=30 * u.day,
                                         sigma_v=[40 * u.km / u.s, 0.5 * u.km / u.s / u.day], poly_trend=2)
        if v == 3:
            import pymc as pm
            import thejoker.units as xu
            with pm.Model() as m:
                inp["model"] = m
                inp["offsets"].append(xu.with_unit(pm.Normal("dv0_1", 0.0, 5.0), u.km / u.s))
                return tj.JokerPrior.default(P_min=2 * u.day, P_max=300 * u.day, sigma_K0=25 * u.km / u.s, sigma_v=80 * u.km / u.s,
                                             v0_offsets=inp["offsets"])
        return tj.JokerPrior.default(P_min=5 * u.day, P_max=500 * u.day, sigma_K0=300 * u.km / u.s, P0=0.5 * u.year,
                                     sigma_v=10 * u.km / u.s, s=0.5 * u.km / u.s)

    def apply(self, obj, op, inp):
        if op == "shape":
            return obj, _guard(lambda: (tuple(str(x) for x in obj.par_names), int(obj.n_offsets), int(obj.poly_trend),
                                        tuple(sorted(str(k) for k in obj.pars))))
        if op == "touch":
            def f():
                import astropy.units as u
                import pymc as pm
                import thejoker.units as xu
                with inp["model"]:
                    inp["offsets"].append(xu.with_unit(pm.Uniform("dv0_%d" % (len(inp["offsets"]) + 1), -3.0, 3.0), u.km / u.s))
                return "touched"
            if "model" not in inp:
                return obj, "touched"
            return obj, _guard(f)
        gl, lp = op[1] == "1", op[2] == "1"

        def f():
            s = obj.sample(size=4, generate_linear=gl, return_logprobs=lp, rng=np.random.default_rng(11 + inp["seed"]))
            return {k: s[k] for k in s.par_names}
        return obj, _guard(f)


# ----------------------------------------------------------------------------------------------------------------- sampler
class SamplerKind:
    """one TheJoker (one prior, one generator, a serial pool) asked for marginal likelihoods and samples of two data sets"""
    kind = "sampler"
    _twin_prior = {}

    def inputs(self, seed, workdir, script=()):
        return {"seed": seed, "workdir": workdir, "pkind": ["default", "trend2"][seed % 2], "N": [48, 64][seed % 2 if seed % 3 else 0]}

    def _prior(self, inp):
        import astropy.units as u
        from thejoker import JokerPrior
        if inp.get("pristine") and inp["pkind"] in self._twin_prior:
            return self._twin_prior[inp["pkind"]]
        if inp["pkind"] == "default":
            p = JokerPrior.default(P_min=2 * u.day, P_max=512 * u.day, sigma_K0=30 * u.km / u.s, sigma_v=100 * u.km / u.s)
        else:
            p = JokerPrior.default(P_min=2 * u.day, P_max=512 * u.day, sigma_K0=30 * u.km / u.s,
                                   sigma_v=[100 * u.km / u.s, 1 * u.km / u.s / u.day], poly_trend=2)
        if inp.get("pristine"):
            self._twin_prior[inp["pkind"]] = p
        return p

    def make(self, inp, pristine):
        import thejoker as tj
        from . import fixture
        inp["lib"] = fixture.Library(inp["N"], seed=inp["seed"], lnprior=True, s_value=3.0 if inp["seed"] % 2 else 0.0, s_unit="km/s")
        inp["A"] = fixture.make_data(n=8, seed=inp["seed"] % 5 + 1)
        inp["B"] = fixture.make_data(n=6, seed=inp["seed"] % 5 + 11, unit="m/s")
        d = tempfile.mkdtemp(prefix="hs-", dir=inp["workdir"])
        inp["dir"] = d
        inp["libfile"] = os.path.join(d, "lib.hdf5")
        inp["lib"].samples.write(inp["libfile"], overwrite=True)
        return tj.TheJoker(self._prior(inp), rng=np.random.default_rng(300 + inp["seed"]), tempfile_path=os.path.join(d, "tj"))

    def apply(self, obj, op, inp):
        lib = inp["lib"].samples

        def table(t):
            return {k: t[k] for k in t.par_names}
        if op == "mA":
            return obj, _guard(lambda: np.asarray(obj.marginal_ln_likelihood(inp["A"], lib, in_memory=True)))
        if op == "mAf":
            return obj, _guard(lambda: np.asarray(obj.marginal_ln_likelihood(inp["A"], inp["libfile"])))
        if op == "mB":
            return obj, _guard(lambda: np.asarray(obj.marginal_ln_likelihood(inp["B"], lib)))
        if op == "mBm":
            return obj, _guard(lambda: np.asarray(obj.marginal_ln_likelihood(inp["B"], lib, in_memory=True)))
        if op == "bad":
            return obj, _guard(lambda: np.asarray(obj.marginal_ln_likelihood([inp["A"], inp["B"]], lib)))
        if op == "rA":
            return obj, _guard(lambda: table(obj.rejection_sample(inp["A"], lib, return_logprobs=True)))
        if op == "rAm":
            return obj, _guard(lambda: table(obj.rejection_sample(inp["A"], lib, in_memory=True)))
        if op == "rB":
            return obj, _guard(lambda: table(obj.rejection_sample(inp["B"], inp["libfile"], n_linear_samples=2)))
        if op == "iA":
            return obj, _guard(lambda: table(obj.iterative_rejection_sample(inp["A"], lib, n_requested_samples=3, init_batch_size=8)))
        raise KeyError(op)


IMPL = {"samples": SamplesKind(), "data": DataKind(), "prior": PriorKind(), "sampler": SamplerKind()}
_twin_cache = {}


def execute(case):
    """case: {id, kind, script, seed, workdir} -> trace for HistoryTrace"""
    K = IMPL[case["kind"]]
    kind = case["kind"]
    caller = K.inputs(case["seed"], case["workdir"], case["script"])     # the arrays the caller owns (the used object is built from these)
    used = K.make(caller, False)
    events, content = [], []
    for op in case["script"]:
        c = cls_of(kind, op)
        e = {"op": op, "cls": c, "content": [], "same": True, "raised": False}
        if c in ("read", "draw"):
            used, got = K.apply(used, op, caller)
            key = (kind, case["seed"], "touch" in case["script"], tuple(content), op)
            if kind == "prior" and key in _twin_cache:
                want = _twin_cache[key]
            else:
                pristine = K.inputs(case["seed"], case["workdir"], case["script"])     # regenerated from the seed: nothing the used object ever saw
                pristine["pristine"] = True
                twin = K.make(pristine, True)
                for o in content:
                    twin, _ = K.apply(twin, o, pristine)
                twin, want = K.apply(twin, op, pristine)
                if pristine.get("dir"):
                    import shutil
                    shutil.rmtree(pristine["dir"], ignore_errors=True)
                if kind == "prior":
                    _twin_cache[key] = want
            e["content"] = list(content)
            e["same"] = bool(same(got, want))
            if not e["same"]:
                e["got"], e["want"] = repr(brief(got))[:300], repr(brief(want))[:300]
            if c == "draw":
                content.append(op)
        else:
            try:
                used, _ = K.apply(used, op, caller)
            except Exception as ex:
                e["raised"] = True
                e["exc"] = "%s: %s" % (type(ex).__name__, str(ex)[:160])
                events.append(e)
                break
            if op in RESETS.get(kind, ()):         # a second construction from the caller's arrays starts over
                content = []
            elif op not in TRANSPARENT[kind]:      # a copy / pickle / round trip hands back the same content: the twin skips it
                content.append(op)
        events.append(e)
    if caller.get("dir"):
        import shutil
        shutil.rmtree(caller["dir"], ignore_errors=True)
    return {"id": case["id"], "kind": kind, "script": list(case["script"]), "seed": case["seed"], "events": events}


def choose(scripts, kind, owned, quick, rnd, cap):
    """which of TLC's histories a check replays: those ending in a read the property owns; the quick tier takes every history of
    at most 2 calls, every (read, content-changing call, read) triple and a seeded sample of the rest"""
    mine = [s for s in scripts if owned is None or owner(kind, s[-1]) in owned]
    if not quick:
        return mine if len(mine) <= cap else [s for s in mine if len(s) <= 3] + rnd.sample([s for s in mine if len(s) > 3], max(0, cap - sum(1 for s in mine if len(s) <= 3)))
    core_ = [s for s in mine if len(s) <= 2 or (len(s) == 3 and cls_of(kind, s[0]) == "read" and cls_of(kind, s[1]) != "read")]
    rest = [s for s in mine if s not in core_] if len(mine) < 20000 else []
    extra = rnd.sample(rest, min(len(rest), max(0, cap - len(core_))))
    return core_ + extra


def histories(ctx, kind, owned, cap=None, thorough_len=4, seeds=(1, 2, 3, 4, 5, 6)):
    """model-check HistoryMC for `kind`, export its histories, replay the chosen ones; returns traces (validate with HistoryTrace)"""
    from . import core
    quick = ctx.tier == "quick"
    ctx.model_check("HistoryMC", "MC_History_%s.cfg" % kind)
    r = ctx.model_check("HistoryMC", "MC_History_%s_export.cfg" % kind, workers=1)
    scripts = [list(v[1]) for v in r.tagged("CASE")]
    if not scripts:
        raise core.MachineryError("HistoryMC exported no history for %s" % kind)
    rnd = random.Random(ctx.seed * 7919 + len(kind))
    cap = cap or (700 if quick else 6000)
    chosen = choose(scripts, kind, owned, quick, rnd, cap)
    if not quick and thorough_len > 3 and kind != "prior":
        # longer histories: seeded random walks over the same alphabet, ending in an owned read
        ops = KINDS[kind]["reads"] + KINDS[kind]["muts"] + KINDS[kind]["derivs"] + KINDS[kind].get("draws", [])
        last = [x for x in KINDS[kind]["reads"] + KINDS[kind].get("draws", []) if owned is None or owner(kind, x) in owned]
        for _ in range({"sampler": 250}.get(kind, 1500)):
            n = rnd.randint(4, 7) if kind != "sampler" else rnd.randint(4, 5)
            chosen.append([rnd.choice(ops) for _ in range(n - 1)] + [rnd.choice(last)])
    cases = []
    reps = {"data": 4, "samples": 2, "prior": 1, "sampler": 1}[kind]        # configurations per history (data: the four input variants)
    pool_ = tuple(seeds) if quick else tuple(seeds) + (7, 8, 9, 10, 11, 12)
    for k, s in enumerate(chosen):
        first = (k + ctx.seed) % len(pool_) if quick else rnd.randrange(len(pool_))
        for j in range(reps):
            cases.append({"id": "h-%s-%d-%d" % (kind, k, j), "kind": kind, "script": s, "seed": pool_[(first + j) % len(pool_)], "workdir": ctx.workdir})
    traces = core.pmap(execute, cases, procs=8 if quick else 16, chunksize=8)
    return traces


def prove(ctx):
    """the memo discipline for histories of ANY length: spec/HistoryProof.tla, checked by the TLA+ proof system"""
    ctx.prove("HistoryProof", "StoreIsCurrent inductive, AnswerIsIdeal: the memo discipline for histories of any length")


def check(ctx, kind, owned, families, selftest=False, cap=None):
    """what a property's check adds: model-check + export + replay + validation + judgement of the histories of `kind` that end
    in a read the property owns; returns the number of histories replayed"""
    from . import core
    traces = histories(ctx, kind, owned, cap=cap)
    verdicts = ctx.validate("HistoryTrace", traces)
    for t in traces:
        ctx.count()
        if len(t["events"]) >= 2:
            ctx.nontrivial(("history", kind, tuple(t["script"]), t["seed"]))
    ctx.judge(traces, verdicts, families=families)
    ctx.notes["histories_%s" % kind] = {"replayed": len(traces), "by_length": {str(n): sum(1 for t in traces if len(t["script"]) == n) for n in range(1, 8)},
                                        "reads_compared_with_a_fresh_twin": sum(1 for t in traces for e in t["events"] if e["cls"] in ("read", "draw"))}
    if selftest or ctx.tier != "quick":
        # the binding: an answer that differs from the twin's is rejected under the owner's family, a twin built from something
        # else than the content is a machinery failure
        good = next((t for t in traces if verdicts[t["id"]]["ok"] and len(t["events"]) >= 2 and t["events"][-1]["cls"] in ("read", "draw")), None)
        if good is None:
            raise core.MachineryError("history selftest: no accepted history to corrupt")
        a = copy.deepcopy(good); a["id"] = "st-h-differs"; a["events"][-1]["same"] = False
        b = copy.deepcopy(good); b["id"] = "st-h-twin"; b["events"][-1]["content"] = list(b["events"][-1]["content"]) + [{"prior": "s00", "sampler": "rA"}.get(kind, "copy")]
        v = ctx.validate("HistoryTrace", [a, b])
        ctx.traces_validated -= 2
        want_a = owner(kind, good["script"][-1]) + ".AnswerDependsOnlyOnTheContent"
        if v[a["id"]]["ok"] or v[a["id"]]["clause"] != want_a or v[b["id"]]["ok"] or not v[b["id"]]["clause"].startswith("H."):
            raise core.MachineryError("history selftest: corrupted histories not rejected as expected: %r %r" % (v[a["id"]], v[b["id"]]))
        # the design-level counterpart: an implementation that remembers without invalidating violates ReadsAreIdeal
        for cfg in ("MC_History_noinval.cfg", "MC_History_carry.cfg"):
            r = core.run_tlc("HistoryMC", cfg, ctx.workdir, workers=1)
            if not r.invariant_violated:
                raise core.MachineryError("history selftest: %s does not violate ReadsAreIdeal" % cfg)
        ctx.notes["history_selftest"] = "corrupted histories rejected; memo mutants violate ReadsAreIdeal"
        prove(ctx)
    return len(traces)


def replay(ctx, c):
    t = execute({"id": c["id"], "kind": c["kind"], "script": c["script"], "seed": c["seed"], "workdir": ctx.workdir})
    v = ctx.validate("HistoryTrace", [t])
    print("history %s on a %s object (configuration %s) re-executed and re-validated: %s" % (c["script"], c["kind"], c["seed"], v[t["id"]]))
    for e in t["events"]:
        if not e["same"]:
            print("   %s: used object answered %s, fresh twin %s" % (e["op"], e.get("got"), e.get("want")))
    return 0 if v[t["id"]]["ok"] else 1
