"""The repository's own tests as a source of traces (DESIGN 2.2, source (b)).

thejoker/tests/test_sampler.py is run in-process with pytest's warning filter relaxed (in this sandbox `filterwarnings = error`
plus a FutureWarning inside pymc_ext makes those tests fail before they reach the sampler).  Every call the tests make to
TheJoker.marginal_ln_likelihood / rejection_sample / iterative_rejection_sample with a prior-samples object or file is executed
under the recording collaborators (Session.adopt) and becomes one SamplerTrace trace: the existing tests exercise the sampler,
the monitor supplies the assertions they lack."""
import hashlib
import inspect
import json
import os

import numpy as np

from . import core, fixture


def _source_hash():
    h = hashlib.sha256()
    root = os.path.join(core.REPO, "thejoker")
    for dp, _, files in sorted(os.walk(root)):
        for f in sorted(files):
            if f.endswith((".py", ".pyx")):
                h.update(open(os.path.join(dp, f), "rb").read())
    h.update(open(__file__, "rb").read())
    return h.hexdigest()[:20]


class _Collector:
    def __init__(self):
        self.traces = []
        self.skipped = {}
        self.depth = 0

    def skip(self, why):
        self.skipped[why] = self.skipped.get(why, 0) + 1


def _wrap_methods(col):
    from thejoker import JokerSamples
    from thejoker.data_helpers import validate_prepare_data
    from thejoker.thejoker import TheJoker
    from . import sampler_driver as sd
    saved = {}

    def make(api, orig):
        sig = inspect.signature(orig)

        def wrapped(self, *a, **kw):
            if col.depth > 0:
                return orig(self, *a, **kw)
            try:
                ba = sig.bind(self, *a, **kw)
                ba.apply_defaults()
                o = ba.arguments
                data, ps = o["data"], o["prior_samples"]
                if isinstance(ps, (int, np.integer)):
                    col.skip("prior samples requested by count")
                    return orig(self, *a, **kw)
                samples = JokerSamples.read(ps) if isinstance(ps, (str, os.PathLike)) else ps
                all_data, _, _ = validate_prepare_data(data, self.prior.poly_trend, self.prior.n_offsets)
                lib = fixture.Library.from_samples(samples, data_unit=all_data.rv.unit.to_string())
                if len(set(float(p) for p in lib.P)) != lib.N:
                    col.skip("library rows not identifiable (repeated periods)")
                    return orig(self, *a, **kw)
                if lib.lnprior is not None:
                    vals = [float(x) for x in lib.lnprior]
                    if len(set(vals)) != len(vals):
                        col.skip("library ln_prior values not distinct")
                        return orig(self, *a, **kw)
                    lib.lnprior_by_value = {v: i + 1 for i, v in enumerate(vals)}
                elif o.get("return_logprobs"):
                    col.skip("return_logprobs without stored ln_prior")
                    return orig(self, *a, **kw)
                inmem = bool(o.get("in_memory", False))
                path = ("inmem_file" if inmem else "file") if isinstance(ps, (str, os.PathLike)) else ("inmem" if inmem else "object")
                sess = sd.Session.adopt(self, lib, data)
                sess.header()
                opts = dict(path=path, nbatches=int(o.get("n_batches") or 0))
                if api == "rejection":
                    opts.update(nprior=int(o.get("n_prior_samples") or 0), maxpost=int(o.get("max_posterior_samples") or 0),
                                nlinear=int(o.get("n_linear_samples") or 1), randomize=bool(o.get("randomize_prior_order")),
                                logprobs=bool(o.get("return_logprobs")), all=bool(o.get("return_all_logprobs")))
                elif api == "iterative":
                    opts.update(nreq=int(o["n_requested_samples"]), budget=int(o.get("max_prior_samples") or 0),
                                nlinear=int(o.get("n_linear_samples") or 1), randomize=bool(o.get("randomize_prior_order")),
                                logprobs=bool(o.get("return_logprobs")), initb=int(o.get("init_batch_size") or 0),
                                growth=int(o.get("growth_factor") or 128))
            except Exception as ex:       # could not set the recording up: the test's call goes through untouched
                col.skip("setup: %s" % type(ex).__name__)
                return orig(self, *a, **kw)
            col.depth += 1
            try:
                return sess.call(api, invoke=lambda: orig(self, *a, **kw), **opts)
            finally:
                col.depth -= 1
                col.traces.append(sess.trace("repo-%s-%d" % (api, len(col.traces))))
        return wrapped

    for api, name in (("marginal", "marginal_ln_likelihood"), ("rejection", "rejection_sample"), ("iterative", "iterative_rejection_sample")):
        saved[name] = getattr(TheJoker, name)
        setattr(TheJoker, name, make(api, saved[name]))
    return saved


def collect(workdir, tests=("thejoker/tests/test_sampler.py",), keyword="marginal or rejection or iterative"):
    """run the repository's sampler tests under the recorders; returns (traces, info).  Cached per content of thejoker/."""
    from . import jk
    jk.load()
    cache = os.path.join(core.WORK, "repotests-%s.json" % _source_hash())
    if os.path.exists(cache):
        d = json.load(open(cache))
        return d["traces"], dict(d["info"], cached=True)
    import pytest
    from thejoker.thejoker import TheJoker
    col = _Collector()
    saved = _wrap_methods(col)
    cwd = os.getcwd()
    out = os.path.join(workdir, "repotests-junit.xml")
    try:
        os.chdir(core.REPO)
        rc = pytest.main(["-q", "-x" if False else "-q", "-p", "no:cacheprovider", "-W", "default", "-o", "filterwarnings=", "-o", "addopts=",
                          "--timeout=900", "--junitxml=" + out, "-k", keyword, "--basetemp=" + os.path.join(workdir, "pytest-tmp")]
                         + [os.path.join(core.REPO, t) for t in tests])
    finally:
        os.chdir(cwd)
        for name, fn in saved.items():
            setattr(TheJoker, name, fn)
    passed = failed = 0
    try:
        import xml.etree.ElementTree as ET
        for tc in ET.parse(out).getroot().iter("testcase"):
            if tc.find("failure") is not None or tc.find("error") is not None:
                failed += 1
            elif tc.find("skipped") is None:
                passed += 1
    except Exception:
        pass
    info = {"pytest_rc": int(rc), "tests_passed": passed, "tests_failed": failed, "calls_recorded": len(col.traces),
            "calls_not_recorded": col.skipped, "cached": False}
    os.makedirs(core.WORK, exist_ok=True)
    with open(cache + ".tmp%d" % os.getpid(), "w") as f:
        json.dump({"traces": col.traces, "info": info}, f)
    os.replace(cache + ".tmp%d" % os.getpid(), cache)
    return col.traces, info
