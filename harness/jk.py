"""Loads thejoker from /repo's working tree with the resolved kernel (harness.kernel) and common builders."""
import os
import sys

from . import kernel

_loaded = None


def load():
    global _loaded
    if _loaded:
        return _loaded
    info = kernel.resolve()
    import warnings
    warnings.filterwarnings("ignore")
    import logging
    import thejoker
    if not os.path.realpath(thejoker.__file__).startswith(os.path.realpath(kernel.REPO)):
        raise kernel.KernelError("thejoker imported from %s, not from %s" % (thejoker.__file__, kernel.REPO))
    kernel.cross_check()
    thejoker.logging.logger.setLevel(logging.ERROR)
    logging.getLogger("pymc").setLevel(logging.ERROR)
    _loaded = info
    return info
