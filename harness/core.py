"""Harness core: TLC runner, batch trace validation, verdict handling, known findings, evidence."""
import hashlib
import json
import os
import re
import shutil
import subprocess
import sys
import time

from . import tlaval

VERIF = os.path.dirname(os.path.dirname(os.path.abspath(__file__)))
REPO = os.environ.get("VERIF_REPO", "/repo")
SPEC = os.path.join(VERIF, "spec")
# VERIF_OUT (optional): where scratch, evidence and replay files go instead of /verif (used by bin/seedregress to run checks
# against patched scratch worktrees in parallel without touching the committed evidence)
OUT = os.environ.get("VERIF_OUT") or VERIF
WORK = os.path.join(OUT, ".work")
EVID = os.path.join(OUT, "evidence")
REPLAY = os.path.join(OUT, "out", "replay")
TLA_JAR = "/opt/veriftools/tla/tla2tools.jar:/opt/veriftools/tla/CommunityModules-deps.jar"
NCPU = int(os.environ.get("VERIF_NCPU") or os.cpu_count() or 4)     # VERIF_NCPU: cap when several checks run side by side


class MachineryError(Exception):
    """Something in the machinery failed: exit 2, nothing is claimed."""


def sha(obj):
    return hashlib.sha256(json.dumps(obj, sort_keys=True, default=str).encode()).hexdigest()


class TlcResult:
    def __init__(self, out, rc, wall):
        self.out = out
        self.rc = rc
        self.wall = wall
        m = re.findall(r"(\d+) states generated, (\d+) distinct states found", out)
        self.generated = int(m[-1][0]) if m else 0
        self.distinct = int(m[-1][1]) if m else 0
        m = re.search(r"The depth of the complete state graph search is (\d+)", out)
        self.depth = int(m.group(1)) if m else 0
        self.finished = "Model checking completed. No error has been found." in out
        self.sim_ok = ("Progress(" in out or "simulation" in out.lower()) and "Error:" not in out
        self.invariant_violated = re.findall(r"Invariant (\S+) is violated", out)
        self.property_violated = re.findall(r"(?:Action|Temporal) propert(?:y|ies) (\S*) ?(?:is|were) violated", out)
        self.errors = [l for l in out.splitlines() if l.startswith("Error:")]
        self.coverage = self._coverage(out)

    @staticmethod
    def _coverage(out):
        cov = {}
        for m in re.finditer(r"^<(\w+) line (\d+), col \d+ to line \d+, col \d+ of module (\w+)>: (\d+):(\d+)", out, re.M):
            cov["%s.%s" % (m.group(3), m.group(1))] = {"distinct": int(m.group(4)), "taken": int(m.group(5))}
        return cov

    def tagged(self, tag):
        return tlaval.find_tagged(self.out, tag)


def run_tlc(module, cfg, workdir, env=None, workers=None, simulate=None, depth=None, seed=None,
            coverage=False, timeout=3600, extra=(), deadlock=False, dfs=False, heap="4g"):
    """Run TLC on SPEC/<module>.tla with config file `cfg` (absolute or relative to SPEC)."""
    if not os.path.isabs(cfg):
        cfg = os.path.join(SPEC, cfg)
    meta = os.path.join(workdir, "tlc-meta-%d-%d" % (os.getpid(), int(time.time() * 1e6) % 10**9))
    os.makedirs(meta, exist_ok=True)
    java = ["java", "-XX:+UseParallelGC", "-Xmx" + heap, "-Xss512m"]
    if dfs:
        java.append("-Dtlc2.tool.queue.IStateQueue=StateDeque")
    cmd = java + ["-cp", TLA_JAR, "tlc2.TLC", "-metadir", meta, "-noGenerateSpecTE", "-config", cfg]
    cmd += ["-workers", str(workers or 1)]
    if not deadlock:
        cmd += ["-deadlock"]
    if simulate:
        cmd += ["-simulate", simulate]
    if depth:
        cmd += ["-depth", str(depth)]
    if seed is not None:
        cmd += ["-seed", str(seed)]
    if coverage:
        cmd += ["-coverage", "1"]
    cmd += list(extra) + [module]
    e = dict(os.environ)
    e.pop("JAVA_TOOL_OPTIONS", None)
    if env:
        e.update({k: str(v) for k, v in env.items()})
    t0 = time.time()
    try:
        p = subprocess.run(cmd, cwd=SPEC, env=e, stdout=subprocess.PIPE, stderr=subprocess.STDOUT,
                           timeout=timeout, text=True, errors="replace")
        out, rc = p.stdout, p.returncode
    except subprocess.TimeoutExpired as ex:
        out = (ex.stdout or b"")
        if isinstance(out, bytes):
            out = out.decode(errors="replace")
        out += "\nTLC-TIMEOUT\n"
        rc = 124
    finally:
        shutil.rmtree(meta, ignore_errors=True)
    return TlcResult(out, rc, time.time() - t0)


def definition_text(module, name):
    """the text of operator `name` in SPEC/<module>.tla up to the next blank line, white space normalised"""
    s = open(os.path.join(SPEC, module + ".tla")).read()
    m = re.search(r"^%s\(.*?==.*?(?=\n\s*\n)" % re.escape(name), s, re.S | re.M)
    return " ".join(m.group(0).split()) if m else None


def run_tlapm(module, workdir, timeout=900):
    """check the proofs of SPEC/<module>.tla with the TLA+ proof system (tlapm); returns (obligations proved, all proved, output)"""
    d = os.path.join(workdir, "tlapm-%s-%d" % (module, os.getpid()))
    os.makedirs(d, exist_ok=True)
    shutil.copy(os.path.join(SPEC, module + ".tla"), d)
    try:
        p = subprocess.run(["tlapm", "--cleanfp", module + ".tla"], cwd=d, stdout=subprocess.PIPE, stderr=subprocess.STDOUT, timeout=timeout,
                           text=True, errors="replace")
        out = p.stdout
    except subprocess.TimeoutExpired as ex:
        out = (ex.stdout.decode(errors="replace") if isinstance(ex.stdout, bytes) else (ex.stdout or "")) + "\nTLAPM-TIMEOUT\n"
    except FileNotFoundError:
        out = "TLAPM-NOT-INSTALLED"
    finally:
        shutil.rmtree(d, ignore_errors=True)
    m = re.search(r"All (\d+) obligations? proved", out)
    return (int(m.group(1)) if m else 0), bool(m), out


class Ctx:
    def __init__(self, pid, tier, seed, level):
        self.pid = pid
        self.tier = tier
        self.seed = seed
        self.level = level
        self.t0 = time.time()
        self.workdir = os.path.join(WORK, "%s-%s-%d" % (pid, tier, os.getpid()))
        shutil.rmtree(self.workdir, ignore_errors=True)
        os.makedirs(self.workdir, exist_ok=True)
        os.makedirs(REPLAY, exist_ok=True)
        os.makedirs(EVID, exist_ok=True)
        self.violations = []       # (clause, case, replay path)
        self.known = {}            # key -> count
        self.known_desc = {}
        self.states = 0
        self.transitions = 0
        self.traces_validated = 0
        self.evaluations = 0
        self.distinct = set()
        self.samples = []
        self.notes = {}
        self.assumptions = []
        self.tlc_runs = []
        self.coverage = {}
        self.exhaustive = None
        kf = json.load(open(os.path.join(VERIF, "known_findings.json")))
        self.kf_open = {f["key"]: f for f in kf.get("findings", []) if f["property"] == pid and f.get("status", "open") == "open"}
        self.rule = ""

    # ---------------------------------------------------------------- TLC
    def model_check(self, module, cfg, must_finish=True, **kw):
        """Exhaustive (or simulated) check of a spec configuration; a violated invariant there is a
        machinery/spec failure (the design itself is wrong), not a verdict about the code."""
        kw.setdefault("workers", NCPU)
        r = run_tlc(module, cfg, self.workdir, **kw)
        self.tlc_runs.append({"module": module, "cfg": os.path.basename(cfg), "generated": r.generated,
                              "distinct": r.distinct, "depth": r.depth, "wall_s": round(r.wall, 1),
                              "mode": "simulate" if kw.get("simulate") else "exhaustive"})
        self.states += r.distinct
        self.transitions += r.generated
        for k, v in r.coverage.items():
            c = self.coverage.setdefault(k, {"distinct": 0, "taken": 0})
            c["distinct"] += v["distinct"]
            c["taken"] += v["taken"]
        if r.invariant_violated or r.property_violated or r.errors or (must_finish and not r.finished and not kw.get("simulate")):
            tail = "\n".join(r.out.splitlines()[-60:])
            raise MachineryError("TLC run of %s/%s did not pass:\n%s" % (module, cfg, tail))
        return r

    def prove(self, module, what):
        """re-check the TLAPS proofs of SPEC/<module>.tla (unbounded counterparts of theorems TLC checks for small constants)"""
        proofs = self.notes.setdefault("tlaps_proofs", {})
        if module in proofs:
            return
        n, ok, out = run_tlapm(module, self.workdir)
        if "TLAPM-NOT-INSTALLED" in out:
            proofs[module] = "tlapm not available: not re-checked in this run"
            return
        if not ok:
            raise MachineryError("tlapm does not prove spec/%s.tla:\n%s" % (module, "\n".join(out.splitlines()[-30:])))
        proofs[module] = "tlapm: all %d obligations proved (%s)" % (n, what)

    def validate(self, module, traces, cfg=None, shards=None, env=None, timeout=3600, workers=1):
        """Send recorded traces through the total monitor `module`; returns {id: verdict dict}.
        Every trace must come back with exactly one verdict."""
        if not traces:
            return {}
        ids = [t["id"] for t in traces]
        if len(set(ids)) != len(ids):
            raise MachineryError("duplicate trace ids")
        cfg = cfg or (module + ".cfg")
        shards = shards or max(1, min(NCPU, len(traces) // 40 + 1))
        parts = [traces[i::shards] for i in range(shards)]
        procs = []
        import concurrent.futures as cf

        def one(k):
            path = os.path.join(self.workdir, "%s-batch-%d-%d.json" % (module, k, int(time.time() * 1e6) % 10**9))
            with open(path, "w") as f:
                json.dump(parts[k], f)
            e = {"TRACE_FILE": path}
            if env:
                e.update(env)
            r = run_tlc(module, cfg, self.workdir, env=e, workers=workers, timeout=timeout)
            os.unlink(path)
            return r

        with cf.ThreadPoolExecutor(max_workers=shards) as ex:
            results = list(ex.map(one, range(len(parts))))
        verdicts = {}
        for r in results:
            self.states += r.distinct
            self.transitions += r.generated
            if not r.finished:
                lines = r.out.splitlines()
                k = next((i for i, x in enumerate(lines) if x.startswith("Error:")), max(0, len(lines) - 40))
                raise MachineryError("trace validation run of %s failed:\n%s" % (module, "\n".join(lines[k:k + 30])))
            for v in r.tagged("VERDICT"):
                # single-clause monitors: <<"VERDICT", id, ok, clause, pos, kf>>
                # multi-clause monitors:  <<"VERDICT", id, ok, <<<<clause, pos>>, ...>>>>
                tid = v[1]
                if tid in verdicts:
                    raise MachineryError("two verdicts for trace %s" % tid)
                if len(v) == 4 and isinstance(v[3], list):
                    fl = [(f[0], f[1], f[2] if len(f) > 2 else "") for f in v[3]]
                    verdicts[tid] = {"ok": v[2], "fails": fl, "clause": fl[0][0] if fl else "", "pos": fl[0][1] if fl else 0, "kf": ""}
                else:
                    d = {"ok": v[2], "clause": v[3] if len(v) > 3 else "", "pos": v[4] if len(v) > 4 else 0,
                         "kf": v[5] if len(v) > 5 else ""}
                    d["fails"] = [] if d["ok"] else [(d["clause"], d["pos"], d["kf"])]
                    verdicts[tid] = d
        missing = [i for i in ids if i not in verdicts]
        if missing:
            raise MachineryError("%d traces got no verdict from %s (first: %s)" % (len(missing), module, missing[:3]))
        self.traces_validated += len(traces)
        return verdicts

    # ---------------------------------------------------------------- verdicts
    def judge(self, traces, verdicts, families=None, classify=None):
        """Turn monitor verdicts into VIOLATION / KNOWN-FINDING records.
        families: only clauses with one of these prefixes belong to this property (others are ignored here and
        reported by the check that owns them); a clause starting with "H." is a machinery failure.
        classify(trace, clause, pos) -> known-finding key or None (checks whose deviation matching is done in Python
        on top of the monitor's verdict)."""
        by_id = {t["id"]: t for t in traces}
        for tid, v in verdicts.items():
            for (clause, pos, kf) in v["fails"]:
                if clause.startswith("H."):
                    raise MachineryError("monitor reports a harness inconsistency %s in trace %s at %s" % (clause, tid, pos))
                if families and not any(clause.startswith(f) for f in families):
                    continue
                if not kf and classify:
                    kf = classify(by_id[tid], clause, pos)
                self.fail(clause, by_id[tid], kf=kf or None, pos=pos)

    def fail(self, clause, case, kf=None, pos=None, detail=None):
        if kf and all(k in self.kf_open for k in kf.split("+")):
            for k in kf.split("+"):
                self.known[k] = self.known.get(k, 0) + 1
            return "known"
        rec = {"property": self.pid, "clause": clause, "pos": pos, "detail": detail, "case": case,
               "tier": self.tier, "seed": self.seed, "deviation_matched_but_not_listed": kf}
        path = os.path.join(REPLAY, "%s-%s.json" % (self.pid, sha(rec)[:12]))
        with open(path, "w") as f:
            json.dump(rec, f, indent=1, default=str)
        self.violations.append((clause, path))
        return "violation"

    def count(self, n=1):
        self.evaluations += n

    def nontrivial(self, key):
        self.distinct.add(key if isinstance(key, str) else sha(key))

    def sample(self, s, limit=4):
        if len(self.samples) < limit:
            self.samples.append(s)

    # ---------------------------------------------------------------- finish
    def finish(self):
        wall = time.time() - self.t0
        cov = {
            "states": self.states, "transitions": self.transitions,
            "traces_validated_against_impl": self.traces_validated,
            "evaluations": self.evaluations, "distinct_nontrivial": len(self.distinct),
            "rule": self.rule, "samples": self.samples or ["(none)"],
            "tlc_runs": self.tlc_runs, "action_coverage": self.coverage,
            "known_findings_hit": self.known,
            "violations_by_clause": _tally([c for c, _ in self.violations]),
        }
        if self.exhaustive is not None:
            cov["exhaustive"] = self.exhaustive
        cov.update(self.notes)
        ev = {"property_id": self.pid, "tier": self.tier, "seed": self.seed, "level": self.level,
              "coverage": cov, "assumptions": self.assumptions, "wall_s": round(wall, 2),
              "violations": len(self.violations)}
        # extension checks (ids X..: behaviour beyond the listed properties) report under extras/, never under evidence/
        evdir = EVID if not self.pid.startswith("X") else os.path.join(OUT, "extras")
        os.makedirs(evdir, exist_ok=True)
        path = os.path.join(evdir, "%s.json" % self.pid)
        with open(path, "w") as f:
            json.dump(ev, f, indent=1, default=str)
        _validate_evidence(path)
        for k, n in sorted(self.known.items()):
            f = self.kf_open[k]
            print("KNOWN-FINDING: property=%s %s: %s [%s; %d cases this run]" % (self.pid, k, f["what"], f["where"], n))
        printed = {}
        for clause, path_ in self.violations:
            if printed.get(clause, 0) >= 3:   # at most 3 lines per clause; every replay file is written
                continue
            printed[clause] = printed.get(clause, 0) + 1
            print("VIOLATION property=%s replay=%s clause=%s" % (self.pid, path_, clause))
        shutil.rmtree(self.workdir, ignore_errors=True)
        print("%s %s: %d states, %d traces validated, %d evaluations, %d violations, %d known-finding hits, %.1fs"
              % (self.pid, self.tier, self.states, self.traces_validated, self.evaluations, len(self.violations),
                 sum(self.known.values()), wall))
        return 1 if self.violations else 0


def _tally(xs):
    d = {}
    for x in xs:
        d[x] = d.get(x, 0) + 1
    return d


def _validate_evidence(path):
    code = ("import json,jsonschema,sys;"
            "jsonschema.validate(json.load(open(sys.argv[1])),json.load(open('/root/.vp/EVIDENCE.schema.json')))")
    try:
        p = subprocess.run(["/opt/veriftools/pyvenv/bin/python", "-c", code, path], capture_output=True, text=True, timeout=60)
    except Exception as ex:  # validator unavailable: not a reason to fail the check
        print("note: evidence schema validation skipped (%s)" % ex, file=sys.stderr)
        return
    if p.returncode != 0:
        raise MachineryError("evidence file does not validate: " + p.stderr[-800:])


def pmap(fn, items, procs=None, chunksize=1):
    """Parallel map in forked worker processes (the parent has already imported the heavy modules)."""
    import multiprocessing as mp
    items = list(items)
    procs = min(procs or NCPU, NCPU, max(1, len(items)))
    if procs <= 1:
        return [fn(x) for x in items]
    ctx = mp.get_context("fork")
    with ctx.Pool(procs) as pool:
        return pool.map(fn, items, chunksize=chunksize)
