"""Realises lattice configurations of spec/Gauss.tla through thejoker's public API and records what the kernel,
the posterior-draw path, the reconstructed orbit and the pymc model do, projected back to physical units and to
exact rationals (DESIGN 2.5).  Used by C01, C03, C04, C07, C11."""
import math
import os
from fractions import Fraction

import numpy as np

T0 = 55000.0
PRIMES = [9, 25, 49, 121, 169]
_units = {}


def U(name):
    import astropy.units as u
    if not _units:
        _units["oct"] = u.def_unit("oct", 8 * u.day)
        _units["suboct"] = u.def_unit("suboct", u.day / 8)
    if name in _units:
        return _units[name]
    return u.Unit(name)


def rat(x, tol=1e-9, maxden=10**6):
    """float -> [num, den] on the lattice, [0, 0] when it is not within tol of a small rational"""
    x = float(x)
    if x == math.inf:
        return [1, 0]
    if x == -math.inf:
        return [-1, 0]
    if not math.isfinite(x):
        return [0, 0]
    f = Fraction(x).limit_denominator(maxden)
    if abs(float(f) - x) > tol * max(1.0, abs(x)):
        return [0, 0]
    if abs(f.numerator) >= 2**31 or f.denominator >= 2**31:
        return [0, 0]
    return [f.numerator, f.denominator]


def rmat(a, tol=1e-9):
    a = np.asarray(a, dtype=float)
    if a.ndim == 1:
        return [rat(x, tol) for x in a]
    return [[rat(x, tol) for x in row] for row in a]


# ----------------------------------------------------------------------------------------------- configurations
def make_config(struct, rnd, units=None):
    """struct: structural point exported by TLC (N, poly, noff, lab, kkind, capped, means, s2 (0/1 -> zero / non-zero), e).
    Returns (g, ua): the exact physical configuration and a unit assignment."""
    N, poly, noff = struct["N"], struct["poly"], struct["noff"]
    lab = list(struct["lab"])
    ph = rnd.choice([1, 2])
    # epochs: surveys are disjoint in time and in list order (the merged data set must not need re-labelling: C08's
    # known finding would otherwise contaminate the kernel-level comparison)
    order = sorted(range(N), key=lambda n: (lab[n], n))
    kk = [0] * N
    cur = 0 if noff > 0 else rnd.randint(1, 2)     # single source: t_ref is explicit and earlier than every epoch
    for rank, n in enumerate(order):
        kk[n] = cur
        cur += rnd.randint(1, 2) if (rank + 1 < N and lab[order[rank + 1]] != lab[n]) or rnd.random() < 0.7 else 0
    e = list(struct["e"])
    s2 = 0 if struct["s2"] == 0 else rnd.choice([1, 4])
    sK0sq = rnd.choice([1, 4])
    r23 = rnd.choice([[4, 1], [1, 1], [1, 4]])
    ome2 = Fraction(1) - Fraction(e[0], e[1]) ** 2
    unc = Fraction(sK0sq) * Fraction(r23[0], r23[1]) / ome2
    if struct["capped"]:
        cap = Fraction(rnd.choice([1, 4, 9]), rnd.choice([1, 4]))
        if cap >= unc:
            cap = unc / 4
        # max_K must be exactly representable after the square root: choose cap = (p/q)^2
        root = Fraction(rnd.choice([1, 2, 3]), rnd.choice([1, 2, 4]))
        while root * root >= unc:
            root = root / 2
        cap = root * root
        maxKsq = [cap.numerator, cap.denominator]
        maxK = float(root)
    else:
        maxKsq = [250000, 1]
        maxK = 500.0
    L = 1 + poly + noff
    pr = PRIMES[:]
    rnd.shuffle(pr)
    var = pr[: L - 1]
    means = struct["means"]
    mu = [rnd.choice([1, 2]) if means else 0 for _ in range(L - 1)]
    muK = rnd.choice([1, 2]) if means else 0
    varK = rnd.choice([9, 25, 49, 121, 169])
    g = {"N": N, "poly": poly, "noff": noff, "kk": kk, "ph": ph, "m0i": rnd.randint(0, 1), "wi": rnd.randint(0, 1), "e": e,
         "lab": lab, "y": [rnd.randint(-3, 3) for _ in range(N)], "sig2": [rnd.choice([1, 4]) for _ in range(N)], "s2": s2,
         "kkind": struct["kkind"], "sK0sq": sK0sq, "r23": r23, "r23dev": r23, "maxKsq": maxKsq, "muK": muK, "varK": [varK, 1],
         "mu": mu, "var": var}
    ua = dict(units or {})
    ua.setdefault("data", "km/s")
    ua.setdefault("kprior", "km/s")
    ua.setdefault("lin", ["km/s"] * (L - 1))
    ua.setdefault("slope_t", "d")
    ua.setdefault("pprior", "d")
    ua.setdefault("p0", "d")
    ua.setdefault("sP", "d")
    ua.setdefault("sang", "rad")
    ua.setdefault("ss", "km/s")
    ua["maxK"] = maxK
    if g["kkind"] == "default":
        f = {"d": Fraction(1), "oct": Fraction(1, 4), "suboct": Fraction(4)}.get(ua["pprior"], Fraction(1))
        rd = Fraction(r23[0], r23[1]) * f
        g["r23dev"] = [rd.numerator, rd.denominator]
    return g, ua


def make_config_units(g, ua):
    """the same physical configuration under another unit assignment (only the deviation field r23dev depends on units)"""
    g = dict(g)
    ua = dict(ua)
    ua.setdefault("maxK", 500.0 if g["maxKsq"][0] >= 250000 else math.sqrt(g["maxKsq"][0] / g["maxKsq"][1]))
    if g["kkind"] == "default":
        f = {"d": Fraction(1), "oct": Fraction(1, 4), "suboct": Fraction(4)}.get(ua["pprior"], Fraction(1))
        rd = Fraction(*g["r23"]) * f
        g["r23dev"] = [rd.numerator, rd.denominator]
    else:
        g["r23dev"] = g["r23"]
    return g, ua


def random_units(rnd, L, lattice_period_units=True):
    return {"data": rnd.choice(["km/s", "m/s"]), "src_units": [rnd.choice(["km/s", "m/s"]) for _ in range(3)],
            "kprior": rnd.choice(["km/s", "m/s"]),
            "lin": [rnd.choice(["km/s", "m/s"]) for _ in range(L - 1)], "slope_t": rnd.choice(["d", "yr"]),
            "pprior": rnd.choice(["d", "oct", "suboct", "yr", "h"]), "p0": rnd.choice(["d", "yr", "oct", "h"]),
            "sP": rnd.choice(["d", "yr"]), "sang": rnd.choice(["rad", "deg"]), "ss": rnd.choice(["km/s", "m/s"]),
            "t_scale": rnd.choice(["tcb", "utc", "tdb"]), "tref_scale": rnd.choice(["tcb", "utc", "tt"]),
            # how the prior object is made: parameter by parameter, or through JokerPrior.default(sigma_K0=, P0=, sigma_v=, s=)
            # whenever the configuration is one that builder can express (default K prior, no cap, zero means of K and v_i)
            "builder": rnd.choice(["explicit", "default"]),
            # the order in which the offset priors are handed over (they are matched to surveys by NAME, dv0_k, not by position)
            "offorder": rnd.choice(["named", "reversed"]),
            "err_units": [rnd.choice(["km/s", "m/s"]) for _ in range(3)]}


# ----------------------------------------------------------------------------------------------- building real objects
def build(g, ua, jitter_kind="sampled"):
    import astropy.units as u
    import pymc as pm
    import pytensor.tensor as pt
    import thejoker.units as xu
    from astropy.time import Time
    from thejoker import JokerPrior, JokerSamples, RVData
    from thejoker.distributions import FixedCompanionMass
    N, poly, noff, L = g["N"], g["poly"], g["noff"], 1 + g["poly"] + g["noff"]
    du = U(ua["data"])
    kms = u.km / u.s
    # ---- data
    srcs = []
    for j in range(noff + 1):
        idx = [n for n in range(N) if g["lab"][n] == j]
        t = Time(T0 + np.array([g["kk"][n] * g["ph"] for n in idx], dtype=float), format="mjd", scale="tcb")
        if ua.get("t_scale", "tcb") != "tcb":          # the same instants, handed over on another time scale
            t = getattr(t, ua["t_scale"])
        # every source may come in its own velocity unit; the merged data set takes the first source's
        sdu = du if j == 0 else U(ua.get("src_units", [ua["data"]] * (noff + 1))[j])
        y = (np.array([g["y"][n] for n in idx], dtype=float) * kms).to(sdu)
        # the uncertainties may be declared in another (equivalent) unit than the velocities of the same source
        eu = U(ua["err_units"][j]) if ua.get("err_units") else sdu
        err = (np.sqrt(np.array([g["sig2"][n] for n in idx], dtype=float)) * kms).to(eu)
        if noff == 0:
            tref = Time(T0, format="mjd", scale="tcb")
            if ua.get("tref_scale", "tcb") != "tcb":
                tref = getattr(tref, ua["tref_scale"])
            srcs.append(RVData(t, y, err, t_ref=tref))
        else:
            srcs.append(RVData(t, y, err))
    data = srcs[0] if noff == 0 else srcs
    order = [n for j in range(noff + 1) for n in range(N) if g["lab"][n] == j]      # row order of the merged data
    order = sorted(order, key=lambda n: (g["kk"][n], g["lab"][n]))
    # ---- prior
    P_days = 2.0 * g["ph"]
    r23 = Fraction(*g["r23"])
    P0_days = P_days * {Fraction(4): 8.0, Fraction(1): 1.0, Fraction(1, 4): 0.125}[r23]
    ku = U(ua["kprior"])
    slot_names = ["v0"] + ["dv0_%d" % j for j in range(1, noff + 1)] + ["v%d" % i for i in range(1, poly)]
    tu = U(ua["slope_t"])

    def slot_unit(i, name):
        vu = U(ua["lin"][i])
        power = int(name[1:]) if name.startswith("v") and not name.startswith("dv") else 0
        return (vu / tu ** power if power else vu), (kms / u.day ** power if power else kms)
    via_default = (ua.get("builder") == "default" and g["kkind"] == "default" and g["muK"] == 0 and ua["maxK"] >= 500
                   and all(g["mu"][i] == 0 for i, nm in enumerate(slot_names) if not nm.startswith("dv")))
    if via_default:
        pu = U(ua["pprior"])
        su = U(ua["ss"])
        with pm.Model() as model:
            offs = []
            sv = []
            for i, name in enumerate(slot_names):
                unit, phys = slot_unit(i, name)
                if name.startswith("dv0"):
                    offs.append(xu.with_unit(pm.Normal(name, np.float64((g["mu"][i] * phys).to_value(unit)),
                                                       np.float64((math.sqrt(g["var"][i]) * phys).to_value(unit))), unit))
                else:
                    sv.append(np.float64((math.sqrt(g["var"][i]) * phys).to_value(unit)) * unit)
            if jitter_kind == "sampled":
                s_arg = xu.with_unit(pm.Uniform("s", np.float64(0.0), np.float64(50000.0)), su)
            else:
                s_arg = np.float64((math.sqrt(g["s2"]) * kms).to_value(su)) * su
            prior = JokerPrior.default(P_min=np.float64((0.01 * u.day).to_value(pu)) * pu, P_max=np.float64((1000.0 * u.day).to_value(pu)) * pu,
                                       sigma_K0=np.float64((math.sqrt(g["sK0sq"]) * kms).to_value(ku)) * ku,
                                       P0=np.float64((P0_days * u.day).to_value(U(ua["p0"]))) * U(ua["p0"]),
                                       sigma_v=sv if len(sv) > 1 else sv[0], s=s_arg, poly_trend=poly,
                                       v0_offsets=offs[::-1] if ua.get("offorder") == "reversed" else offs, model=model)
    if not via_default:
      with pm.Model() as model:
          pu = U(ua["pprior"])
          P = xu.with_unit(pm.Uniform("P", np.float64(0.01), np.float64(1000.0)), pu)
          e = xu.with_unit(pm.Uniform("e", np.float64(0.0), np.float64(0.99)), u.one)
          om = xu.with_unit(pm.Uniform("omega", np.float64(0.0), np.float64(2 * np.pi)), u.rad)
          M0 = xu.with_unit(pm.Uniform("M0", np.float64(0.0), np.float64(2 * np.pi)), u.rad)
          su = U(ua["ss"])
          if jitter_kind == "sampled":
              s = xu.with_unit(pm.Uniform("s", np.float64(0.0), np.float64(50000.0)), su)
          else:
              s = xu.with_unit(pm.Deterministic("s", pt.constant(np.float64((math.sqrt(g["s2"]) * kms).to_value(su)))), su)
          if g["kkind"] == "default":
              K = xu.with_unit(FixedCompanionMass("K", P=P, e=e,
                                                  sigma_K0=np.float64((math.sqrt(g["sK0sq"]) * kms).to_value(ku)) * ku,
                                                  P0=np.float64((P0_days * u.day).to_value(U(ua["p0"]))) * U(ua["p0"]),
                                                  mu=np.float64((g["muK"] * kms).to_value(ku)),
                                                  max_K=np.float64((ua["maxK"] * kms).to_value(ku)) * ku), ku)
          else:
              K = xu.with_unit(pm.Normal("K", np.float64((g["muK"] * kms).to_value(ku)),
                                         np.float64((math.sqrt(g["varK"][0]) * kms).to_value(ku))), ku)
          pars = {"P": P, "e": e, "omega": om, "M0": M0, "s": s, "K": K}
          offs = []
          slot_names = ["v0"] + ["dv0_%d" % j for j in range(1, noff + 1)] + ["v%d" % i for i in range(1, poly)]
          tu = U(ua["slope_t"])
          for i, name in enumerate(slot_names):
              vu = U(ua["lin"][i])
              power = int(name[1:]) if name.startswith("v") and not name.startswith("dv") else 0
              unit = vu / tu ** power if power else vu
              phys = kms / u.day ** power if power else kms
              var_ = xu.with_unit(pm.Normal(name, np.float64((g["mu"][i] * phys).to_value(unit)),
                                            np.float64((math.sqrt(g["var"][i]) * phys).to_value(unit))), unit)
              if name.startswith("dv0"):
                  offs.append(var_)
              else:
                  pars[name] = var_
          prior = JokerPrior(pars=pars, poly_trend=poly, v0_offsets=offs[::-1] if ua.get("offorder") == "reversed" else offs, model=model)
    try:
        prior._verif_via_default = bool(via_default)
    except Exception:
        pass
    # ---- the sample row (and a decoy row evaluated first, to expose stale per-sample state)
    def row(Pd, e_, w, m, s_kms):
        smp = JokerSamples(poly_trend=poly, n_offsets=noff)
        smp["P"] = (np.array([Pd]) * u.day).to(U(ua["sP"]))
        smp["e"] = np.array([e_])
        smp["omega"] = (np.array([w]) * u.rad).to(U(ua["sang"]))
        smp["M0"] = (np.array([m]) * u.rad).to(U(ua["sang"]))
        smp["s"] = (np.array([s_kms]) * kms).to(U(ua["ss"]))
        return smp
    target = row(P_days, g["e"][0] / g["e"][1], g["wi"] * np.pi, g["m0i"] * np.pi, math.sqrt(g["s2"]))
    decoy = row(P_days * 1.7, 0.31, 1.234, 2.345, 1.5)
    return data, prior, target, decoy, order, slot_names


class ScriptedGen:
    """stands in for the generator on the posterior-draw path: records the arguments of multivariate_normal and
    returns sentinel draws (so that placement and units of every emitted value can be traced)"""

    def __init__(self, ratio):
        self.calls = []
        self.handed = []
        self.ratio = ratio

    def multivariate_normal(self, mean, cov, size=None, **kw):
        mean = np.array(mean, dtype=float)
        cov = np.array(cov, dtype=float)
        self.calls.append({"mean": mean, "cov": cov, "size": size})
        n = int(size) if size is not None else 1
        L = len(mean)
        return np.array([[(100.0 * (j + 1) + k + 1) * self.ratio for k in range(L)] for j in range(n)])


def draw_inmem(joker, helper, samples_row, chunk, rng, n_linear):
    """linear-parameter draws for ONE accepted row on the in-memory path: through likelihood_helpers.make_full_samples_inmem when the
    library has it, else through the public API (rejection_sample on a one-row library always accepts its row) with TheJoker
    handing out the prepared helper"""
    try:
        from thejoker.likelihood_helpers import make_full_samples_inmem
    except ImportError:
        make_full_samples_inmem = None
    if make_full_samples_inmem is not None:
        return make_full_samples_inmem(helper, np.ascontiguousarray(chunk, dtype=float), rng, n_linear_samples=n_linear)
    joker._make_joker_helper = lambda data: helper
    try:
        return joker.rejection_sample(getattr(helper, "data"), samples_row, n_linear_samples=n_linear, in_memory=True)
    finally:
        del joker._make_joker_helper


def _spy_helper(joker, data, sg):
    from thejoker.src.fast_likelihood import CJokerHelper
    from . import collab
    base = collab.make_helper(joker, data)
    cls = type(base)

    class SpyHelper(cls):
        def batch_get_posterior_samples(self, chunk, n_linear_samples_per, rng):
            sg.handed.append(type(rng).__name__)
            return cls.batch_get_posterior_samples(self, chunk, n_linear_samples_per, sg)
    return SpyHelper(*base.__reduce__()[1])


def lnN(y, b, Bm):
    y = np.asarray(y, dtype=float); b = np.asarray(b, dtype=float); Bm = np.asarray(Bm, dtype=float)
    r = y - b
    sign, logdet = np.linalg.slogdet(2 * np.pi * Bm)
    return -0.5 * (r @ np.linalg.solve(Bm, r) + logdet)


def realize(case):
    """case: {id, g, ua, jitter_kind, nlinear, fam: {'kernel','draw','orbit'} -> family prefixes}.  Returns a trace."""
    import astropy.units as u
    from thejoker import TheJoker
    g, ua = case["g"], case["ua"]
    fam = case["fam"]
    events = [{"ev": "Cfg", "g": g, "ua": {k: v for k, v in ua.items()}}]
    kms = u.km / u.s
    try:
        data, prior, target, decoy, order, slot_names = build(g, ua, case.get("jitter_kind", "sampled"))
        events[0]["via_default"] = bool(getattr(prior, "_verif_via_default", False))
    except Exception as ex:
        events.append({"ev": "Kernel", "fam": fam.get("kernel", "C01"), "B": [], "b": [], "finite": False, "llok": False, "apisame": False,
                       "exc": "build: %s: %s" % (type(ex).__name__, str(ex)[:160])})
        return {"id": case["id"], "events": events}
    ratio = (1 * kms).to_value(U(ua["data"]))          # data value = ratio * physical value
    N, L = g["N"], 1 + g["poly"] + g["noff"]
    # spec epoch n  <->  row of the merged data
    inv = order                                          # merged row r holds spec epoch order[r]
    pos = {n: r for r, n in enumerate(inv)}
    perm = [pos[n] for n in range(N)]

    def epochs(vec):       # merged-row vector -> spec epoch order
        return [vec[perm[n]] for n in range(N)]

    def epochs2(mat):
        return [[mat[perm[n]][perm[m]] for m in range(N)] for n in range(N)]
    joker = TheJoker(prior, rng=np.random.default_rng(case.get("seed", 0)))
    # the likelihood helper, as TheJoker makes it, with one interposition at the kernel boundary: whichever generator object the
    # library hands to batch_get_posterior_samples (the caller's, or a child spawned from it - the property does not say) is
    # replaced by the scripted one, which records the (mean, cov, size) it is asked for and returns sentinel draws
    sg = ScriptedGen(ratio)
    helper = _spy_helper(joker, data, sg)
    tchunk, _ = target.pack(units=helper.internal_units, names=helper.packed_order)
    dchunk, _ = decoy.pack(units=helper.internal_units, names=helper.packed_order)
    chunk = np.ascontiguousarray(np.vstack([dchunk, tchunk]), dtype=float)
    if "kernel" in fam:
        ev = {"ev": "Kernel", "fam": fam["kernel"], "B": [], "b": [], "finite": False, "llok": False, "apisame": False}
        try:
            with np.errstate(all="ignore"):
                ll = np.array(helper.batch_marginal_ln_likelihood(chunk))
            Bo = np.array(helper.B) / ratio**2
            bo = np.array(helper.b) / ratio
            ev["B"] = epochs2(rmat(Bo))
            ev["b"] = epochs(rmat(bo))
            ev["finite"] = bool(np.isfinite(ll[1]))
            if ev["finite"] and all(x[1] > 0 for r_ in ev["B"] for x in r_) and all(x[1] > 0 for x in ev["b"]):
                Bf = np.array([[x[0] / x[1] for x in r_] for r_ in ev["B"]])
                bf = np.array([x[0] / x[1] for x in ev["b"]])
                exp = lnN(np.array(g["y"], dtype=float), bf, Bf) - N * math.log(ratio)
                ev["llok"] = bool(abs(exp - ll[1]) <= 1e-8 + 1e-9 * abs(exp))
                ev["ll"] = float(ll[1]); ev["ll_expected"] = float(exp)
            api = []
            api.append(joker.marginal_ln_likelihood(data, target, in_memory=True)[0])
            if case.get("api_file", True):
                api.append(joker.marginal_ln_likelihood(data, target)[0])
            ev["apisame"] = bool(all(abs(a - ll[1]) <= 1e-12 * max(1.0, abs(ll[1])) for a in api)) if ev["finite"] else False
        except Exception as ex:
            ev["exc"] = "%s: %s" % (type(ex).__name__, str(ex)[:160])
        events.append(ev)
    samples = None
    if "draw" in fam or "orbit" in fam:
        nl = case.get("nlinear", 2)
        ev = {"ev": "Draw", "fam": fam.get("draw", "C03"), "tag": "", "covfinite": True, "Ainv": [], "rhs": [], "covok": False, "ncalls": 0, "size": 0, "nlinear": nl,
              "outx": [], "sent": [], "thetasame": False}
        try:
            # the decoy goes through the same helper first (stale state), then the target row alone
            with np.errstate(all="ignore"):
                helper.batch_marginal_ln_likelihood(np.ascontiguousarray(dchunk, dtype=float))
                sg.calls[:] = []
                samples = draw_inmem(joker, helper, target, tchunk, np.random.default_rng(case.get("seed", 0) + 17), nl)
            ev["ncalls"] = len(sg.calls)
            c0 = sg.calls[0]
            ev["size"] = int(c0["size"]) if c0["size"] is not None else 1
            # per-slot scale: parameter i has unit data/day^p -> physical = value / ratio
            Ao = np.array(helper.Ainv) * ratio**2
            a_obs = np.array(helper.a)
            rhs = (np.array(helper.Ainv) @ a_obs) * ratio
            ev["Ainv"] = rmat(Ao)
            ev["rhs"] = rmat(rhs)
            ev["mean_is_a"] = bool(np.allclose(c0["mean"], a_obs, rtol=1e-12, atol=0))
            with np.errstate(all="ignore"):
                ev["covok"] = bool(np.allclose(c0["cov"] @ np.array(helper.Ainv), np.eye(L), atol=1e-7) and ev["mean_is_a"])
            # emitted rows
            names = ["K"] + slot_names
            outx, sent = [], []
            for j in range(len(samples)):
                rowx = []
                for k, nm in enumerate(names):
                    power = int(nm[1:]) if nm.startswith("v") and not nm.startswith("dv") else 0
                    phys = kms / u.day ** power if power else kms
                    rowx.append(rat(np.atleast_1d(samples[nm].to_value(phys))[j]))
                outx.append(rowx)
                sent.append([[100 * (j + 1) + k + 1, 1] for k in range(L)])
            ev["outx"], ev["sent"] = outx, sent
            th = np.stack([np.atleast_1d(samples[nm].to_value(helper.internal_units[nm])) for nm in helper.packed_order], axis=1)
            ev["thetasame"] = bool(all(np.array_equal(th[j], tchunk[0]) for j in range(len(samples))))
        except Exception as ex:
            ev["exc"] = "%s: %s" % (type(ex).__name__, str(ex)[:160])
        if "draw" in fam:
            events.append(ev)
    if "draw" in fam and case.get("file_draw", True):
        # the same draw through the cache-file path: rejection_sample on a one-row library (always accepted), recording
        # pool; the child generator handed to the draw task is wrapped and reports the (mean, cov, size) it is asked for
        nl = case.get("nlinear", 2)
        ev = {"ev": "Draw", "fam": fam["draw"], "path": "file", "tag": "CacheFilePath", "covfinite": True, "Ainv": [], "rhs": [], "covok": False, "ncalls": 0, "size": 0, "nlinear": nl,
              "outx": [], "sent": [], "thetasame": False}
        try:
            from . import collab
            rec = collab.Recorder()
            rec.mvn = True
            gen = collab.RecGen.make(case.get("seed", 0), rec)
            pool = collab.RecPool(rec, size=1, order_seed=0)
            jk2 = TheJoker(prior, rng=gen, pool=pool)
            with np.errstate(all="ignore"):
                out = jk2.rejection_sample(data, target, n_linear_samples=nl, in_memory=False)
            mv = [e for e in rec.events if e["ev"] == "Draw" and e["method"] == "mvn"]
            ev["ncalls"] = len(mv)
            if mv:
                ev["size"] = int(mv[0]["size"]) if mv[0]["size"] is not None else 1
                cov = np.array(mv[0]["cov"], dtype=float)
                mean = np.array(mv[0]["mean"], dtype=float)
                ev["covfinite"] = bool(np.all(np.isfinite(cov)) and np.all(np.isfinite(mean)))
                with np.errstate(all="ignore"):
                    Ai = np.linalg.inv(cov) if ev["covfinite"] else np.full_like(cov, np.nan)
                ev["Ainv"] = rmat(Ai * ratio**2, tol=1e-7)
                ev["rhs"] = rmat((Ai @ mean) * ratio, tol=1e-7)
                ev["covok"] = True
            th = np.stack([np.atleast_1d(out[nm].to_value(helper.internal_units[nm])) for nm in helper.packed_order], axis=1)
            ev["thetasame"] = bool(len(out) == nl and all(np.array_equal(th[j], tchunk[0]) for j in range(len(out))))
        except Exception as ex:
            ev["exc"] = "%s: %s" % (type(ex).__name__, str(ex)[:160])
        events.append(ev)
    merged = None
    if "orbit" in fam:
        from thejoker.data_helpers import validate_prepare_data
        merged = validate_prepare_data(data, g["poly"], g["noff"])[0]
        labm = np.array([g["lab"][n] for n in order])          # survey of each MERGED row (lattice surveys are time-disjoint in list order)

        def with_offsets(rv, row):
            """the curve the row denotes at the data epochs: its orbit plus, for the epochs of survey k, the row's dv0_k"""
            rv = np.array(rv, dtype=float)
            for k in range(1, g["noff"] + 1):
                rv = rv + (labm == k) * float(np.atleast_1d(row["dv0_%d" % k].to_value(kms))[0])
            return rv
    if "orbit" in fam and samples is not None:
        ev = {"ev": "Orbit", "fam": fam["orbit"], "tag": "", "x": [[101 + k, 1] for k in range(L)], "curve": [], "lnlikeok": False, "bayesok": False,
              "bayesspecok": False, "trefsame": False}
        try:
            row0 = samples[0]
            ev["trefsame"] = bool(samples.t_ref is not None and abs(samples.t_ref.tcb.mjd - merged.t_ref.tcb.mjd) < 1e-9)
            rv = with_offsets(row0.get_orbit(0).radial_velocity(merged.t).to_value(kms), row0)
            ev["curve"] = epochs(rmat(rv))
            x = np.array([101.0 + k for k in range(L)])
            if all(c[1] > 0 for c in ev["curve"]):
                cur = np.array([c[0] / c[1] for c in ev["curve"]])
                var = np.array(g["sig2"], dtype=float) + g["s2"]
                y = np.array(g["y"], dtype=float)
                lnlike_phys = float(np.sum(-0.5 * (np.log(2 * np.pi * var) + (y - cur) ** 2 / var)))
                got = float(row0.ln_unmarginalized_likelihood(data)[0])
                ev["lnlikeok"] = bool(abs(got - (lnlike_phys - N * math.log(ratio))) <= 1e-7 + 1e-9 * abs(got))
                # Bayes identity with the kernel's own state (certified by the Kernel / Draw events)
                from . import collab as _collab
                helper2 = _collab.make_helper(joker, data)
                llm = float(np.array(helper2.batch_marginal_ln_likelihood(np.ascontiguousarray(tchunk, dtype=float)))[0]) + N * math.log(ratio)
                helper2.batch_get_posterior_samples(np.ascontiguousarray(tchunk, dtype=float), 1, ScriptedGen(ratio))
                Ai = np.array(helper2.Ainv) * ratio**2
                a = np.array(helper2.a) / ratio
                A = np.linalg.inv(Ai)
                lam = []
                from fractions import Fraction as F
                ome2 = 1 - (g["e"][0] / g["e"][1]) ** 2
                lamK = g["varK"][0] if g["kkind"] == "custom" else min(g["sK0sq"] * (g["r23"][0] / g["r23"][1]) / ome2, g["maxKsq"][0] / g["maxKsq"][1])
                lam = np.array([lamK] + list(g["var"]), dtype=float)
                mu = np.array([g["muK"]] + list(g["mu"]), dtype=float)
                lnprior = float(np.sum(-0.5 * (np.log(2 * np.pi * lam) + (x - mu) ** 2 / lam)))
                lnpost = float(lnN(x, a, A))
                # the identity is a difference of terms that can be 1e7 times larger than the result (sentinel linear parameters far
                # from the data): round-off scales with the largest term
                btol = 1e-6 * max(1.0, abs(llm)) + 1e-10 * max(abs(llm), abs(lnlike_phys), abs(lnprior), abs(lnpost))
                ev["bayesok"] = bool(abs((llm - lnlike_phys) - (lnprior - lnpost)) <= btol)
                ev["bayes_terms"] = [llm, lnlike_phys, lnprior, lnpost]
                # the same identity with the SPECIFICATION's posterior (for attributing a failure to a draw-path deviation)
                Mx = np.zeros((N, L))
                for n in range(N):
                    sgn = lambda j: 1.0 if j % 2 == 0 else -1.0
                    Mx[n, 0] = sgn(g["wi"] + g["kk"][n] + g["m0i"]) + (g["e"][0] / g["e"][1]) * sgn(g["wi"])
                    Mx[n, 1] = 1.0
                    for j in range(1, g["noff"] + 1):
                        Mx[n, 1 + j] = 1.0 if g["lab"][n] == j else 0.0
                    for i in range(1, g["poly"]):
                        Mx[n, 1 + g["noff"] + i] = float(g["kk"][n] * g["ph"]) ** i
                Ai_s = np.diag(1.0 / lam) + Mx.T @ np.diag(1.0 / var) @ Mx
                a_s = np.linalg.solve(Ai_s, mu / lam + Mx.T @ (y / var))
                lnpost_s = float(lnN(x, a_s, np.linalg.inv(Ai_s)))
                ev["bayesspecok"] = bool(abs((llm - lnlike_phys) - (lnprior - lnpost_s)) <= btol)
        except Exception as ex:
            ev["exc"] = "%s: %s" % (type(ex).__name__, str(ex)[:160])
        events.append(ev)
    if "orbit" in fam:
        # a HAND-BUILT row (every column in the sample-side units of this assignment, linear parameters included)
        ev = {"ev": "Orbit", "fam": fam["orbit"], "tag": "HandBuilt", "x": [[201 + k, 1] for k in range(L)], "curve": [], "lnlikeok": False,
              "bayesok": True, "bayesspecok": True, "trefsame": True}
        try:
            from thejoker import JokerSamples
            hb = JokerSamples(t_ref=merged.t_ref, poly_trend=g["poly"], n_offsets=g["noff"])
            for k in ("P", "e", "omega", "M0", "s"):
                hb[k] = target[k]
            names = ["K"] + slot_names
            for kx, nm in enumerate(names):
                power = int(nm[1:]) if nm.startswith("v") and not nm.startswith("dv") else 0
                su = U(ua["kprior"]) if nm == "K" else U(ua["lin"][kx - 1])
                hb[nm] = (np.array([201.0 + kx]) * kms / u.day ** power).to(su / U(ua["slope_t"]) ** power if power else su)
            rv = with_offsets(hb.get_orbit(0).radial_velocity(merged.t).to_value(kms), hb)
            ev["curve"] = epochs(rmat(rv))
            if all(c[1] > 0 for c in ev["curve"]):
                cur = np.array([c[0] / c[1] for c in ev["curve"]])
                var = np.array(g["sig2"], dtype=float) + g["s2"]
                y = np.array(g["y"], dtype=float)
                want = float(np.sum(-0.5 * (np.log(2 * np.pi * var) + (y - cur) ** 2 / var))) - N * math.log(ratio)
                got = float(hb.ln_unmarginalized_likelihood(data)[0])
                ev["lnlikeok"] = bool(abs(got - want) <= 1e-7 + 1e-9 * abs(want))
        except Exception as ex:
            ev["exc"] = "%s: %s" % (type(ex).__name__, str(ex)[:160])
        events.append(ev)
    return {"id": case["id"], "events": events}


def realize_mcmc(case):
    """setup_mcmc on a lattice configuration: the pymc model's RV curve, its ln_likelihood deterministic, the observed node's
    log-density and the initial point, evaluated at substituted lattice parameter values"""
    import astropy.units as u
    import pytensor
    from thejoker import JokerSamples, TheJoker
    import thejoker.units as xu
    g, ua = case["g"], case["ua"]
    events = [{"ev": "Cfg", "g": g, "ua": {k: v for k, v in ua.items()}}]
    kms = u.km / u.s
    N, L = g["N"], 1 + g["poly"] + g["noff"]
    ev = {"ev": "Mcmc", "fam": "C11", "x": [[101 + k, 1] for k in range(L)], "curve": [], "lnlikeok": False, "initok": False, "kf": "",
          "obsok": False, "freeok": False, "termsok": False}
    try:
        data, prior, target, decoy, order, slot_names = build(g, ua, case.get("jitter_kind", "sampled"))
        events[0]["via_default"] = bool(getattr(prior, "_verif_via_default", False))
        ratio = (1 * kms).to_value(U(ua["data"]))
        pos = {n: r for r, n in enumerate(order)}
        perm = [pos[n] for n in range(N)]
        names = ["K"] + slot_names
        nrows = case.get("nrows", 1)
        smp = JokerSamples(poly_trend=g["poly"], n_offsets=g["noff"])
        # several rows: the target is the median-period member (periods P*(1 +- small)), others differ in every column
        mult = [1.0] if nrows == 1 else [1.0 + 0.01 * (j - nrows // 2) for j in range(nrows)]
        tP = np.atleast_1d(target["P"].value)[0]
        smp["P"] = np.array([tP * m for m in mult]) * target["P"].unit
        for k in ("e", "omega", "M0", "s"):
            v = np.atleast_1d(target[k].value)[0]
            smp[k] = np.array([v if m == 1.0 else v * 0.5 + 0.1 for m in mult]) * (target[k].unit if hasattr(target[k], "unit") else 1)
        for kx, nm in enumerate(names):
            power = int(nm[1:]) if nm.startswith("v") and not nm.startswith("dv") else 0
            col = np.array([(101.0 + kx) if m == 1.0 else 7.0 for m in mult]) * kms / u.day ** power
            su = U(ua["kprior"]) if nm == "K" else U(ua["lin"][kx - 1])
            smp[nm] = col.to(su / U(ua["slope_t"]) ** power if power else su)
        order_rows = list(range(nrows))
        if nrows > 1 and case.get("shuffle_rows"):
            import random as _r
            _r.Random(case.get("seed", 0)).shuffle(order_rows)
            smp = smp[np.array(order_rows)]
        joker = TheJoker(prior)
        from thejoker.data_helpers import validate_prepare_data
        merged = validate_prepare_data(data, g["poly"], g["noff"])[0]
        free_before = sorted(v.name for v in prior.model.free_RVs)
        pot_before = sorted(v.name for v in prior.model.potentials)       # the angles of JokerPrior.default bring their own
        with prior.model:
            init = joker.setup_mcmc(data, smp)
        m = prior.model
        # the model's total log-density is the sum over its basic random variables and potentials: setup_mcmc may add exactly one
        # observed node (the data term) and nothing else that carries density (no new free variable, no potential)
        ev["termsok"] = bool(sorted(v.name for v in m.free_RVs) == free_before and len(m.observed_RVs) == 1
                             and sorted(v.name for v in m.potentials) == pot_before)
        p = prior.pars
        # initial point: the chosen sample in the PRIOR's units
        tgt = {}
        for k in ("P", "e", "omega", "M0", "s"):
            tgt[k] = target[k]
        ok = True
        for nm in prior.par_names:
            unit = getattr(p[nm], xu.UNIT_ATTR_NAME)
            if nm in tgt:
                want = np.atleast_1d(tgt[nm].to_value(unit) if hasattr(tgt[nm], "to_value") else tgt[nm])[0]
            else:
                kx = names.index(nm)
                power = int(nm[1:]) if nm.startswith("v") and not nm.startswith("dv") else 0
                want = ((101.0 + kx) * kms / u.day ** power).to_value(unit)
            got = float(np.asarray(init[nm]))
            if abs(got - want) > 1e-9 * max(1.0, abs(want)):
                ok = False
                ev["init_mismatch"] = [nm, got, float(want)]
        ev["initok"] = bool(ok and set(init.keys()) >= set(prior.par_names))
        # every parameter of the prior is a variable OF THE MODEL setup_mcmc returns: a free RV, or a named deterministic
        # transform of free RVs (a constant jitter; the angles of JokerPrior.default, which pymc_ext builds from a unit disk)
        named = list(m.free_RVs) + list(m.deterministics)
        ev["freeok"] = bool(all(any(v is p[nm] for v in named) for nm in prior.par_names))
        inputs = [p[nm] for nm in prior.par_names]
        import pymc as pm
        f = pytensor.function(inputs, [m["model_rv"], m["ln_likelihood"], pm.logp(m["obs"], m.rvs_to_values[m["obs"]] if False else np.asarray(merged.rv.value)).sum()],
                              on_unused_input="ignore")
        args = [np.float64(np.asarray(init[nm])) for nm in prior.par_names]
        rv, lnl, obslp = f(*args)
        rv_phys = np.asarray(rv, dtype=float) / ratio
        ev["curve"] = [rmat(rv_phys)[perm[n]] for n in range(N)]
        x = np.array([101.0 + k for k in range(L)])
        if all(c[1] > 0 for c in ev["curve"]):
            cur = np.array([c[0] / c[1] for c in ev["curve"]])
            var = np.array(g["sig2"], dtype=float) + g["s2"]
            y = np.array(g["y"], dtype=float)
            want = float(np.sum(-0.5 * (np.log(2 * np.pi * var) + (y - cur) ** 2 / var))) - N * math.log(ratio)
            ev["lnlikeok"] = bool(abs(float(lnl) - want) <= 1e-7 + 1e-9 * abs(want))
            ev["obsok"] = bool(abs(float(obslp) - want) <= 1e-7 + 1e-9 * abs(want))
            ev["lnl"] = [float(lnl), float(obslp), want]
            # known deviation: the deterministic is the un-jittered Gaussian sum
            var0 = np.array(g["sig2"], dtype=float)
            want0 = float(np.sum(-0.5 * (np.log(2 * np.pi * var0) + (y - cur) ** 2 / var0))) - N * math.log(ratio)
            if not ev["lnlikeok"] and g["s2"] > 0 and abs(float(lnl) - want0) <= 1e-7 + 1e-9 * abs(want0):
                ev["kf"] = "KF_McmcLnLikeNoJitter"
    except Exception as ex:
        ev["exc"] = "%s: %s" % (type(ex).__name__, str(ex)[:200])
    events.append(ev)
    return {"id": case["id"], "events": events}


# ----------------------------------------------------------------------------------------------- off the lattice
def random_real_config(rnd, many_surveys=False):
    """a random valid problem over the reals (surveys time-disjoint in list order: the one class an open finding - C08's label
    order - still excludes) - see harness/gauss_oracle.py for the fields"""
    poly = rnd.choice([1, 1, 2, 3])
    noff = rnd.choice([0, 0, 1, 2])
    if many_surveys:          # more than nine offsets: dv0_10 must not be taken for dv0_1's neighbour by anything that sorts names
        noff = 11
    nper = [rnd.randint(2, 9 if not many_surveys else 4) for _ in range(noff + 1)]
    t, lab = [], []
    start = rnd.uniform(-30.0, 60.0)
    for j, n in enumerate(nper):
        span = rnd.choice([5.0, 40.0, 300.0])
        ts = sorted(start + rnd.uniform(0, span) for _ in range(n))
        t += ts
        lab += [j] * n
        start = ts[-1] + rnd.uniform(0.5, 20.0)
    N = len(t)
    P = math.exp(rnd.uniform(math.log(1.5), math.log(400.0)))
    e = rnd.choice([0.0, rnd.uniform(0, 0.6), rnd.uniform(0.6, 0.95), rnd.uniform(0.95, 0.99)])     # the property's range: 0 <= e <= 0.99
    kkind = "custom" if rnd.random() < 0.3 else "default"
    c = {"t": t, "lab": lab, "y": [rnd.gauss(0, 20.0) for _ in range(N)], "sig2": [rnd.uniform(0.05, 4.0) ** 2 for _ in range(N)],
         "s2": rnd.choice([0.0, rnd.uniform(0.1, 3.0) ** 2]), "P": P, "e": e, "omega": rnd.uniform(0, 2 * math.pi),
         "M0": rnd.uniform(0, 2 * math.pi), "poly": poly, "noff": noff, "kkind": kkind, "sK0sq": rnd.uniform(5.0, 60.0) ** 2,
         "P0": rnd.choice([365.25, 10.0, 100.0]), "maxKsq": rnd.choice([500.0 ** 2, 500.0 ** 2, rnd.uniform(3.0, 40.0) ** 2]),
         "muK": rnd.choice([0.0, rnd.uniform(-5, 5)]), "varK": rnd.uniform(2.0, 50.0) ** 2,
         "mu": [rnd.choice([0.0, rnd.uniform(-3, 3)]) for _ in range(poly + noff)],
         "var": [rnd.uniform(20.0, 120.0) ** 2] + [rnd.uniform(1.0, 9.0) ** 2 for _ in range(noff)]
                + [(rnd.uniform(0.05, 1.0) / (30.0 ** (i - 1))) ** 2 for i in range(1, poly)]}
    # a single source without reference epoch (RVData(..., t_ref=False), a documented option: times are then measured from BMJD 0);
    # kept to trend-free problems - powers of 55000 d are a matter of conditioning, not of conventions
    c["tref_off"] = bool(noff == 0 and poly == 1 and rnd.random() < 0.3)
    return c


def build_real(c, ua):
    import astropy.units as u
    import pymc as pm
    import thejoker.units as xu
    from astropy.time import Time
    from thejoker import JokerPrior, JokerSamples, RVData
    from thejoker.distributions import FixedCompanionMass
    kms = u.km / u.s
    poly, noff = c["poly"], c["noff"]
    du = U(ua["data"])
    srcs = []
    t = np.array(c["t"], dtype=float)
    lab = np.array(c["lab"], dtype=int)
    for j in range(noff + 1):
        idx = np.where(lab == j)[0]
        sdu = du if j == 0 else U(ua["src_units"][j])
        tt = Time(T0 + t[idx], format="mjd", scale="tcb")
        y = (np.array(c["y"])[idx] * kms).to(sdu)
        err = (np.sqrt(np.array(c["sig2"])[idx]) * kms).to(U(ua["err_units"][j]))
        srcs.append(RVData(tt, y, err, t_ref=(False if c.get("tref_off") else Time(T0, format="mjd", scale="tcb")))
                    if noff == 0 and not c.get("tref_min") else RVData(tt, y, err))
    data = srcs[0] if noff == 0 else srcs
    # with several surveys the reference epoch is the earliest epoch of the merged data; without reference epoch it is BMJD 0
    tref_shift = (-T0 if c.get("tref_off") else 0.0) if noff == 0 and not c.get("tref_min") else float(np.min(t))
    ku = U(ua["kprior"])
    slot_names = ["v0"] + ["dv0_%d" % j for j in range(1, noff + 1)] + ["v%d" % i for i in range(1, poly)]
    tu = U(ua["slope_t"])
    with pm.Model() as model:
        pu = U(ua.get("pprior", "d"))
        P = xu.with_unit(pm.Uniform("P", np.float64((0.01 * u.day).to_value(pu)), np.float64((1000.0 * u.day).to_value(pu))), pu)
        e = xu.with_unit(pm.Uniform("e", np.float64(0.0), np.float64(0.99)), u.one)
        om = xu.with_unit(pm.Uniform("omega", np.float64(0.0), np.float64(2 * np.pi)), u.rad)
        M0 = xu.with_unit(pm.Uniform("M0", np.float64(0.0), np.float64(2 * np.pi)), u.rad)
        su = U(ua["ss"])
        s = xu.with_unit(pm.Uniform("s", np.float64(0.0), np.float64(50000.0)), su)
        if c["kkind"] == "default":
            K = xu.with_unit(FixedCompanionMass("K", P=P, e=e, sigma_K0=np.float64((math.sqrt(c["sK0sq"]) * kms).to_value(ku)) * ku,
                                                P0=np.float64((c["P0"] * u.day).to_value(U(ua["p0"]))) * U(ua["p0"]),
                                                mu=np.float64((c["muK"] * kms).to_value(ku)),
                                                max_K=np.float64((math.sqrt(c["maxKsq"]) * kms).to_value(ku)) * ku), ku)
        else:
            K = xu.with_unit(pm.Normal("K", np.float64((c["muK"] * kms).to_value(ku)),
                                       np.float64((math.sqrt(c["varK"]) * kms).to_value(ku))), ku)
        pars = {"P": P, "e": e, "omega": om, "M0": M0, "s": s, "K": K}
        offs = []
        for i, name in enumerate(slot_names):
            vu = U(ua["lin"][i])
            power = int(name[1:]) if name.startswith("v") and not name.startswith("dv") else 0
            unit = vu / tu ** power if power else vu
            phys = kms / u.day ** power if power else kms
            var_ = xu.with_unit(pm.Normal(name, np.float64((c["mu"][i] * phys).to_value(unit)),
                                          np.float64((math.sqrt(c["var"][i]) * phys).to_value(unit))), unit)
            if name.startswith("dv0"):
                offs.append(var_)
            else:
                pars[name] = var_
        prior = JokerPrior(pars=pars, poly_trend=poly, v0_offsets=offs[::-1] if ua.get("offorder") == "reversed" else offs, model=model)
    smp = JokerSamples(poly_trend=poly, n_offsets=noff)
    smp["P"] = (np.array([c["P"]]) * u.day).to(U(ua["sP"]))
    smp["e"] = np.array([c["e"]])
    smp["omega"] = (np.array([c["omega"]]) * u.rad).to(U(ua["sang"]))
    # M0 of the oracle is relative to t = 0 of c["t"]; the data's reference epoch may lie tref_shift later
    M0_ref = (c["M0"] - 2 * np.pi * tref_shift / c["P"]) % (2 * np.pi)
    smp["M0"] = (np.array([M0_ref]) * u.rad).to(U(ua["sang"]))
    smp["s"] = (np.array([math.sqrt(c["s2"])]) * kms).to(U(ua["ss"]))
    return data, prior, smp, slot_names, tref_shift


def realize_real(case):
    """one off-lattice problem: the real code's marginal likelihood, posterior mean / covariance and Bayes identity against the
    floating-point transcription of the specification; returns the deviations (the check applies the tolerances)"""
    import random as _random
    import astropy.units as u
    from thejoker import TheJoker
    from . import gauss_oracle as go
    rnd = _random.Random(case["seed"])
    c = random_real_config(rnd, many_surveys=bool(case.get("many_surveys")))
    L_ = 1 + c["poly"] + c["noff"]
    ua = random_units(rnd, L_)
    if c["noff"] > 2:         # one unit per survey (the assignments are drawn for three)
        for key in ("src_units", "err_units"):
            ua[key] = [ua[key][k % 3] for k in range(c["noff"] + 1)]
    ua["pprior"] = rnd.choice(["d", "yr", "h", "oct"])           # the period prior in any time unit
    out = {"id": case["id"], "seed": case["seed"], "c": {k: (v if not isinstance(v, list) or len(v) <= 12 else v[:12]) for k, v in c.items()},
           "ok": False}
    try:
        data, prior, smp, slot_names, shift = build_real(c, ua)
        kms = u.km / u.s
        ratio = (1 * kms).to_value(U(ua["data"]))
        N = len(c["t"])
        # the oracle works relative to the data's reference epoch: trend columns are powers of (t - t_ref)
        c2 = dict(c)
        c2["t"] = [x - shift for x in c["t"]]
        c2["M0"] = (c["M0"] - 2 * np.pi * shift / c["P"])
        joker = TheJoker(prior, rng=np.random.default_rng(case["seed"]))
        with np.errstate(all="ignore"):
            ll_mem = float(joker.marginal_ln_likelihood(data, smp, in_memory=True)[0])
            ll_file = float(joker.marginal_ln_likelihood(data, smp)[0])
        want = go.ln_marginal(c2) - N * math.log(ratio)
        out.update(ll=ll_mem, ll_file=ll_file, ll_oracle=float(want), dev_ll=abs(ll_mem - want) / max(1.0, abs(want)),
                   dev_paths=abs(ll_mem - ll_file) / max(1.0, abs(want)))
        capped = c["kkind"] == "default" and c["sK0sq"] * (c["P"] / c["P0"]) ** (-2.0 / 3.0) / (1 - c["e"] ** 2) > c["maxKsq"]
        out["capped"] = bool(capped)
        if True:      # capped or not: the draw path uses the same K variance as the marginal path
            sg = ScriptedGen(ratio)
            helper = _spy_helper(joker, data, sg)
            chunk, _ = smp.pack(units=helper.internal_units, names=helper.packed_order)
            with np.errstate(all="ignore"):
                samples = draw_inmem(joker, helper, smp, chunk, np.random.default_rng(1), 1)
            a_o, A_o = go.posterior(c2)
            # kernel state is in the data's unit: parameter i has unit data/day^p; all slots scale by `ratio`
            mean = np.array(sg.calls[0]["mean"], dtype=float) / ratio
            cov = np.array(sg.calls[0]["cov"], dtype=float) / ratio ** 2
            sc = np.sqrt(np.diag(A_o))
            out["dev_mean"] = float(np.max(np.abs(mean - a_o) / sc))
            out["dev_cov"] = float(np.max(np.abs(cov - A_o) / np.outer(sc, sc)))
            # Bayes identity with a fixed linear vector x (a + one sigma in every slot): the row's unmarginalised likelihood comes
            # from the real code (get_orbit), prior and posterior densities of x from the oracle
            x = a_o + sc
            row = samples[0:1].copy() if len(samples) else samples
            names = ["K"] + slot_names
            for k, nm in enumerate(names):
                power = int(nm[1:]) if nm.startswith("v") and not nm.startswith("dv") else 0
                phys = kms / u.day ** power if power else kms
                row[nm] = (np.array([x[k]]) * phys).to(row[nm].unit)
            from thejoker.data_helpers import validate_prepare_data
            merged = validate_prepare_data(data, c["poly"], c["noff"])[0]
            if True:       # with and without survey offsets: the row's unmarginalised likelihood takes what the sampler takes
                lnl = float(np.atleast_1d(row.ln_unmarginalized_likelihood(data))[0])
                lam_, mu_ = go.lam(c2), go.mu(c2)
                lnprior = float(-0.5 * np.sum((x - mu_) ** 2 / lam_ + np.log(2 * np.pi * lam_)))
                d = x - a_o
                sign, logdet = np.linalg.slogdet(2 * np.pi * A_o)
                lnpost = float(-0.5 * (d @ np.linalg.solve(A_o, d) + logdet))
                # ln_unmarginalized_likelihood is in the data's unit as well (Jacobian N ln ratio)
                # relative to the largest term: the identity is a difference of large numbers when the prior-mean residual is large
                out["dev_bayes"] = abs(ll_mem - (lnl + lnprior - lnpost)) / max(1.0, abs(ll_mem), abs(lnl), abs(lnprior), abs(lnpost))
        out["ok"] = True
    except Exception as ex:
        out["exc"] = "%s: %s" % (type(ex).__name__, str(ex)[:200])
    return out


def oracle_trace(case):
    """the floating-point transcription (gauss_oracle) evaluated on a LATTICE configuration, dressed as Kernel / Draw / Orbit events of
    family H: the GaussTrace monitor then says whether the transcription reproduces the specification's exact matrices.  A failing
    clause is a machinery failure (the oracle is wrong), never a verdict about the code."""
    from . import gauss_oracle as go
    g = case["g"]
    c = go.from_lattice(g)
    Lg = 1 + g["poly"] + g["noff"]
    x = [[101 + k, 1] for k in range(Lg)]
    ev = [{"ev": "Cfg", "g": g, "ua": {}},
          {"ev": "Kernel", "fam": "H", "B": rmat(go.B(c)), "b": rmat(go.bvec(c)), "finite": True, "llok": True, "apisame": True},
          {"ev": "Orbit", "fam": "H", "tag": "", "x": x, "curve": rmat(go.curve(c, [101.0 + k for k in range(Lg)])), "lnlikeok": True,
           "bayesok": True, "bayesspecok": True, "trefsame": True}]
    # the specification's posterior state is the uncapped / capped K variance of the draw path = the marginal one (no deviation)
    ev.insert(2, {"ev": "Draw", "fam": "H", "tag": "", "covfinite": True, "Ainv": rmat(go.ainv(c)), "rhs": rmat(go.rhs(c)), "covok": True,
                  "ncalls": 1, "size": 1, "nlinear": 1, "outx": [], "sent": [], "thetasame": True})
    return {"id": "oracle-" + case["id"], "events": ev}


OFF_TOL = 1e-6      # observed on the unchanged tree: <= 2e-8 (Kepler solver tolerance at high eccentricity); structural faults: >> 1e-3


def offlattice(ctx, family, n, key):
    """run n random real-valued problems; `key` selects the deviation this property owns.  Returns the list of results."""
    from . import core
    # (the first two problems of C01 / C03 have twelve surveys: eleven offsets with priors of their own)
    res = core.pmap(realize_real, [{"id": "real-%s-%d" % (family, i), "seed": ctx.seed * 100000 + 7 * i + len(family),
                                    "many_surveys": family in ("C01", "C03") and i < 2} for i in range(n)], chunksize=4)
    worst = 0.0
    used = 0
    for r in res:
        ctx.count()
        if not r["ok"]:
            ctx.fail("%s.OffLatticeProblemRaises" % family, r)
            continue
        for k, clause in key:
            if k in r:
                used += 1
                worst = max(worst, r[k])
                if not (r[k] <= OFF_TOL):
                    ctx.fail("%s.%s" % (family, clause), r, detail={k: r[k]})
        ctx.nontrivial(("real", r["seed"]))
    ctx.notes["off_lattice_problems"] = len(res)
    ctx.notes["off_lattice_comparisons"] = used
    ctx.notes["off_lattice_largest_relative_deviation"] = worst
    return res


def realize_few_epochs(case):
    """off the lattice, where B = C + M Lambda M^T is far from the scale of C: FEWER epochs than broadly-prior'd linear parameters
    (1-3 epochs, a quadratic or cubic trend with prior widths of 1e4..1e7 km/s/d^i).  Only the marginal likelihood is asked for
    (the conditional posterior of such a problem is degenerate); the reference is exact rational arithmetic on the float inputs."""
    import random as _random
    import astropy.units as u
    from thejoker import TheJoker
    from . import gauss_oracle as go
    rnd = _random.Random(case["seed"])
    c = random_real_config(rnd)
    poly = rnd.choice([2, 3, 3])
    N = rnd.randint(1, poly)
    start = rnd.uniform(-30.0, 60.0)
    t = sorted(start + rnd.uniform(0, rnd.choice([3.0, 40.0, 300.0])) for _ in range(N))
    broad = 10.0 ** rnd.uniform(4, 7)
    c.update(t=t, lab=[0] * N, y=[rnd.gauss(0, 20.0) for _ in range(N)], sig2=[rnd.uniform(0.05, 1.0) ** 2 for _ in range(N)],
             poly=poly, noff=0, mu=[0.0] * poly, var=[broad ** 2] * poly, tref_off=False,
             # the default reference epoch is the earliest time: the first epoch then has dt = 0 exactly (exact zeros in the design matrix)
             tref_min=rnd.random() < 0.6)
    ua = random_units(rnd, 1 + poly)
    out = {"id": case["id"], "seed": case["seed"], "c": dict(c), "ok": False}
    try:
        from thejoker import JokerSamples
        data, prior, smp, slot_names, shift = build_real(c, ua)
        ratio = (1 * u.km / u.s).to_value(U(ua["data"]))
        # many rows per problem: whether an unneeded factorisation hits an exactly zero pivot depends on the row
        R = 24
        Ps = [math.exp(rnd.uniform(math.log(1.5), math.log(400.0))) for _ in range(R)]
        es = [rnd.choice([0.0, rnd.uniform(0, 0.9)]) for _ in range(R)]
        oms = [rnd.uniform(0, 2 * math.pi) for _ in range(R)]
        M0s = [rnd.uniform(0, 2 * math.pi) for _ in range(R)]
        rows = JokerSamples(poly_trend=c["poly"], n_offsets=0)
        rows["P"] = (np.array(Ps) * u.day).to(smp["P"].unit)
        rows["e"] = np.array(es)
        rows["omega"] = (np.array(oms) * u.rad).to(smp["omega"].unit)
        rows["M0"] = (np.array(M0s) * u.rad).to(smp["M0"].unit)
        rows["s"] = np.repeat(smp["s"], R)
        joker = TheJoker(prior, rng=np.random.default_rng(case["seed"]))
        with np.errstate(all="ignore"):
            ll_mem = np.asarray(joker.marginal_ln_likelihood(data, rows, in_memory=True), dtype=float)
            ll_file = np.asarray(joker.marginal_ln_likelihood(data, rows), dtype=float)
        out["finite"] = bool(np.all(np.isfinite(ll_mem)) and np.all(np.isfinite(ll_file)))
        out["n_not_finite"] = int(np.sum(~np.isfinite(ll_mem)) + np.sum(~np.isfinite(ll_file)))
        dev, cond = 0.0, 0.0
        for k in range(R):
            c2 = dict(c)
            c2["t"] = [x - shift for x in c["t"]]
            c2.update(P=Ps[k], e=es[k], omega=oms[k], M0=M0s[k])
            want = go.ln_marginal_exact(c2) - N * math.log(ratio)
            if np.isfinite(ll_mem[k]) and np.isfinite(ll_file[k]):
                d = max(abs(ll_mem[k] - want), abs(ll_file[k] - want)) / max(1.0, abs(want))
                if d > dev:
                    dev, cond = d, float(np.linalg.cond(go.B(c2)))
            else:
                out["cond_B_nonfinite"] = max(out.get("cond_B_nonfinite", 0.0), float(np.linalg.cond(go.B(c2))))
        out["dev_ll"] = float(dev)
        out["cond_B"] = float(cond)
        out["ll"], out["ll_file"] = [float(x) for x in ll_mem[:4]], [float(x) for x in ll_file[:4]]
        out["ok"] = True
    except Exception as ex:
        out["exc"] = "%s: %s" % (type(ex).__name__, str(ex)[:200])
    return out


def realize_illcond(case):
    """off the lattice, the opposite corner: MANY epochs on a long baseline with small errors and wide trend priors, so that
    B = C + M Lambda M^T has a condition number of 1e10..1e18.  Reference: exact rational arithmetic on the float inputs."""
    import random as _random
    import time as _time
    import astropy.units as u
    from thejoker import JokerSamples, TheJoker
    from . import gauss_oracle as go
    rnd = _random.Random(case["seed"])
    c = random_real_config(rnd)
    poly = rnd.choice([2, 3, 3])
    N = rnd.randint(10, 20)
    base = rnd.choice([1500.0, 3000.0])
    t = sorted(rnd.uniform(0, base) for _ in range(N))
    sig = rnd.choice([0.001, 0.01, 0.05])
    var = [100.0 ** 2, 1.0 ** 2, rnd.choice([0.1, 1.0]) ** 2][:poly]
    c.update(t=t, lab=[0] * N, y=[rnd.gauss(0, 3.0) for _ in range(N)], sig2=[sig ** 2] * N, s2=0.0, poly=poly, noff=0, mu=[0.0] * poly,
             var=var, tref_off=False, tref_min=True, kkind="default", muK=0.0)
    ua = random_units(rnd, 1 + poly)
    ua.update(data="km/s", kprior="km/s", lin=["km/s"] * poly, slope_t="d", builder="explicit")
    out = {"id": case["id"], "seed": case["seed"], "c": {k: (v if not isinstance(v, list) or len(v) <= 12 else v[:12]) for k, v in c.items()},
           "ok": False}
    try:
        data, prior, smp, slot_names, shift = build_real(c, ua)
        R = 4
        Ps = [math.exp(rnd.uniform(math.log(5.0), math.log(400.0))) for _ in range(R)]
        es = [rnd.uniform(0, 0.6) for _ in range(R)]
        oms = [rnd.uniform(0, 2 * math.pi) for _ in range(R)]
        M0s = [rnd.uniform(0, 2 * math.pi) for _ in range(R)]
        rows = JokerSamples(poly_trend=poly, n_offsets=0)
        rows["P"] = (np.array(Ps) * u.day).to(smp["P"].unit)
        rows["e"] = np.array(es)
        rows["omega"] = (np.array(oms) * u.rad).to(smp["omega"].unit)
        rows["M0"] = (np.array(M0s) * u.rad).to(smp["M0"].unit)
        rows["s"] = np.repeat(smp["s"], R) * 0
        joker = TheJoker(prior, rng=np.random.default_rng(case["seed"]))
        with np.errstate(all="ignore"):
            ll = np.asarray(joker.marginal_ln_likelihood(data, rows, in_memory=True), dtype=float)
        dev, cond, absdev = 0.0, 0.0, 0.0
        for k in range(R):
            c2 = dict(c)
            c2["t"] = [x - shift for x in c["t"]]
            c2.update(P=Ps[k], e=es[k], omega=oms[k], M0=M0s[k])
            want = go.ln_marginal_exact(c2)
            cond = max(cond, float(np.linalg.cond(go.B(c2))))
            d = abs(ll[k] - want) if np.isfinite(ll[k]) else 1e300
            absdev = max(absdev, d)
            dev = max(dev, d / max(1.0, abs(want)))
        out.update(dev_ll=float(dev), abs_dev_ll=float(absdev), cond_B=float(cond), ok=True)
    except Exception as ex:
        out["exc"] = "%s: %s" % (type(ex).__name__, str(ex)[:200])
    return out


def offlattice_illcond(ctx, family, n):
    """the ill-conditioned corner is an OPEN FINDING (known_findings.json KF_IllConditionedB): a deviation is reported as that finding
    only when the condition number of B is beyond 1e10 - a deviation on a well-conditioned problem is a violation like any other"""
    from . import core
    res = core.pmap(realize_illcond, [{"id": "cond-%s-%d" % (family, i), "seed": ctx.seed * 100000 + 17 * i + 9} for i in range(n)], chunksize=1)
    hits, worst_abs, worst_cond = 0, 0.0, 0.0
    for r in res:
        ctx.count()
        if not r["ok"]:
            ctx.fail("%s.OffLatticeProblemRaises" % family, r)
            continue
        worst_cond = max(worst_cond, r["cond_B"])
        if not (r["dev_ll"] <= OFF_TOL):
            kf = "KF_IllConditionedB" if r["cond_B"] > 1e10 else None
            if ctx.fail("%s.OffLatticeValueIsLnNormalOfTheSpecifiedGaussian" % family, r, kf=kf,
                        detail={"dev_ll": r["dev_ll"], "abs_dev_ll": r["abs_dev_ll"], "cond_B": r["cond_B"]}) == "known":
                hits += 1
                worst_abs = max(worst_abs, r["abs_dev_ll"])
        ctx.nontrivial(("cond", r["seed"]))
    ctx.notes["ill_conditioned_problems"] = {"run": len(res), "beyond_round_off (the open finding)": hits, "largest_absolute_error_in_lnL": worst_abs,
                                             "largest_condition_number_of_B": worst_cond}
    return res


def offlattice_few_epochs(ctx, family, n):
    from . import core
    res = core.pmap(realize_few_epochs, [{"id": "few-%s-%d" % (family, i), "seed": ctx.seed * 100000 + 11 * i + 3} for i in range(n)], chunksize=4)
    worst = 0.0
    for r in res:
        ctx.count()
        if not r["ok"]:
            ctx.fail("%s.OffLatticeProblemRaises" % family, r)
        elif not r["finite"]:
            # (a non-finite value on a problem beyond the condition number of the open finding belongs to that finding)
            ctx.fail("%s.FiniteForFiniteValidInput" % family, r, kf="KF_IllConditionedB" if r.get("cond_B_nonfinite", 0.0) > 1e10 else None,
                     detail={"ll": r["ll"], "ll_file": r["ll_file"], "cond_B": r.get("cond_B_nonfinite")})
        elif not (r["dev_ll"] <= OFF_TOL):
            # few epochs close together far from the reference epoch make B ill-conditioned too (powers of nearly equal dt): beyond a
            # condition number of 1e10 that is the open finding KF_IllConditionedB, below it a violation
            ctx.fail("%s.OffLatticeMarginalIsTheClosedForm" % family, r, kf="KF_IllConditionedB" if r.get("cond_B", 0.0) > 1e10 else None,
                     detail={"dev_ll": r["dev_ll"], "cond_B": r.get("cond_B")})
        else:
            worst = max(worst, r["dev_ll"])
        ctx.nontrivial(("few", r["seed"]))
    ctx.notes["few_epoch_problems"] = len(res)
    ctx.notes["few_epoch_largest_relative_deviation"] = worst
    return res


def realize_mcmc_real(case):
    """off the lattice for C11: setup_mcmc on a random real-valued problem; model_rv, the observed node's log-density and the
    ln_likelihood deterministic at a random parameter point against the floating-point transcription of the specification (whose
    Keplerian column comes from an independent Newton solver - thejoker's pytensor Kepler solver is exercised at generic phases)"""
    import random as _random
    import astropy.units as u
    import pymc as pm
    import pytensor
    import thejoker.units as xu
    from thejoker import JokerSamples, TheJoker
    from thejoker.data_helpers import validate_prepare_data
    from . import gauss_oracle as go
    rnd = _random.Random(case["seed"])
    c = random_real_config(rnd)
    L_ = 1 + c["poly"] + c["noff"]
    ua = random_units(rnd, L_)
    ua["pprior"] = rnd.choice(["d", "yr", "h", "oct"])
    out = {"id": case["id"], "seed": case["seed"], "c": {k: (v if not isinstance(v, list) or len(v) <= 12 else v[:12]) for k, v in c.items()},
           "ok": False}
    try:
        data, prior, smp, slot_names, shift = build_real(c, ua)
        kms = u.km / u.s
        ratio = (1 * kms).to_value(U(ua["data"]))
        N = len(c["t"])
        c2 = dict(c)
        c2["t"] = [x - shift for x in c["t"]]
        c2["M0"] = (c["M0"] - 2 * np.pi * shift / c["P"])
        # a full row (theta, x) with random linear parameters, in the sample-side units of this assignment
        names = ["K"] + slot_names
        x = [rnd.uniform(-30, 30)] + [rnd.uniform(-20, 20) for _ in slot_names]
        for kx, nm in enumerate(names):
            power = int(nm[1:]) if nm.startswith("v") and not nm.startswith("dv") else 0
            if power:
                x[kx] = x[kx] / 50.0 ** power
            su = U(ua["kprior"]) if nm == "K" else U(ua["lin"][kx - 1])
            smp[nm] = (np.array([x[kx]]) * kms / u.day ** power).to(su / U(ua["slope_t"]) ** power if power else su)
        joker = TheJoker(prior)
        merged = validate_prepare_data(data, c["poly"], c["noff"])[0]
        with prior.model:
            init = joker.setup_mcmc(data, smp)
        m = prior.model
        p = prior.pars
        inputs = [p[nm] for nm in prior.par_names]
        f = pytensor.function(inputs, [m["model_rv"], m["ln_likelihood"], pm.logp(m["obs"], np.asarray(merged.rv.value)).sum()],
                              on_unused_input="ignore")
        rv, lnl, obslp = f(*[np.float64(np.asarray(init[nm])) for nm in prior.par_names])
        cur = go.curve(c2, x)
        scale = max(1.0, float(np.max(np.abs(cur))))
        out["dev_curve"] = float(np.max(np.abs(np.asarray(rv, dtype=float) / ratio - cur))) / scale
        var = go.cs(c2)
        y = np.asarray(c["y"], dtype=float)
        want = float(np.sum(-0.5 * (np.log(2 * np.pi * var) + (y - cur) ** 2 / var))) - N * math.log(ratio)
        out["dev_lnlike"] = abs(float(lnl) - want) / max(1.0, abs(want))
        out["dev_obs"] = abs(float(obslp) - want) / max(1.0, abs(want))
        out["ok"] = True
        # a SECOND setup_mcmc with the same TheJoker / prior / model for another data set (the next star of a loop): the call may be
        # refused, or the model must now describe THAT data set - it may not quietly go on describing the first one
        cB = dict(c)
        cB["t"] = [tt + 0.731 for tt in c["t"]]
        cB["y"] = [0.5 * yy + 3.0 for yy in c["y"]]
        dataB, _, _, _, shiftB = build_real(cB, ua)
        try:
            with prior.model:
                init2 = joker.setup_mcmc(dataB, smp)
            out["second"] = "answered"
        except Exception as ex2:
            out["second"] = "refused"
            out["second_exc"] = type(ex2).__name__
        if out["second"] == "answered":
            cB2 = dict(cB)
            cB2["t"] = [tt - shiftB for tt in cB["t"]]
            cB2["M0"] = (cB["M0"] - 2 * np.pi * shiftB / cB["P"])
            m2 = prior.model
            f2 = pytensor.function(inputs, [m2["model_rv"]], on_unused_input="ignore")
            rv2 = np.asarray(f2(*[np.float64(np.asarray(init2[nm])) for nm in prior.par_names])[0], dtype=float)
            curB = go.curve(cB2, x)
            out["dev_second"] = (float(np.max(np.abs(rv2 / ratio - curB))) / max(1.0, float(np.max(np.abs(curB))))
                                 if rv2.shape == curB.shape else 1e9)
    except Exception as ex:
        out["exc"] = "%s: %s" % (type(ex).__name__, str(ex)[:200])
    return out


def offlattice_mcmc(ctx, n):
    from . import core
    res = core.pmap(realize_mcmc_real, [{"id": "realmcmc-%d" % i, "seed": ctx.seed * 100000 + 13 * i + 5} for i in range(n)], chunksize=1)
    worst = 0.0
    for r in res:
        ctx.count()
        if not r["ok"]:
            ctx.fail("C11.OffLatticeProblemRaises", r)
            continue
        for k, clause in (("dev_curve", "OffLatticeModelPredictsTheSamplersCurve"), ("dev_obs", "OffLatticeDataTermIsTheJitteredGaussian"),
                          ("dev_lnlike", "OffLatticeLnLikelihoodDiagnosticIsTheDataTerm")):
            worst = max(worst, r[k])
            if not (r[k] <= OFF_TOL):
                ctx.fail("C11.%s" % clause, r, detail={k: r[k]})
        ctx.nontrivial(("realmcmc", r["seed"]))
    # the two setup_mcmc calls each problem made on ONE model, as a trace of spec/McmcModel.tla: the second call (another data set)
    # must have been refused, or the model must now reproduce THAT data set's curve
    mtr = []
    for r in res:
        if r["ok"] and r.get("second"):
            first = {"data": 1, "outcome": "answered", "describes": 1 if r["dev_curve"] <= OFF_TOL else 0}
            second = {"data": 2, "outcome": r["second"], "describes": (2 if r.get("dev_second", 1e9) <= OFF_TOL else 0) if r["second"] == "answered" else 1}
            mtr.append({"id": "mcmcmodel-" + r["id"], "events": [first, second], "seed": int(r["seed"]),
                        "dev_second": "%.3e" % r["dev_second"] if r.get("dev_second") is not None else "refused"})
    ctx.model_check("McmcModel", "MC_McmcModel.cfg")
    if mtr:
        mv = ctx.validate("McmcModelTrace", mtr)
        ctx.judge(mtr, mv, families=("C11.SecondSetup", "C11.FirstSetup", "H."))
    ctx.notes["second_setup_calls"] = {"refused": sum(1 for t in mtr if t["events"][1]["outcome"] == "refused"),
                                       "answered": sum(1 for t in mtr if t["events"][1]["outcome"] == "answered")}
    return res
