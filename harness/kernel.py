"""Which kernel is "the code" (DESIGN 2.6).

fast_likelihood.pyx is the only tracked kernel source; Cython is not installed in the sandbox.
resolve():  1. Cython importable -> cythonize+compile the current .pyx (not expected here)
            2. executable lines of the .pyx == source embedded in the (untracked) generated .c
               -> compile that .c into /verif/.work/kernel/<sha>/ and pre-load it
            3. otherwise -> load the "pyx shim": a mechanical pure-Python rendering of the CURRENT .pyx
The chosen module is installed through an importlib meta-path finder under the name
thejoker.src.fast_likelihood, so `import thejoker` picks it up where it would pick up the .so.
"""
import hashlib
import importlib.abc
import importlib.machinery
import importlib.util
import os
import re
import subprocess
import sys
import sysconfig

VERIF = os.path.dirname(os.path.dirname(os.path.abspath(__file__)))
REPO = os.environ.get("VERIF_REPO", "/repo")
NAME = "thejoker.src.fast_likelihood"
INFO = {}


class KernelError(Exception):
    pass


def _src(name):
    return os.path.join(REPO, "thejoker", "src", name)


# ------------------------------------------------------------------ freshness gate
def _exec_lines(pyx_text):
    out = {}
    for i, l in enumerate(pyx_text.splitlines(), 1):
        out[i] = l.rstrip()
    return out


def embedded_source(c_text):
    """{lineno: text} of every .pyx line the generated C quotes: the line being compiled (marked <<<<) and the
    context lines Cython prints around it."""
    emb = {}
    marked = set()
    for m in re.finditer(r'/\* "thejoker/src/fast_likelihood\.pyx":(\d+)\n(.*?)\*/', c_text, re.S):
        ln = int(m.group(1))
        body = [l[3:] if l.startswith(" * ") else ("" if l.strip() == "*" else l) for l in m.group(2).splitlines()]
        k = [j for j, l in enumerate(body) if "# <<<<<<<<<<<<<<" in l]
        if len(k) != 1:
            continue
        k = k[0]
        for j, l in enumerate(body):
            if j == k:
                l = l[: l.index("# <<<<<<<<<<<<<<")]
                marked.add(ln)
            emb[ln + j - k] = l.rstrip()
    return emb, marked


def gate(cpath=None):
    """True iff every .pyx line quoted in the .c (compiled lines and their context) equals the current .pyx
    line of that number; an inserted/removed line shifts the numbering and fails the gate."""
    pyx = open(_src("fast_likelihood.pyx")).read()
    cpath = cpath or _src("fast_likelihood.c")
    if not os.path.exists(cpath):
        return False, "no generated .c present", 0
    emb, marked = embedded_source(open(cpath, errors="replace").read())
    lines = _exec_lines(pyx)
    if len(marked) < 100:
        return False, "could not find embedded source in .c", len(marked)
    def asc(x):
        return re.sub(r"[^\x00-\x7f]", "", x).rstrip()
    bad = [ln for ln, t in emb.items() if ln >= 1 and (ln <= len(lines) or t.strip()) and asc(lines.get(ln, "")) != asc(t)]
    if bad:
        return False, "%d quoted lines differ (first: line %d)" % (len(bad), sorted(bad)[0]), len(marked)
    return True, "all %d compiled lines (+%d context lines) equal" % (len(marked), len(emb) - len(marked)), len(marked)


# ------------------------------------------------------------------ rebuild from .c
def patched_c():
    """The generated .c of /repo does not match the .pyx: try the hand patches recorded under /verif/repo_untracked/
    (equivalents of `fix:` commits to the .pyx, see its README) on a COPY; returns the path of a copy that passes the gate."""
    import glob
    import shutil
    src = _src("fast_likelihood.c")
    if not os.path.exists(src):
        return None
    diffs = sorted(glob.glob(os.path.join(VERIF, "repo_untracked", "fast_likelihood.c.*.diff")))
    if not diffs:
        return None
    h = hashlib.sha256(open(src, "rb").read())
    for d in diffs:
        h.update(open(d, "rb").read())
    dst_dir = os.path.join(VERIF, ".work", "kernel", "patched-" + h.hexdigest()[:20])
    dst = os.path.join(dst_dir, "fast_likelihood.c")
    if not os.path.exists(dst):
        os.makedirs(dst_dir, exist_ok=True)
        tmp = dst + ".tmp%d" % os.getpid()
        shutil.copy(src, tmp)
        for d in diffs:
            p = subprocess.run(["patch", "-s", "-N", "-r", "-", tmp, d], capture_output=True, text=True)
            if p.returncode != 0:
                os.unlink(tmp)
                for junk in (tmp + ".orig", tmp + ".rej"):
                    if os.path.exists(junk):
                        os.unlink(junk)
                return None
        if os.path.exists(tmp + ".orig"):
            os.unlink(tmp + ".orig")
        os.replace(tmp, dst)
    ok, why, nq = gate(dst)
    return dst if ok else None


def build_from_c(c=None):
    import numpy as np
    import twobody
    c = c or _src("fast_likelihood.c")
    tb = os.path.dirname(twobody.__file__)
    tbc = os.path.join(tb, "src", "twobody.c")
    h = hashlib.sha256()
    for p in (c, tbc, os.path.join(tb, "src", "twobody.h")):
        h.update(open(p, "rb").read())
    h.update(sys.version.encode() + np.__version__.encode())
    d = os.path.join(VERIF, ".work", "kernel", h.hexdigest()[:20])
    so = os.path.join(d, "fast_likelihood" + sysconfig.get_config_var("EXT_SUFFIX"))
    if not os.path.exists(so):
        os.makedirs(d, exist_ok=True)
        tmp = so + ".tmp%d" % os.getpid()
        cmd = ["gcc", "-shared", "-fPIC", "-O2", "-g0", "--std=gnu99", "-fwrapv", "-DNDEBUG",
               "-I", np.get_include(), "-I", tb, "-I", sysconfig.get_paths()["include"], c, tbc, "-o", tmp, "-lm"]
        p = subprocess.run(cmd, capture_output=True, text=True)
        if p.returncode != 0:
            raise KernelError("compiling fast_likelihood.c failed:\n" + p.stderr[-2000:])
        os.replace(tmp, so)
    return so


# ------------------------------------------------------------------ pyx shim
_TYPE = r"(?:unsigned\s+)?(?:double|int|long|float|char|object|bint|size_t|void)"
_DECL_ASSIGN = re.compile(r"^(\s*)(?:public\s+)?" + _TYPE + r"\s*(?:\[[^\]]*\])?\s*\*?\s*(\w+)\s*=\s*(.*)$")
_DECL_ONLY = re.compile(r"^(\s*)(?:public\s+)?" + _TYPE + r"\s*(?:\[[^\]]*\])?\s*\*?\s*\w+(\s*,\s*\w+)*\s*(#.*)?$")
_PARAM_TYPE = re.compile(r"\b" + _TYPE + r"\s*(?:\[[^\]]*\])?\s*\*?\s+(?=\w)")

SHIM_PRELUDE = '''
import numpy as _np
import scipy.linalg.lapack as _sl
from twobody.wrap import cy_rv_from_elements as _cy_rv
log = _np.log
fabs = _np.fabs
pi = _np.pi
def pow(a, b):
    return _np.float64(a) ** b
class _Lapack:
    @staticmethod
    def dgetrf(m, n, A, lda, ipiv, info):
        lu, piv, info = _sl.dgetrf(A.T)
        A.T[...] = lu
        ipiv[...] = piv
        return info
    @staticmethod
    def dgetri(n, A, lda, ipiv, work, lwork, info):
        inv, info = _sl.dgetri(_np.asfortranarray(A.T), _np.asarray(ipiv))
        A.T[...] = inv
        return info
    @staticmethod
    def dsysv(uplo, n, nrhs, A, lda, ipiv, b, ldb, work, lwork, info):
        udut, piv, x, info = _sl.dsysv(_np.asfortranarray(A.T), _np.asarray(b), lower=0)
        b[...] = x
        return info
lapack = _Lapack()
def c_rv_from_elements(t, out, N, P, K, e, omega, phi0, t0, tol, maxiter):
    rv = _cy_rv(_np.ascontiguousarray(t, dtype="f8"), float(P), float(K), float(e), float(omega), float(phi0),
                float(t0), float(tol), int(maxiter))
    if out.ndim == 2:
        out[0, :N] = rv
    else:
        out[:N] = rv
'''


def render_pyx(text):
    """Mechanical rendering of the kernel's Cython dialect into Python source."""
    lines = text.splitlines()
    out = []
    i = 0
    n = len(lines)

    def indent_of(l):
        return len(l) - len(l.lstrip())

    while i < n:
        l = lines[i]
        s = l.strip()
        ind = indent_of(l)
        # dropped statements
        if re.match(r"^(cimport\s|from\s+libc\.|from\s+\S+\s+cimport\s)", s) or s in ("np.import_array()", "cimport cython", "import cython"):
            i += 1
            continue
        if s.startswith("cdef extern"):
            i += 1
            while i < n and (lines[i].strip() == "" or indent_of(lines[i]) > ind):
                i += 1
            continue
        if s == "cdef:":
            # declaration block: body is more indented; dedent it to `ind`
            i += 1
            body = []
            while i < n and (lines[i].strip() == "" or indent_of(lines[i]) > ind):
                body.append(lines[i])
                i += 1
            if body:
                bind = min(indent_of(b) for b in body if b.strip())
            depth = 0
            for b in body:
                if not b.strip():
                    out.append("")
                    continue
                if depth > 0:          # continuation of a multi-line initialiser
                    out.append(" " * ind + b.strip())
                    depth += b.count("(") + b.count("[") - b.count(")") - b.count("]")
                    continue
                bb = " " * ind + b[bind:]
                if bb.strip().startswith("#"):
                    out.append(bb)
                    continue
                m = _DECL_ASSIGN.match(bb)
                if m:
                    stmt = "%s%s = %s" % (m.group(1), m.group(2), m.group(3))
                    out.append(stmt)
                    code = m.group(3).split("#")[0]
                    depth = code.count("(") + code.count("[") - code.count(")") - code.count("]")
                    continue
                if _DECL_ONLY.match(bb):
                    out.append(" " * ind + "pass")
                    continue
                raise KernelError("shim: cannot render declaration line: %r" % b)
            continue
        m = re.match(r"^(\s*)cdef\s+class\s+(\w+)\s*:", l)
        if m:
            out.append("%sclass %s:" % (m.group(1), m.group(2)))
            i += 1
            continue
        m = re.match(r"^(\s*)(?:cdef|cpdef)\s+(?:(?:inline\s+)?" + _TYPE + r"\s*(?:\[[^\]]*\])?\s+)?(\w+)\s*\((.*)$", l)
        if m and not re.match(r"^\s*cdef\s+" + _TYPE + r"\s+\w+(\s*,\s*\w+)*\s*$", l):
            # function header (possibly spanning lines)
            hdr = "%sdef %s(%s" % (m.group(1), m.group(2), m.group(3))
            while hdr.count("(") > hdr.count(")"):
                i += 1
                hdr += "\n" + lines[i]
            hdr = _PARAM_TYPE.sub("", hdr)
            out.append(hdr)
            i += 1
            continue
        if re.match(r"^\s*cdef\s+" + _TYPE + r"\b", l):
            # single-line local declaration, maybe with initialiser
            body = re.sub(r"^(\s*)cdef\s+", r"\1", l)
            mm = _DECL_ASSIGN.match(body)
            if mm:
                out.append("%s%s = %s" % (mm.group(1), mm.group(2), mm.group(3)))
            else:
                out.append(" " * ind + "pass")
            i += 1
            continue
        if re.match(r"^\s*def\s+\w+\s*\(", l):
            hdr = l
            while hdr.count("(") > hdr.count(")"):
                i += 1
                hdr += "\n" + lines[i]
            out.append(_PARAM_TYPE.sub("", hdr))
            i += 1
            continue
        # C calls: strip address-of, assign info
        if "lapack." in l or "c_rv_from_elements(" in l:
            stmt = l
            while stmt.count("(") > stmt.count(")"):
                i += 1
                stmt += "\n" + lines[i]
            for pat in (r"&\(\s*([\w\.]+)\s*\[[^\]]*\]\s*\)", r"&\(\s*([\w\.]+)\s*\)\s*\[[^\]]*\]", r"&\(\s*([\w\.]+)\s*\)",
                        r"&([\w\.]+)\[[^\]]*\]", r"&([\w\.]+)"):
                stmt = re.sub(pat, r"\1", stmt)
            if stmt.lstrip().startswith("lapack."):
                stmt = " " * ind + "info = " + stmt.lstrip()
            out.append(stmt)
            i += 1
            continue
        out.append(l)
        i += 1
    src = "\n".join(out) + "\n"
    if re.search(r"\bcdef\b|\bcpdef\b|\bcimport\b", re.sub(r"#.*", "", src)):
        bad = [x for x in src.splitlines() if re.search(r"\bcdef\b|\bcpdef\b|\bcimport\b", re.sub(r"#.*", "", x))]
        raise KernelError("shim: untranslated Cython constructs remain: %r" % bad[:3])
    return SHIM_PRELUDE + src


class _ShimLoader(importlib.abc.Loader):
    def __init__(self, src, path):
        self.src = src
        self.path = path

    def create_module(self, spec):
        return None

    def exec_module(self, module):
        module.__file__ = self.path
        code = compile(self.src, self.path + " [pyx shim]", "exec")
        exec(code, module.__dict__)
        # float64 semantics for scalars the C code declares `double`: arrays already are float64
        module.__verif_kernel__ = "shim"


class _Finder(importlib.abc.MetaPathFinder):
    def __init__(self, spec_factory):
        self.spec_factory = spec_factory

    def find_spec(self, name, path=None, target=None):
        if name == NAME:
            return self.spec_factory()
        return None


_installed = None


def resolve(force=None):
    """Install the kernel for this process (before thejoker is imported). Returns INFO."""
    global _installed
    if _installed:
        return INFO
    if NAME in sys.modules or "thejoker" in sys.modules:
        raise KernelError("kernel.resolve() must run before thejoker is imported")
    mode = force or os.environ.get("VERIF_KERNEL")
    pyx_path = _src("fast_likelihood.pyx")
    pyx = open(pyx_path).read()
    INFO["pyx_sha256"] = hashlib.sha256(pyx.encode()).hexdigest()
    try:
        import Cython  # noqa: F401
        INFO["cython"] = True
    except Exception:
        INFO["cython"] = False
    ok, why, nq = gate()
    INFO["gate"] = {"equal": ok, "detail": why, "quoted_lines": nq}
    cpatched = None
    if mode is None:
        if ok:
            mode = "c"
        else:
            cpatched = patched_c()
            mode = "c" if cpatched else "shim"
    if mode == "c":
        so = build_from_c(cpatched)
        INFO["kernel"] = "rebuilt-from-c" if not cpatched else "rebuilt-from-c+recorded-patch"
        if cpatched:
            INFO["gate_after_recorded_patch"] = "equal"
        INFO["path"] = so

        def factory():
            loader = importlib.machinery.ExtensionFileLoader(NAME, so)
            return importlib.util.spec_from_file_location(NAME, so, loader=loader)
    elif mode == "shim":
        try:
            src = render_pyx(pyx)
            compile(src, "shim", "exec")
        except SyntaxError as ex:
            raise KernelError("kernel source changed, no Cython, shim failed: %s" % ex)
        INFO["kernel"] = "pyx-shim"
        INFO["path"] = pyx_path

        def factory():
            return importlib.util.spec_from_loader(NAME, _ShimLoader(src, pyx_path), origin=pyx_path)
    elif mode == "repo-so":
        INFO["kernel"] = "repo-so"
        _installed = True
        return INFO
    else:
        raise KernelError("unknown kernel mode %r" % mode)
    sys.meta_path.insert(0, _Finder(factory))
    _installed = True
    return INFO


def cross_check(force=False):
    """Compiled kernel in use: evaluate a fixed problem (two surveys, poly_trend 2, non-zero jitter, eccentric orbit) with the
    compiled module AND with the shim rendering of the current .pyx; they must agree to 1e-9.  Cached per built .so."""
    if not INFO.get("kernel", "").startswith("rebuilt-from-c"):
        return None
    marker = os.path.join(os.path.dirname(INFO["path"]), "crosscheck-%s.ok" % INFO["pyx_sha256"][:16])
    if os.path.exists(marker) and not force:
        INFO["shim_vs_compiled"] = "agreed (cached)"
        return True
    import types
    import warnings
    warnings.filterwarnings("ignore")
    import numpy as np
    import astropy.units as u
    from astropy.time import Time
    import thejoker as tj
    from thejoker.src import fast_likelihood as fl
    from thejoker.likelihood_helpers import get_trend_design_matrix
    from thejoker.data_helpers import validate_prepare_data
    src = render_pyx(open(_src("fast_likelihood.pyx")).read())
    shim = types.ModuleType("thejoker.src._fast_likelihood_shim")
    shim.__file__ = _src("fast_likelihood.pyx")
    exec(compile(src, "shim", "exec"), shim.__dict__)
    rng = np.random.default_rng(5)
    t1 = Time(55000.0 + np.sort(rng.uniform(0, 50, 5)), format="mjd", scale="tcb")
    t2 = Time(55060.0 + np.sort(rng.uniform(0, 50, 4)), format="mjd", scale="tcb")
    d1 = tj.RVData(t1, rng.normal(0, 5, 5) * u.km / u.s, rng.uniform(0.2, 1, 5) * u.km / u.s)
    d2 = tj.RVData(t2, rng.normal(0, 5, 4) * u.km / u.s, rng.uniform(0.2, 1, 4) * u.km / u.s)
    import pymc as pm
    with pm.Model():
        dv = tj.units.with_unit(pm.Normal("dv0_1", 0, 3.0), u.km / u.s) if hasattr(tj, "units") else None
        prior = tj.JokerPrior.default(P_min=2 * u.day, P_max=64 * u.day, sigma_K0=30 * u.km / u.s,
                                      sigma_v=[50 * u.km / u.s, 2 * u.km / u.s / u.day], s=0.7 * u.km / u.s,
                                      poly_trend=2, v0_offsets=[dv])
    data, ids, M = validate_prepare_data([d1, d2], prior.poly_trend, prior.n_offsets)
    chunk = np.array([[7.3, 0.31, 1.1, 2.2, 0.7], [23.0, 0.0, 0.3, 4.0, 0.0], [3.1, 0.8, 5.0, 0.5, 2.5]])
    # second problem: a K prior whose cap binds (period prior in years, P0 in days), non-zero K mean, quadratic trend
    from thejoker.distributions import FixedCompanionMass
    with pm.Model() as m2:
        P = tj.units.with_unit(pm.Uniform("P", 0.001, 3.0), u.yr)
        e = tj.units.with_unit(pm.Uniform("e", 0.0, 0.99), u.one)
        K = tj.units.with_unit(FixedCompanionMass("K", P=P, e=e, sigma_K0=40 * u.km / u.s, P0=30 * u.day, mu=1.5, max_K=4 * u.km / u.s), u.km / u.s)
        prior2 = tj.JokerPrior.default(sigma_v=[50 * u.km / u.s, 2 * u.km / u.s / u.day, 0.05 * u.km / u.s / u.day ** 2], s=0.3 * u.km / u.s,
                                       poly_trend=3, pars={"P": P, "e": e, "K": K}, model=m2)
    data2, ids2, M2 = validate_prepare_data(d1, prior2.poly_trend, prior2.n_offsets)
    # third problem: a custom Normal K prior together with survey offsets
    with pm.Model() as m3:
        dv3 = tj.units.with_unit(pm.Normal("dv0_1", 0.5, 3.0), u.km / u.s)
        K3 = tj.units.with_unit(pm.Normal("K", 2.0, 7.0), u.km / u.s)
        prior3 = tj.JokerPrior.default(P_min=2 * u.day, P_max=64 * u.day, sigma_v=50 * u.km / u.s, s=0.0 * u.km / u.s, v0_offsets=[dv3],
                                       pars={"K": K3}, model=m3)
    data3, ids3, M3 = validate_prepare_data([d1, d2], prior3.poly_trend, prior3.n_offsets)
    vals = []
    for mod in (fl, shim):
        lls, pss = [], []
        for (dd, pp, MM) in ((data, prior, M), (data2, prior2, M2), (data3, prior3, M3)):
            h = mod.CJokerHelper(dd, pp, MM)
            lls.append(np.array(h.batch_marginal_ln_likelihood(chunk)))
            g = np.random.default_rng(1)
            pss.append(np.array(h.batch_get_posterior_samples(chunk, 1, g)[0]).ravel())
        vals.append((np.concatenate(lls), np.concatenate(pss)))
    with np.errstate(all="ignore"):
        both_bad = ~np.isfinite(vals[0][1]) & ~np.isfinite(vals[1][1])
        dll = float(np.nanmax(np.abs(vals[0][0] - vals[1][0])))
        dps = float(np.max(np.where(both_bad, 0.0, np.abs(vals[0][1] - vals[1][1])))) if vals[0][1].size else 0.0
    INFO["shim_vs_compiled"] = {"max_abs_diff_ll": dll, "max_abs_diff_posterior_draw": dps}
    if not (dll < 1e-9 and dps < 1e-7):
        raise KernelError("compiled kernel (%s) and the rendering of the current .pyx disagree: %r" % (INFO["kernel"], INFO["shim_vs_compiled"]))
    open(marker, "w").write(repr(INFO["shim_vs_compiled"]))
    return True


def main():
    info = resolve()
    import numpy as np
    import thejoker  # noqa: F401
    from thejoker.src import fast_likelihood as fl
    print("kernel:", info["kernel"], "| gate:", info["gate"]["detail"], "| module file:", getattr(fl, "__file__", "?"))
    if info["kernel"].startswith("rebuilt-from-c"):
        cross_check(force=True)
        print("shim rendering of the current .pyx vs compiled kernel:", info["shim_vs_compiled"])
    return 0


if __name__ == "__main__":
    sys.exit(main())
