"""Parser for TLA+ values as printed by TLC (PrintT / state dumps) -> Python objects.

tuples/sequences -> list, records -> dict, sets -> frozenset-like list (sorted repr kept as list
tagged by SetVal), functions (k :> v @@ ...) -> dict, strings -> str, ints -> int, TRUE/FALSE -> bool.
"""


class SetVal(list):
    pass


class ParseError(Exception):
    pass


def _ws(s, i):
    n = len(s)
    while i < n and s[i] in " \t\r\n":
        i += 1
    return i


def parse_value(s, i=0):
    i = _ws(s, i)
    if i >= len(s):
        raise ParseError("eof")
    c = s[i]
    if s.startswith("<<", i):
        i += 2
        out = []
        i = _ws(s, i)
        if s.startswith(">>", i):
            return out, i + 2
        while True:
            v, i = parse_value(s, i)
            out.append(v)
            i = _ws(s, i)
            if s.startswith(">>", i):
                return out, i + 2
            if s[i] != ",":
                raise ParseError("expected , in tuple at %d: %r" % (i, s[i:i + 20]))
            i += 1
    if c == "{":
        i += 1
        out = SetVal()
        i = _ws(s, i)
        if s[i] == "}":
            return out, i + 1
        while True:
            v, i = parse_value(s, i)
            out.append(v)
            i = _ws(s, i)
            if s[i] == "}":
                return out, i + 1
            if s[i] != ",":
                raise ParseError("expected , in set at %d" % i)
            i += 1
    if c == "[":
        i += 1
        out = {}
        i = _ws(s, i)
        if s[i] == "]":
            return out, i + 1
        while True:
            i = _ws(s, i)
            j = i
            while s[j].isalnum() or s[j] == "_":
                j += 1
            key = s[i:j]
            i = _ws(s, j)
            if not s.startswith("|->", i):
                raise ParseError("expected |-> at %d: %r" % (i, s[i:i + 20]))
            v, i = parse_value(s, i + 3)
            out[key] = v
            i = _ws(s, i)
            if s[i] == "]":
                return out, i + 1
            if s[i] != ",":
                raise ParseError("expected , in record at %d" % i)
            i += 1
    if c == "(":
        # function: (k :> v @@ k :> v)
        i += 1
        out = {}
        while True:
            k, i = parse_value(s, i)
            i = _ws(s, i)
            if not s.startswith(":>", i):
                raise ParseError("expected :> at %d" % i)
            v, i = parse_value(s, i + 2)
            if isinstance(k, list):
                k = tuple(k)
            out[k] = v
            i = _ws(s, i)
            if s[i] == ")":
                return out, i + 1
            if not s.startswith("@@", i):
                raise ParseError("expected @@ at %d" % i)
            i += 2
    if c == '"':
        j = i + 1
        buf = []
        while s[j] != '"':
            if s[j] == "\\":
                j += 1
                ch = s[j]
                buf.append({"n": "\n", "t": "\t", '"': '"', "\\": "\\"}.get(ch, ch))
            else:
                buf.append(s[j])
            j += 1
        return "".join(buf), j + 1
    if c == "-" or c.isdigit():
        j = i + 1
        while j < len(s) and s[j].isdigit():
            j += 1
        return int(s[i:j]), j
    if s.startswith("TRUE", i):
        return True, i + 4
    if s.startswith("FALSE", i):
        return False, i + 5
    # model value / identifier
    j = i
    while j < len(s) and (s[j].isalnum() or s[j] == "_"):
        j += 1
    if j == i:
        raise ParseError("unexpected %r at %d" % (s[i:i + 20], i))
    return s[i:j], j


def find_tagged(out, tag):
    """Every value printed as <<"tag", ...>> at the start of a line in TLC output (multi-line ok)."""
    import re
    res = []
    for m in re.finditer(r'^<<\s*"%s"' % re.escape(tag), out, re.M):
        try:
            v, _ = parse_value(out, m.start())
        except (ParseError, IndexError):
            continue
        res.append(v)
    return res


def to_tla(v):
    """Python -> TLA+ expression text (for generated cfg/module constants)."""
    if isinstance(v, bool):
        return "TRUE" if v else "FALSE"
    if isinstance(v, int):
        return str(v)
    if isinstance(v, str):
        return '"%s"' % v.replace("\\", "\\\\").replace('"', '\\"')
    if isinstance(v, (list, tuple)):
        return "<<" + ", ".join(to_tla(x) for x in v) + ">>"
    if isinstance(v, (set, frozenset)):
        return "{" + ", ".join(to_tla(x) for x in sorted(v)) + "}"
    if isinstance(v, dict):
        return "[" + ", ".join("%s |-> %s" % (k, to_tla(x)) for k, x in v.items()) + "]"
    raise TypeError(type(v))
