"""Floating-point transcription of spec/Gauss.tla (DESIGN 9.7): the same operators - MEntry, Lam, Mu, Cs, B, Bvec, Ainv, Rhs, Curve -
over real inputs, with the Keplerian column computed by an independent Newton solver (not twobody).

It exists to carry the specification OFF the lattice: TLC certifies the exact-rational operators on the lattice; this module is
validated against them there (its matrices go through the GaussTrace monitor as if they were an implementation's, see
checks/c01.py `oracle_cases`), and is then used as the oracle for random real-valued problems, where TLC has no numbers.

A configuration `c` (all PHYSICAL units: days, km/s, radians):
  t[n]            epoch minus t_ref (days)             lab[n]   survey of epoch n (0 = reference)
  y[n], sig2[n]   velocity, variance                   s2       jitter squared
  P, e, omega, M0                                      poly, noff
  kkind "default" | "custom"; sK0sq, P0, maxKsq, muK, varK
  mu[i], var[i]   v0, dv0_1.., v1.. (slot order after K)
"""
import math

import numpy as np


def true_anomaly(M, e):
    """Kepler's equation by Newton-Raphson with bisection safeguard; M any real (radians), 0 <= e < 1"""
    M = np.asarray(M, dtype=float)
    Mr = np.mod(M, 2 * np.pi)
    E = np.where(e < 0.8, Mr, np.pi * np.ones_like(Mr))
    for _ in range(200):
        f = E - e * np.sin(E) - Mr
        d = 1 - e * np.cos(E)
        step = f / d
        E = E - step
        if np.all(np.abs(step) < 1e-15):
            break
    return 2 * np.arctan2(np.sqrt(1 + e) * np.sin(E / 2), np.sqrt(1 - e) * np.cos(E / 2))


def L(c):
    return 1 + c["poly"] + c["noff"]


def kcol(c):
    t = np.asarray(c["t"], dtype=float)
    M = 2 * np.pi * t / c["P"] - c["M0"]
    f = true_anomaly(M, c["e"])
    return np.cos(c["omega"] + f) + c["e"] * math.cos(c["omega"])


def design(c):
    """MEntry: columns K, v0, dv0_1.., v1, v2.."""
    t = np.asarray(c["t"], dtype=float)
    lab = np.asarray(c["lab"], dtype=int)
    cols = [kcol(c), np.ones_like(t)]
    for j in range(1, c["noff"] + 1):
        cols.append((lab == j).astype(float))
    for i in range(1, c["poly"]):
        cols.append(t ** i)
    return np.stack(cols, axis=1)


def lam_k(c):
    if c["kkind"] == "custom":
        return float(c["varK"])
    r23 = (c["P"] / c["P0"]) ** (-2.0 / 3.0)
    return min(c["sK0sq"] * r23 / (1 - c["e"] ** 2), c["maxKsq"])


def lam(c):
    return np.array([lam_k(c)] + [float(v) for v in c["var"]])


def mu(c):
    return np.array([float(c["muK"])] + [float(v) for v in c["mu"]])


def cs(c):
    return np.asarray(c["sig2"], dtype=float) + c["s2"]


def B(c):
    M = design(c)
    return np.diag(cs(c)) + M @ np.diag(lam(c)) @ M.T


def bvec(c):
    return design(c) @ mu(c)


def ainv(c):
    M = design(c)
    return np.diag(1 / lam(c)) + M.T @ np.diag(1 / cs(c)) @ M


def rhs(c):
    M = design(c)
    return mu(c) / lam(c) + M.T @ (np.asarray(c["y"], dtype=float) / cs(c))


def curve(c, x):
    return design(c) @ np.asarray(x, dtype=float)


def ln_marginal(c):
    y = np.asarray(c["y"], dtype=float)
    r = y - bvec(c)
    Bm = B(c)
    sign, logdet = np.linalg.slogdet(2 * np.pi * Bm)
    return -0.5 * (r @ np.linalg.solve(Bm, r) + logdet)


def posterior(c):
    """(a, A) of the conditional posterior of the linear parameters"""
    Ai = ainv(c)
    A = np.linalg.inv(Ai)
    return A @ rhs(c), A


def from_lattice(g):
    """a lattice configuration of Gauss.tla (record g of the TLC export / gauss_driver.make_config) as a real configuration"""
    P = 2.0 * g["ph"]
    e = g["e"][0] / g["e"][1]
    r23 = g["r23"][0] / g["r23"][1]
    return {"t": [k * g["ph"] for k in g["kk"]], "lab": list(g["lab"]), "y": list(g["y"]), "sig2": list(g["sig2"]), "s2": g["s2"],
            "P": P, "e": e, "omega": g["wi"] * math.pi, "M0": g["m0i"] * math.pi, "poly": g["poly"], "noff": g["noff"],
            "kkind": g["kkind"], "sK0sq": g["sK0sq"], "P0": P * r23 ** 1.5 if r23 > 0 else P, "maxKsq": g["maxKsq"][0] / g["maxKsq"][1],
            "muK": g["muK"], "varK": (g["varK"][0] / g["varK"][1]) if g.get("varK") else 1.0, "mu": list(g["mu"]), "var": list(g["var"])}


def ln_marginal_exact(c):
    """ln N(y | M mu, C + s2 I + M Lambda M^T) in exact rational arithmetic on the float inputs (design matrix entries included):
    for problems where B is far from the scale of C (very broad priors, few epochs) and a float64 evaluation could itself be the
    one that loses digits.  Small N only (Gaussian elimination over Fractions)."""
    from fractions import Fraction as F
    M = [[F(float(v)) for v in row] for row in design(c)]
    lamv = [F(float(v)) for v in lam(c)]
    muv = [F(float(v)) for v in mu(c)]
    csv = [F(float(v)) for v in cs(c)]
    y = [F(float(v)) for v in c["y"]]
    n, L_ = len(y), len(lamv)
    Bm = [[sum(M[i][k] * lamv[k] * M[j][k] for k in range(L_)) + (csv[i] if i == j else 0) for j in range(n)] for i in range(n)]
    r = [y[i] - sum(M[i][k] * muv[k] for k in range(L_)) for i in range(n)]
    # solve B z = r and det B by fraction-exact elimination with partial (non-zero) pivoting
    A = [row[:] + [r[i]] for i, row in enumerate(Bm)]
    det = F(1)
    for col in range(n):
        piv = next(i for i in range(col, n) if A[i][col] != 0)
        if piv != col:
            A[col], A[piv] = A[piv], A[col]
            det = -det
        det *= A[col][col]
        for i in range(col + 1, n):
            f = A[i][col] / A[col][col]
            if f:
                A[i] = [a - f * b for a, b in zip(A[i], A[col])]
    z = [F(0)] * n
    for i in reversed(range(n)):
        z[i] = (A[i][n] - sum(A[i][j] * z[j] for j in range(i + 1, n))) / A[i][i]
    chi2 = sum(r[i] * z[i] for i in range(n))
    logdet = math.log(det.numerator) - math.log(det.denominator)
    return -0.5 * (float(chi2) + n * math.log(2 * math.pi) + logdet)
