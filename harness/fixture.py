"""Standard problems for the sampler-level checks: data, priors, prior-sample libraries with identifiable rows."""
import numpy as np

T0 = 55000.0
_cache = {}


def make_data(n=8, seed=1, err=8.0, unit="km/s", K=20.0):
    import astropy.units as u
    from astropy.time import Time
    from thejoker import RVData
    from twobody import KeplerOrbit
    rng = np.random.default_rng(seed)
    P = 51.8239 * u.day
    t = Time(T0 + np.sort(rng.uniform(0, 160.0, n)), format="mjd", scale="tcb")
    orbit = KeplerOrbit(P=P, K=K * u.km / u.s, e=0.3, omega=0.283 * u.radian, M0=2.592 * u.radian,
                        t0=Time(T0, format="mjd", scale="tcb"), i=90 * u.deg, Omega=0 * u.deg)
    rv = orbit.radial_velocity(t) + 31.5 * u.km / u.s + rng.normal(0, err, n) * u.km / u.s
    e = np.full(n, err) * u.km / u.s
    return RVData(t, rv.to(u.Unit(unit)), rv_err=e.to(u.Unit(unit)))


def make_prior(kind="default"):
    """kind: default | trend2 | offsets1 (poly_trend=1, one offset) ; cached per process"""
    if kind in _cache:
        return _cache[kind]
    import astropy.units as u
    import pymc as pm
    import thejoker.units as xu
    from thejoker import JokerPrior
    if kind == "default":
        p = JokerPrior.default(P_min=2 * u.day, P_max=512 * u.day, sigma_K0=30 * u.km / u.s, sigma_v=100 * u.km / u.s)
    elif kind == "trend2":
        p = JokerPrior.default(P_min=2 * u.day, P_max=512 * u.day, sigma_K0=30 * u.km / u.s,
                               sigma_v=[100 * u.km / u.s, 1 * u.km / u.s / u.day], poly_trend=2)
    elif kind == "offsets1":
        with pm.Model():
            dv = xu.with_unit(pm.Normal("dv0_1", 0.0, 5.0), u.km / u.s)
            p = JokerPrior.default(P_min=2 * u.day, P_max=512 * u.day, sigma_K0=30 * u.km / u.s, sigma_v=100 * u.km / u.s,
                                   v0_offsets=[dv])
    else:
        raise ValueError(kind)
    _cache[kind] = p
    return p


class Library:
    """N prior samples in the kernel's internal units, every row identifiable from its period."""

    def __init__(self, N, seed=0, lnprior=True, s_unit="km/s", s_value=0.0, data_unit="km/s"):
        import astropy.units as u
        from thejoker import JokerSamples
        rng = np.random.default_rng(1000 + seed)
        self.N = N
        # distinct periods, not monotone in the row number
        base = np.exp(np.linspace(np.log(3.0), np.log(400.0), N))
        self.P = base[rng.permutation(N)] if N > 1 else base
        self.e = rng.uniform(0, 0.85, N)
        self.omega = rng.uniform(0, 2 * np.pi, N)
        self.M0 = rng.uniform(0, 2 * np.pi, N)
        self.s = np.full(N, float(s_value))
        self.lnprior = -1000.0 - np.arange(1, N + 1) if lnprior else None
        s = JokerSamples()
        s["P"] = self.P * u.day
        s["e"] = self.e * u.one
        s["omega"] = self.omega * u.rad
        s["M0"] = self.M0 * u.rad
        s["s"] = self.s * u.Unit(s_unit)
        if lnprior:
            s["ln_prior"] = self.lnprior
        self.samples = s
        self._pmap = {float(p): i + 1 for i, p in enumerate(self.P)}
        # packed = what the kernel must see: the jitter column in the DATA's velocity unit
        s_data = (self.s * u.Unit(s_unit)).to_value(u.Unit(data_unit))
        self.packed = np.stack([self.P, self.e, self.omega, self.M0, s_data], axis=1)

    @classmethod
    def from_samples(cls, samples, data_unit="km/s"):
        """library view of an existing JokerSamples (any units): packed values are what the kernel will see"""
        import astropy.units as u
        self = cls.__new__(cls)
        units = {"P": u.day, "e": u.one, "omega": u.rad, "M0": u.rad, "s": u.Unit(data_unit)}
        packed, _ = samples.pack(units=units, names=["P", "e", "omega", "M0", "s"])
        self.N = len(samples)
        self.packed = np.ascontiguousarray(packed, dtype=float)
        self.P = self.packed[:, 0]
        self.samples = samples
        self.lnprior = np.asarray(samples["ln_prior"]).astype(float) if "ln_prior" in samples.par_names else None
        self._pmap = {float(p): i + 1 for i, p in enumerate(self.P)}
        return self

    def decode(self, chunk):
        """packed chunk (P first column, in days) -> 1-based library ids (0 = not a library row)"""
        return [self._pmap.get(float(p), 0) for p in np.asarray(chunk)[:, 0]]

    def row_hash(self, i):
        from . import tokens
        return tokens.bits_hash(self.packed[i - 1])

    def write(self, path):
        self.samples.write(path, overwrite=True)
        return path
