"""C05 - results do not depend on batching, pool, cache path or call history.

spec: Sampler / SamplerTrace (functional consistency: every evaluation of a row, on any path, in any batch, after any
history, must equal bit-for-bit the reference value "alone, fresh helper, in memory"; returned arrays carry the values in
input order; equal seeds give equal accepted sets across paths), Partition (task layout), Pool (PoolMC: task
interleavings and helper scratch state, model-checked).
binding: seeded random histories on ONE TheJoker: marginal_ln_likelihood / rejection_sample over (in_memory, object,
file, in-memory-from-file) x n_batches in 1..N+2 x recording pool executing tasks in shuffled order; direct histories on
ONE helper object (likelihoods of arbitrary row subsets, posterior draws in between, a pickle round trip); twin calls with
equal seeds across paths; thorough: real schwimmbad.MultiPool worker processes."""
import os
import random
import shutil

import numpy as np

from .. import core
from . import c02

LEVEL = "model_checking"
FAMILIES = ("C05.",)


def run_case(case):
    from .. import sampler_driver as sd
    g = c02._setup()
    lib = c02._lib(case["n"], svar=case.get("svar", 0))
    wd = os.path.join(case["workdir"], case["id"])
    os.makedirs(wd, exist_ok=True)
    real_pool = None
    if case.get("multipool"):
        import schwimmbad
        real_pool = schwimmbad.MultiPool(processes=case["multipool"])
    try:
        s = sd.Session(lib, g["data"], g["prior"], seed=case["seed"], pool=case.get("pool", "rec"), pool_size=case.get("pool_size", 2),
                       order_seed=case["seed"], workdir=wd, real_pool=real_pool)
        s.header()
        for c in case["calls"]:
            c = dict(c)
            kind = c.pop("kind", "api")
            if kind == "kernel":
                s.kernel_history(c["steps"])
            elif kind == "rewrite":
                s.rewrite_library(c["variant"])
            else:
                if c.get("group"):
                    s.reseed()
                s.call(**c)
    finally:
        if real_pool is not None:
            real_pool.close()
    t = s.trace(case["id"])
    shutil.rmtree(wd, ignore_errors=True)
    return t


def gen_cases(ctx, rnd, count, maxn, multipool=0):
    cases = []
    for j in range(count):
        n = rnd.choice([1, 2, 3, 4, 7, 12, 30, rnd.randint(2, maxn)])
        calls = []
        group = 0
        for _ in range(rnd.randint(2, 5)):
            k = rnd.random()
            path = rnd.choice(["inmem", "object", "file", "inmem_file"])
            if multipool and path in ("inmem", "inmem_file"):
                path = "file"
            nb = rnd.choice([0, 1, 2, 3, n, n + 1, n + 2])
            if k < 0.12 and not multipool:
                # the user's library file is overwritten in place with the same samples in other units
                calls.append(dict(kind="rewrite", variant=rnd.choice(["yr_deg", "h_rad", "d_deg", "d_rad"])))
                calls.append(dict(api="marginal", path=rnd.choice(["file", "inmem_file", "object"]), nbatches=nb))
            elif k < 0.22:
                # shuffled evaluation order: the cache must hand every task its own rows in the order asked for
                calls.append(dict(api=rnd.choice(["rejection", "rejection", "iterative"]), path=rnd.choice(["object", "file"]), randomize=True,
                                  nbatches=nb, all=True, nreq=1, initb=rnd.randint(1, n), nlinear=1))
            elif k < 0.35:
                calls.append(dict(api="marginal", path=path, nbatches=nb))
            elif k < 0.55 and not multipool:
                steps = []
                for _ in range(rnd.randint(2, 6)):
                    rows = [rnd.randint(1, n) for _ in range(rnd.randint(1, min(n, 6)))]
                    steps.append((rnd.choice(["ll", "ll", "draw", "pickle"]), rows))
                steps.append(("ll", list(range(1, n + 1))))
                calls.append(dict(kind="kernel", steps=steps))
            else:
                # twin group: same seed, same options, different paths / batching -> same accepted set
                group += 1
                opts = dict(nprior=rnd.choice([0, 0, rnd.randint(1, n)]), maxpost=rnd.choice([0, 0, 2]), nlinear=rnd.choice([1, 2]),
                            logprobs=rnd.random() < 0.5, all=True)
                for p2 in rnd.sample(["inmem", "object", "file", "inmem_file"], rnd.randint(2, 3)):
                    if multipool and p2 in ("inmem", "inmem_file"):
                        p2 = "object"
                    calls.append(dict(api="rejection", path=p2, nbatches=rnd.choice([0, 1, 2, 3, n + 1]), group=group, **opts))
        cases.append({"id": "c05-%s%d" % (("mp%d-" % multipool) if multipool else "", j), "n": n, "seed": rnd.randint(0, 10**6), "pool": rnd.choice(["rec", "rec", "serial"]),
                      "pool_size": rnd.choice([1, 2, 3, 4]), "calls": calls, "workdir": ctx.workdir, "multipool": multipool,
                      "svar": int(j % 5 in (1, 3))})
    return cases


def run(ctx, selftest=False):
    c02._setup()
    quick = ctx.tier == "quick"
    ctx.rule = ("cases = seeded random histories (2-5 calls) on one TheJoker mixing marginal_ln_likelihood, rejection_sample twin groups "
                "(equal seed and options, different path / n_batches) and direct histories on one helper object (likelihoods of "
                "arbitrary row subsets, posterior draws, pickle round trip); libraries to 120 / 1500 rows; n_batches from 1 to N+2; "
                "recording pool with shuffled task execution; thorough adds schwimmbad.MultiPool(2,3); distinct = distinct "
                "(call sequence with paths, batching and returned rows); trivial = one-row library")
    ctx.assumptions = ["TLC/SANY", "HDF5 round trip of float64 is exact (bound separately by C12)",
                       "reference value = row evaluated alone on a fresh helper in memory"]
    ctx.model_check("PoolMC", "MC_Pool.cfg" if quick else "MC_Pool_thorough.cfg", coverage=True)
    rnd = random.Random(ctx.seed * 69069 + 5)
    cases = gen_cases(ctx, rnd, 260 if quick else 2500, 120 if quick else 1500)
    traces = core.pmap(run_case, cases, chunksize=4)
    if not quick:
        mp = gen_cases(ctx, rnd, 24, 60, multipool=2) + gen_cases(ctx, rnd, 12, 60, multipool=3)
        traces += [run_case(c) for c in mp]     # worker processes: one case at a time
    for t in traces:
        ctx.count()
        if t["events"][0]["N"] > 1:
            ctx.nontrivial([(e["api"], e["path"], e["nbatches"], e["nprior"], e["group"]) for e in t["events"] if e["ev"] == "Call"]
                           + [tuple(e["rows"]) for e in t["events"] if e["ev"] == "Return"])
    if not quick:
        # thorough: the sampler calls made by the repository's own tests, recorded and validated like every other trace
        from .. import repotests
        rt, rinfo = repotests.collect(ctx.workdir)
        ctx.notes["repository_test_traces"] = rinfo
        traces = traces + rt
    ctx.sample(c02._brief(traces[0])); ctx.sample(c02._brief(traces[-1]))
    verdicts = ctx.validate("SamplerTrace", traces, timeout=3000)
    ctx.judge(traces, verdicts, families=FAMILIES)
    # one TheJoker under every short HISTORY of marginal-likelihood and sampling calls on two data sets (spec/History.tla): the
    # marginal likelihoods it returns may depend on (prior, data, library) only - "regardless of which samples or posterior draws
    # the same sampler evaluated before"
    from .. import history
    history.check(ctx, "sampler", {"C05"}, ("C05.", "H."), selftest=selftest, cap=70 if ctx.tier == "quick" else None)
    if selftest or not quick:
        _selftest(ctx, traces)


def _selftest(ctx, traces):
    import copy
    muts = []
    for t in traces:
        evs = [e for e in t["events"] if e["ev"] == "Eval" and len(e["rows"]) >= 2 and len({tuple(x) for x in e["ll"]}) >= 2]
        if evs:
            a = copy.deepcopy(t); a["id"] = "st-ev-%d" % len(muts)
            e = [x for x in a["events"] if x["ev"] == "Eval" and len(x["rows"]) >= 2 and len({tuple(y) for y in x["ll"]}) >= 2][0]
            e["ll"] = e["ll"][::-1]
            muts.append((a, "C05.SameValueOnEveryPath"))
        if len(muts) >= 4:
            break
    v = ctx.validate("SamplerTrace", [m for m, _ in muts])
    ctx.traces_validated -= len(muts)
    bad = [(m["id"], exp, v[m["id"]]["fails"]) for m, exp in muts if exp not in [f[0] for f in v[m["id"]]["fails"]]]
    if bad or not muts:
        raise core.MachineryError("selftest: corrupted traces not rejected as expected: %r" % bad[:3])
    ctx.notes["selftest_corruptions_rejected"] = len(muts)


replay = c02.replay
