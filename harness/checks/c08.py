"""C08 - multi-survey data keep every observation tied to its own survey offset.

spec: MultiSurvey (declarative), MultiSurveyAlg (Concat;Sort;Label;Design, refines MultiSurvey, enumerates inputs)
binding: every (assignment of <=4 epochs to <=3 surveys, times, list / dict with every key order) TLC enumerates is
passed to the real validate_prepare_data; the returned (data, ids, trend_M) is validated by the MultiSurveyTrace
monitor; seeded random cases go to 4 surveys x 30 epochs."""
import random

import numpy as np

from .. import core

LEVEL = "model_checking"
T0 = 55000


def execute(case):
    import astropy.units as u
    from astropy.time import Time
    from thejoker import RVData
    from thejoker.data_helpers import validate_prepare_data
    srcs = case["srcs"]
    objs = []
    for k, s in enumerate(srcs):
        ids = np.array([o["id"] for o in s["obs"]], dtype=float)
        t = np.array([T0 + o["t"] for o in s["obs"]], dtype=float)
        unit = u.km / u.s if (k + case.get("unitrot", 0)) % 2 == 0 else u.m / u.s
        f = (1 * u.km / u.s).to_value(unit)
        perm = list(range(len(ids)))
        random.Random(case["id"]).shuffle(perm)      # sources need not be given in time order
        perm = np.array(perm, dtype=int)
        objs.append(RVData(Time(t[perm], format="mjd", scale="tcb"), ids[perm] * f * unit, (ids[perm] / 8.0) * f * unit))
    mode = case["mode"]
    if mode == "single":
        data = objs[0]
    elif mode == "list":
        data = objs if case.get("seqtype", "list") == "list" else tuple(objs)
    else:
        data = {}
        for s, o in zip(srcs, objs):
            data[s["rawkey"]] = o
    tr = {"id": case["id"], "srcs": [{"key": s["key"], "obs": s["obs"]} for s in srcs], "islist": mode != "dict",
          "rows": [], "labels": [], "constc": [], "offc": [], "trendc": [], "raised": False}
    if mode == "dict":
        ks = np.array([s["rawkey"] for s in srcs])
        uq = list(np.unique(ks))
        tr["rank"] = [uq.index(k) + 1 for k in ks]
    else:
        tr["rank"] = list(range(1, len(srcs) + 1))
    try:
        all_data, ids, M = validate_prepare_data(data, case["poly_trend"], len(srcs) - 1)
    except Exception as ex:
        tr["raised"] = True
        tr["exc"] = repr(ex)[:200]
        return tr
    unit0 = objs[0].rv.unit
    rvv = all_data.rv.to_value(u.km / u.s)
    erv = all_data.rv_err.to_value(u.km / u.s)
    tb = all_data._t_bmjd - T0

    def rint(x, scale=1.0):
        y = x * scale
        return int(round(y)) if np.isfinite(y) and abs(y - round(y)) < 1e-6 else 99999
    tr["rows"] = [{"t": rint(tb[r]), "rvid": rint(rvv[r]), "errid": rint(erv[r], 8.0)} for r in range(len(rvv))]
    tr["labels"] = [str(x) for x in ids]
    M = np.asarray(M)
    k = len(srcs)
    tr["constc"] = [rint(x) for x in M[:, 0]]
    tr["offc"] = [[rint(x) for x in M[:, j]] for j in range(1, k)]
    tr["trendc"] = [[rint(x) for x in M[:, j]] for j in range(k, M.shape[1])]
    tr["unit_first_source"] = all_data.rv.unit == unit0
    tr["ncols"] = int(M.shape[1])
    return tr


def run(ctx, selftest=False):
    from .. import jk
    jk.load()
    quick = ctx.tier == "quick"
    ctx.rule = ("cases = every (<=4 epochs assigned to <=3 surveys, times in {1,2}, list or dict with every key order) TLC enumerates, "
                "built as real RVData sources (alternating km/s and m/s, shuffled inside a source) + seeded random cases to 4 surveys "
                "x 30 epochs; distinct = distinct (sources, mode, key order); trivial = one survey")
    ctx.assumptions = ["TLC/SANY", "astropy Time/units", "identity of an observation is recovered from its value (rv=id, err=id/8)"]
    ctx.model_check("MultiSurveyAlg", "MC_MultiSurveyAlg.cfg" if quick else "MC_MultiSurveyAlg_thorough.cfg", coverage=True, heap="8g")
    # the named deviation, enabled: every behaviour is either right or exactly KF_IdsNotPermuted (classifier is sound)
    ctx.model_check("MultiSurveyAlg", "MC_MultiSurveyAlg_dev.cfg")
    r = ctx.model_check("MultiSurveyAlg", "MC_MultiSurveyAlg_export.cfg", workers=1)
    rnd = random.Random(ctx.seed * 611953 + 8)
    names = [["a", "b", "c", "d"], [10, 20, 30, 40], ["S2", "S10", "S3", "S1"], [3, 1, 2, 0]]
    cases = []
    for n_, v in enumerate(r.tagged("CASE")):
        c = v[1]
        srcs = [dict(s) for s in c["srcs"]]
        k = len(srcs)
        kr = c["krank"]
        kr = [kr[i] for i in sorted(kr)] if isinstance(kr, dict) else list(kr)
        if quick and n_ % 3 != ctx.seed % 3 and k > 1:
            continue
        if c["islist"]:
            for s_i, s in enumerate(srcs):
                s["key"] = str(s_i)
            mode = "list"
            if k == 1 and n_ % 2 == 0:
                mode = "single"
        else:
            nm = names[n_ % 2]                      # sortable names whose rank is krank
            for s_i, s in enumerate(srcs):
                s["rawkey"] = sorted(nm[:k])[kr[s_i] - 1] if not isinstance(nm[0], str) else sorted(nm[:k])[kr[s_i] - 1]
                s["key"] = str(s["rawkey"])
            mode = "dict"
        cases.append({"id": "mc-%d" % n_, "srcs": srcs, "mode": mode, "poly_trend": 1 + n_ % 3, "unitrot": n_ % 2,
                      "seqtype": "list" if n_ % 5 else "tuple"})
    if len(cases) < 300:
        raise core.MachineryError("export produced too few cases (%d)" % len(cases))
    ctx.exhaustive = not quick
    for j in range(200 if quick else 3000):
        k = rnd.choice([1, 2, 2, 3, 3, 4])
        n = rnd.randint(k, rnd.choice([6, 12, 30]))
        asg = list(range(k)) + [rnd.randrange(k) for _ in range(n - k)]
        rnd.shuffle(asg)
        layout = rnd.choice(["interleaved", "disjoint", "identical"])
        srcs = [{"obs": []} for _ in range(k)]
        for i in range(n):
            s = asg[i]
            if layout == "interleaved":
                t = rnd.randint(0, max(2, n // 2))
            elif layout == "disjoint":
                t = (k - 1 - s) * 100 + rnd.randint(0, 20)     # later sources observed EARLIER
            else:
                t = rnd.randint(0, 2)
            srcs[s]["obs"].append({"id": i + 1, "t": t})
        mode = rnd.choice(["list", "dict"]) if k > 1 else rnd.choice(["list", "dict", "single"])
        if mode == "dict":
            nm = rnd.choice(names)[:k]
            nm = list(nm)
            rnd.shuffle(nm)
            for s, key in zip(srcs, nm):
                s["rawkey"] = key
                s["key"] = str(key)
        else:
            for s_i, s in enumerate(srcs):
                s["key"] = str(s_i)
        cases.append({"id": "rnd-%d" % j, "srcs": srcs, "mode": mode, "poly_trend": rnd.randint(1, 3), "unitrot": rnd.randint(0, 1),
                      "seqtype": rnd.choice(["list", "tuple"])})
    traces = core.pmap(execute, cases, procs=8 if quick else 16, chunksize=16)
    for c, t in zip(cases, traces):
        ctx.count()
        if len(c["srcs"]) > 1:
            ctx.nontrivial(("c", [(s["key"], [(o["id"], o["t"]) for o in s["obs"]]) for s in c["srcs"]], c["mode"]))
        if not t["raised"]:
            if not t.pop("unit_first_source"):
                ctx.fail("C08.MergedUnitIsFirstSource", t)
            if t.pop("ncols") != len(c["srcs"]) + c["poly_trend"] - 1:
                ctx.fail("C08.DesignMatrixShape", t)
    ctx.sample(traces[0]); ctx.sample(traces[len(traces) // 2]); ctx.sample(traces[-1])
    verdicts = ctx.validate("MultiSurveyTrace", traces)
    ctx.judge(traces, verdicts)
    if selftest or not quick:
        _selftest(ctx, [t for t in traces if verdicts[t["id"]]["ok"]])     # only traces the monitor accepted are corrupted


def b_ok(t, Counter):
    return bool(t["offc"]) and min(Counter(t["labels"]).values()) >= 2 and len(t["offc"][0]) >= 4


def _selftest(ctx, traces):
    import copy
    muts = []
    pool = [t for t in traces if not t["raised"] and len(t["srcs"]) >= 2 and len(set(t["labels"])) >= 2
            and t["labels"] != sorted(t["labels"])][:4]
    for i, t in enumerate(pool):
        a = copy.deepcopy(t); a["id"] = "st-lab-%d" % i; a["labels"] = sorted(a["labels"]); muts.append((a, "C08.LabelFollowsObservation"))
        # one observation moved in / out of an offset column: with every survey holding >= 2 epochs the column then marks no
        # survey's epochs exactly, whichever survey is taken as the reference (reversing a column can be a legal relabelling)
        from collections import Counter
        if b_ok(t, Counter):
            b = copy.deepcopy(t); b["id"] = "st-off-%d" % i; b["offc"][0][0] = 1 - b["offc"][0][0]
            muts.append((b, "C08.OffsetColumnPerSurveyOneReference"))
    v = ctx.validate("MultiSurveyTrace", [m for m, _ in muts])
    ctx.traces_validated -= len(muts)
    bad = [(m["id"], exp, v[m["id"]]) for m, exp in muts if v[m["id"]]["ok"] or v[m["id"]]["clause"] != exp]
    if bad or not muts:
        raise core.MachineryError("selftest: corrupted traces not rejected as expected: %r" % bad[:3])
    ctx.notes["selftest_corruptions_rejected"] = len(muts)


def replay(ctx, path):
    import json
    from .. import jk
    jk.load()
    rec = json.load(open(path))
    t = rec["case"]
    v = ctx.validate("MultiSurveyTrace", [t])
    print("recorded trace re-validated:", v)
    return 0 if v[t["id"]]["ok"] else 1
