"""C04 - a sample row denotes one RV curve everywhere; the Bayes identity holds.

Same specification (Gauss: Curve uses the very columns of the kernel's design matrix) and monitor (GaussTrace, Orbit
events).  For every structural point without survey offsets (the orbit API has none) the row returned by the
posterior-draw path (sentinel linear parameters 101, 102, ...) is turned into samples.get_orbit(0) and its radial velocity
at the data epochs - explicit t_ref different from the first epoch, M0 and omega on the lattice, poly_trend 1..3 - must
equal the specification's curve exactly (TLC); ln_unmarginalized_likelihood must be the jitter-inflated Gaussian sum of
that curve, samples.t_ref the data's, and marginal = unmarginalised + linear prior - conditional posterior with all four
terms evaluated from certified matrices."""
import random

from .. import core
from .. import gauss_driver as gd
from . import c01

LEVEL = "model_checking"
FAMILIES = ("C04.",)
FAM = {"orbit": "C04", "draw": "C04draw", "kernel": "C04kernel"}


def run(ctx, selftest=False):
    from .. import jk
    jk.load()
    quick = ctx.tier == "quick"
    ctx.rule = ("cases = structural points TLC enumerates (with and without survey offsets) (N<=3, poly_trend 1..3, K prior kinds, means, jitter, e) with "
                "seeded lattice values and random unit assignments; distinct = distinct configurations; trivial = N=1 and poly_trend=1")
    ctx.assumptions = ["TLC/SANY", "twobody KeplerOrbit.radial_velocity as the independent orbit path", "numpy for Gaussian densities of "
                       "certified matrices"]
    ctx.model_check("GaussMC", "MC_Gauss.cfg", coverage=True)
    S = c01.structs(ctx, quick)     # with and without survey offsets (a row's curve at the epochs of survey k includes its dv0_k)
    rnd = random.Random(ctx.seed * 30011 + 4)
    cases = c01.make_cases(ctx, S, rnd, len(S), FAM, units_fn=gd.random_units)
    if not quick:
        for rep in range(3):
            cases += c01.make_cases(ctx, S, rnd, len(S), FAM, units_fn=gd.random_units, prefix="r%d" % rep)
    ctx.exhaustive = True
    traces = core.pmap(gd.realize, cases, chunksize=4)
    for c, t in zip(cases, traces):
        ctx.count()
        g = c["g"]
        if not (g["N"] == 1 and g["poly"] == 1):
            ctx.nontrivial(str(sorted(g.items())) + str(sorted(c["ua"].items())))
        if not any(e["ev"] == "Orbit" for e in t["events"]):
            ctx.fail("C04.RowCouldNotBeProduced", t)
    ctx.sample(traces[0]); ctx.sample(traces[-1])
    otr = [gd.oracle_trace(c) for c in cases[:: (4 if quick else 1)]]
    ctx.notes["oracle_validated_on_lattice_configurations"] = len(otr)
    # off the lattice: marginal(theta) = ln p(y | theta, x) + ln p(x | theta) - ln N(x | a, A) with the unmarginalised likelihood of the
    # row from the real code (get_orbit) and prior / posterior densities of x from the transcribed specification
    gd.offlattice(ctx, "C04", 80 if quick else 1500, [("dev_bayes", "OffLatticeBayesIdentity")])
    verdicts = ctx.validate("GaussTrace", traces + otr, timeout=3000)
    ctx.judge(traces + otr, verdicts, families=FAMILIES + ("H.",))
    # ln_unmarginalized_likelihood at the end of every short HISTORY of calls on one table (spec/History.tla)
    from .. import history
    history.check(ctx, "samples", {"C04"}, ("C04.", "H."), selftest=selftest)
    if selftest or not quick:
        import copy
        muts = []
        for t in traces:
            k = [e for e in t["events"] if e["ev"] == "Orbit"]
            if k and k[0]["curve"] and len(muts) < 4:
                a = copy.deepcopy(t); a["id"] = "st-%d" % len(muts)
                ka = [e for e in a["events"] if e["ev"] == "Orbit"][0]
                ka["curve"][0] = [ka["curve"][0][0] + ka["curve"][0][1], ka["curve"][0][1]]
                muts.append(a)
        v = ctx.validate("GaussTrace", muts)
        ctx.traces_validated -= len(muts)
        if not muts or any(v[m["id"]]["ok"] for m in muts):
            raise core.MachineryError("selftest: corrupted curve not rejected")
        ctx.notes["selftest_corruptions_rejected"] = len(muts)


replay = c01.replay
