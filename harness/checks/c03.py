"""C03 - linear parameters are drawn from N(a, A) of the same model as the marginal likelihood.

Same specification (Gauss) and monitor (GaussTrace, Draw events).  For every structural point the posterior-draw path is
run on the real helper through likelihood_helpers.make_full_samples_inmem with a scripted generator that records the
(mean, cov, size) handed to multivariate_normal and returns sentinel draws; the helper's Ainv and Ainv.a (= rhs) are
compared with the specification's exact matrices (same jitter-inflated covariance, same prior incl. the K-variance cap),
cov.Ainv = I numerically, one call per sample with size = n_linear_samples, every sentinel value in its slot and unit,
the nonlinear parameters copied bit-for-bit."""
import random

from .. import core
from .. import gauss_driver as gd
from . import c01

LEVEL = "model_checking"
FAMILIES = ("C03.",)
FAM = {"draw": "C03"}


def run(ctx, selftest=False):
    from .. import jk
    jk.load()
    quick = ctx.tier == "quick"
    ctx.rule = ("cases = structural points TLC enumerates with seeded lattice values, n_linear_samples in 1..3, weakly and strongly "
                "informative data (sigma^2 in {1,4} against prior variances 9..169 and K variances 1/4..25), quick: 320 points in random "
                "unit assignments; distinct = distinct configurations; trivial = N=1, poly_trend=1, no offsets")
    ctx.assumptions = ["TLC/SANY", "numpy's multivariate_normal samples the distribution it is given", "projection to rationals (1e-9)"]
    ctx.model_check("GaussMC", "MC_Gauss.cfg", coverage=True)
    S = c01.structs(ctx, quick)
    rnd = random.Random(ctx.seed * 60013 + 3)
    cases = c01.make_cases(ctx, S, rnd, 320 if quick else len(S), FAM, units_fn=gd.random_units)
    if not quick:
        cases += c01.make_cases(ctx, S, rnd, len(S), FAM, prefix="b")
    ctx.exhaustive = not quick
    traces = core.pmap(gd.realize, cases, chunksize=4)
    for c, t in zip(cases, traces):
        ctx.count()
        g = c["g"]
        if not (g["N"] == 1 and g["poly"] == 1 and g["noff"] == 0):
            ctx.nontrivial(str(sorted(g.items())) + str(c["nlinear"]))
    ctx.sample(traces[0]); ctx.sample(traces[-1])
    otr = [gd.oracle_trace(c) for c in cases[:: (4 if quick else 1)]]
    ctx.notes["oracle_validated_on_lattice_configurations"] = len(otr)
    gd.offlattice(ctx, "C03", 60 if quick else 1500, [("dev_mean", "OffLatticePosteriorMean"), ("dev_cov", "OffLatticePosteriorCovariance")])
    verdicts = ctx.validate("GaussTrace", traces + otr, timeout=3000)
    ctx.judge(traces + otr, verdicts, families=FAMILIES + ("H.",))
    if selftest or not quick:
        import copy
        muts = []
        for t in traces:
            k = [e for e in t["events"] if e["ev"] == "Draw"]
            if k and k[0]["outx"] and len(muts) < 4 and len(k[0]["outx"][0]) >= 2:
                a = copy.deepcopy(t); a["id"] = "st-%d" % len(muts)
                ka = [e for e in a["events"] if e["ev"] == "Draw"][0]
                ka["outx"][0][0], ka["outx"][0][1] = ka["outx"][0][1], ka["outx"][0][0]
                muts.append(a)
        v = ctx.validate("GaussTrace", muts)
        ctx.traces_validated -= len(muts)
        if not muts or any(v[m["id"]]["ok"] for m in muts):
            raise core.MachineryError("selftest: swapped draw columns not rejected")
        ctx.notes["selftest_corruptions_rejected"] = len(muts)


replay = c01.replay
