"""X07 (extension, not a listed property) - argument handling of the entry points.

spec: Entry (TheJoker.__init__ decision table: raise TypeError iff the prior is not a JokerPrior, the pool lacks map / close or rng is a
RandomState; the temp directory appears when tempfile_path is read, not before; deprecated argument names are pure renames that
warn), EntryMC (48 cases; obligations consistent), EntryTrace (monitor).
binding: every case TLC enumerates is constructed for real; the renames random_state -> rng (TheJoker, JokerPrior.sample,
utils.read_batch) and t0 -> t_ref (RVData.phase) are called under both names with equal seeds and compared bit for bit."""
import hashlib
import os
import warnings

import numpy as np

from .. import core

LEVEL = "model_checking"


def _h(x):
    return hashlib.sha256(np.ascontiguousarray(np.asarray(x, dtype=float)).tobytes()).hexdigest()[:16]


def init_case(case, workdir):
    import schwimmbad
    from thejoker import TheJoker
    from .. import fixture
    prior = {"jokerprior": fixture.make_prior("default"), "dict": {"P": 1}, "none": None}[case["prior"]]

    class NoMap:
        def close(self):
            pass

    class NoClose:
        def map(self, f, x):
            return list(map(f, x))
    kw = {}
    if case["pool"] != "default":
        kw["pool"] = {"serial": schwimmbad.SerialPool(), "nomap": NoMap(), "noclose": NoClose()}[case["pool"]]
    if case["rng"] != "default":
        kw["rng"] = {"generator": np.random.default_rng(3), "randomstate": np.random.RandomState(3), "int": 3}[case["rng"]]
    d = os.path.join(workdir, "x07-%s" % case["id"], "tmp")
    kw["tempfile_path"] = d
    tr = {"id": case["id"], "kind": "init", "prior": case["prior"], "pool": case["pool"], "rng": case["rng"], "raised": False, "typeerror": False,
          "dirbefore": os.path.isdir(d), "dirafterinit": False, "dirafterread": False}
    try:
        j = TheJoker(prior, **kw)
        tr["dirafterinit"] = os.path.isdir(d)
        p = j.tempfile_path
        tr["dirafterread"] = os.path.isdir(d) and os.path.samefile(p, d)
    except Exception as ex:
        tr["raised"] = True
        tr["typeerror"] = isinstance(ex, TypeError)
        tr["exc"] = repr(ex)[:120]
    return tr


def rename_cases(workdir):
    import astropy.units as u
    from thejoker import TheJoker
    from thejoker.utils import read_batch
    from .. import fixture
    prior = fixture.make_prior("default")
    data = fixture.make_data()
    lib = fixture.Library(30, seed=5)
    path = os.path.join(workdir, "x07-lib.hdf5")
    lib.write(path)
    out = []

    def probe(what, new, old, both):
        tr = {"id": "rename-" + what, "kind": "rename", "what": what, "same": False, "warned": False, "both": False}
        try:
            a = new()
            with warnings.catch_warnings(record=True) as w:
                warnings.simplefilter("always")
                b = old()
            tr["same"] = bool(a == b)
            tr["warned"] = any(issubclass(x.category, DeprecationWarning) or "deprecat" in str(x.message).lower() for x in w)
            try:
                with warnings.catch_warnings():
                    warnings.simplefilter("ignore")
                    both()
            except TypeError:
                tr["both"] = True
        except Exception as ex:
            tr["exc"] = repr(ex)[:160]
        out.append(tr)
    g = lambda: np.random.default_rng(11)
    probe("TheJoker.random_state",
          lambda: _h(TheJoker(prior, rng=g()).rejection_sample(data, lib.samples, in_memory=True)["K"].value),
          lambda: _h(TheJoker(prior, random_state=g()).rejection_sample(data, lib.samples, in_memory=True)["K"].value),
          lambda: TheJoker(prior, rng=g(), random_state=g()))
    probe("JokerPrior.sample.random_state",
          lambda: _h(prior.sample(size=5, rng=g())["P"].value),
          lambda: _h(prior.sample(size=5, random_state=g())["P"].value),
          lambda: prior.sample(size=5, rng=g(), random_state=g()))
    probe("read_batch.random_state",
          lambda: _h(read_batch(path, ["P", "e"], 7, rng=g())),
          lambda: _h(read_batch(path, ["P", "e"], 7, random_state=g())),
          lambda: read_batch(path, ["P", "e"], 7, rng=g(), random_state=g()))
    from astropy.time import Time
    tref = Time(fixture.T0 + 3.25, format="mjd", scale="tcb")
    probe("RVData.phase.t0",
          lambda: _h(data.phase(7.5 * u.day, t_ref=tref)),
          lambda: _h(data.phase(7.5 * u.day, t0=tref)),
          lambda: data.phase(7.5 * u.day, t_ref=tref, t0=tref))
    return out


def run(ctx, selftest=False):
    from .. import jk
    jk.load()
    ctx.rule = ("cases = every (prior kind, pool kind, rng kind) TLC enumerates, constructed for real with a fresh tempfile_path, + the four "
                "deprecated argument names called under both names with equal seeds; distinct = distinct cases; trivial = none")
    ctx.assumptions = ["TLC/SANY", "SHA-256 of returned arrays"]
    ctx.model_check("EntryMC", "MC_Entry.cfg", coverage=True)
    r = ctx.model_check("EntryMC", "MC_Entry_export.cfg", workers=1)
    cases = [{"id": "mc-%d" % k, "prior": v[1]["prior"], "pool": v[1]["pool"], "rng": v[1]["rng"]} for k, v in enumerate(r.tagged("CASE"))]
    if len(cases) != 48:
        raise core.MachineryError("expected 48 constructor cases, got %d" % len(cases))
    ctx.exhaustive = True
    traces = [init_case(c, ctx.workdir) for c in cases] + rename_cases(ctx.workdir)
    for t in traces:
        ctx.count()
        ctx.nontrivial(t["id"])
    ctx.notes["constructor_calls_accepted"] = sum(1 for t in traces if t["kind"] == "init" and not t["raised"])
    ctx.sample(traces[0]); ctx.sample(traces[-1])
    verdicts = ctx.validate("EntryTrace", traces)
    ctx.judge(traces, verdicts)
    if selftest or ctx.tier != "quick":
        import copy
        a = copy.deepcopy(traces[-1]); a["id"] = "st-0"; a["same"] = False
        v = ctx.validate("EntryTrace", [a])
        ctx.traces_validated -= 1
        if v["st-0"]["clause"] != "X07.DeprecatedNameIsAPureRename":
            raise core.MachineryError("selftest: corrupted trace not rejected")
        ctx.notes["selftest_corruptions_rejected"] = 1


def replay(ctx, path):
    import json
    rec = json.load(open(path))
    v = ctx.validate("EntryTrace", [rec["case"]])
    print("recorded trace re-validated:", v[rec["case"]["id"]])
    return 0 if v[rec["case"]["id"]]["ok"] else 1
