"""C12 - sample files round-trip exactly; batch reads return the rows asked for.

spec: SampleFile (outcome table of Write / Read / ReadBatch), SampleFileMC (histories over a family of tables; append is
concatenation, refused operations leave the file, refusal iff incompatible), SampleFileTrace (monitor).
binding: every history of two writes TLC enumerates (16 table shapes x overwrite x append) is replayed on a real HDF5 file,
followed by a read and batch reads (range, slice, index array with repeats / unsorted, random subset; column subsets;
requested units); the logical content read back after every step (row content hashes, row ids, columns, units, t_ref,
poly_trend, n_offsets) is validated by the monitor.  Seeded random histories are longer (to 6 operations, tables to
200 / 5000 rows, FITS write/read)."""
import os
import random
import shutil

import numpy as np

from .. import core

LEVEL = "model_checking"
T0 = 55000
ALLCOLS = ["P", "e", "omega", "M0", "s", "K", "v0", "v1", "ln_prior"]
CANON = {"P": "d", "e": "", "omega": "rad", "M0": "rad", "s": "km/s", "K": "km/s", "v0": "km/s", "v1": "km/(s d)", "ln_prior": ""}


def _unit(s):
    import astropy.units as u
    return u.one if s == "" else u.Unit(s)


def _ustr(unit):
    import astropy.units as u
    if unit is None or unit == u.one or str(unit) == "":
        return ""
    return u.Unit(unit).to_string()


def make_table(shape, id0, tscale="tcb", f32=()):
    import astropy.units as u
    from astropy.time import Time
    from thejoker import JokerSamples
    from .. import tokens
    n = shape["n"]
    tref = None if shape["meta"]["tref"] < 0 else Time(T0 + shape["meta"]["tref"], format="mjd", scale="tcb")
    if tref is not None and tscale != "tcb":
        tref = getattr(tref, tscale)          # the same instant, handed over on another time scale (one scale per history)
    s = JokerSamples(t_ref=tref, poly_trend=shape["meta"]["poly"], n_offsets=shape["meta"]["noff"])
    ids = [id0 + k for k in range(1, n + 1)]
    cols = []
    for name, us in zip(shape["cols"], shape["units"]):
        ci = ALLCOLS.index(name)
        can = np.array([i + 100000.0 * ci + _frac(i) for i in ids]) * _unit(CANON[name])
        q = can.to(_unit(us)) if us != "" else can
        if name in f32:           # a column stored in single precision (a library written to save space)
            q = q.astype(np.float32)
        s[name] = q
        cols.append(np.asarray(s.tbl[name].value if hasattr(s.tbl[name], "value") else s.tbl[name], dtype=float))
    rows = [tokens.bits_hash(np.array([c[k] for c in cols])) for k in range(n)]
    tbl = {"cols": list(shape["cols"]), "units": [_ustr(_unit(x)) for x in shape["units"]], "meta": dict(shape["meta"]),
           "rows": rows, "ids": ids}
    return s, tbl


def _frac(i):
    """a small fractional part that single precision cannot hold next to the row id (so that a value that went through float32 shows)"""
    return ((int(i) * 37) % 101) / 101.0 * 1e-3


def _decode(v, name, unit, tol=1e-6):
    """value in `unit` -> (row id, ok)"""
    ci = ALLCOLS.index(name)
    can = (float(v) * _unit(unit)).to_value(_unit(CANON[name])) if CANON[name] != "" or unit != "" else float(v)
    x = can - 100000.0 * ci
    r = round(x)
    ok = abs(x - r - _frac(r)) < tol * max(1.0, abs(can)) and r >= 1
    return int(r), bool(ok)


def observe(path):
    """logical content of the file as JokerSamples.read reports it"""
    from thejoker import JokerSamples
    from .. import tokens
    if not os.path.exists(path):
        return {"absent": True, "cols": [], "units": [], "meta": {"tref": -1, "poly": 0, "noff": 0}, "rows": [], "ids": []}
    try:
        s = JokerSamples.read(path)
    except Exception as ex:
        return {"absent": False, "cols": ["<unreadable: %s>" % type(ex).__name__], "units": [], "meta": {"tref": -1, "poly": 0, "noff": 0},
                "rows": [], "ids": []}
    cols = list(s.par_names)
    units, arrs = [], []
    for c in cols:
        col = s.tbl[c]
        units.append(_ustr(getattr(col, "unit", None)))
        arrs.append(np.atleast_1d(np.asarray(getattr(col, "value", col), dtype=float)))
    n = len(arrs[0]) if arrs else 0
    rows = [tokens.bits_hash(np.array([a[k] for a in arrs])) for k in range(n)]
    ids = []
    for k in range(n):
        dec = [_decode(arrs[j][k], cols[j], units[j]) for j in range(len(cols))]
        ids.append(dec[0][0] if all(d[1] and d[0] == dec[0][0] for d in dec) else 0)
    tr = s.t_ref
    if tr is None:
        tref = -1
    else:
        v = float(tr.tcb.mjd) - T0
        tref = int(round(v)) if abs(v - round(v)) < 1e-7 else 99999
    return {"absent": False, "cols": cols, "units": units, "meta": {"tref": tref, "poly": int(s.poly_trend), "noff": int(s.n_offsets)},
            "rows": rows, "ids": ids}


def batch_event(path, cur, rnd, f32=()):
    """one read_batch call on the current file; cur = spec-side knowledge of columns/units (from the last observation)"""
    from thejoker.utils import read_batch
    cols_all, units_all, n = cur["cols"], cur["units"], len(cur["ids"])
    k = rnd.randint(1, len(cols_all))
    cols = rnd.sample(cols_all, k)
    req = {}
    alt = {"d": ["h", "yr", "d"], "h": ["d", "h"], "km/s": ["m/s", "km/s"], "m/s": ["km/s", "m/s"], "rad": ["deg", "rad"], "deg": ["rad"]}
    for c in cols:
        u0 = units_all[cols_all.index(c)]
        if u0 in alt and rnd.random() < 0.6:
            req[c] = rnd.choice(alt[u0])
    kind = rnd.choice(["tuple", "slice", "idx", "idx", "random"])
    ev = {"ev": "Batch", "kind": "pos", "pos": [], "n": 0, "outids": [], "colsok": True, "exact": True, "raised": False,
          "cols": cols, "requnits": [req.get(c, "") for c in cols], "selkind": kind}
    rng = np.random.default_rng(rnd.randint(0, 10**6))
    if kind in ("tuple", "slice"):
        lo = rnd.randint(0, n - 1)
        hi = rnd.randint(lo + 1, n)
        sel = (lo, hi) if kind == "tuple" else slice(lo, hi)
        ev["pos"] = list(range(lo + 1, hi + 1))
    elif kind == "idx":
        m = rnd.randint(1, min(n + 2, 12))
        idx = [rnd.randrange(n) for _ in range(m)]
        z = rnd.random()
        if z < 0.3:
            idx = sorted(set(idx))
        elif z < 0.65 and n >= 2:
            # shuffled contiguous block, possibly with one element replaced by another of the block (same end points)
            lo = rnd.randint(0, n - 2)
            hi = rnd.randint(lo + 1, min(n - 1, lo + 6))
            idx = list(range(lo, hi + 1))
            mid = idx[1:-1]
            rnd.shuffle(mid)
            idx = [idx[0]] + mid + [idx[-1]]
            if rnd.random() < 0.5 and len(idx) >= 4:
                idx[rnd.randint(1, len(idx) - 2)] = rnd.choice(idx)
            if rnd.random() < 0.3:
                idx = idx[::-1]
        sel = np.array(idx)
        ev["pos"] = [i + 1 for i in idx]
    else:
        m = rnd.randint(1, n)
        sel = m
        ev["kind"] = "random"
        ev["n"] = m
    import astropy.units as u
    try:
        out = read_batch(path, cols, sel, units={c: _unit(v) for c, v in req.items()} or None, rng=rng)
    except Exception as ex:
        ev["raised"] = True
        ev["exc"] = repr(ex)[:200]
        return ev
    out = np.asarray(out)
    if out.ndim != 2 or out.shape[1] != len(cols):
        ev["colsok"] = False
        return ev
    for r in range(out.shape[0]):
        # a column stored in double precision comes back in double precision (1e-10), one stored in single precision to that
        dec = [_decode(out[r, j], cols[j], req.get(cols[j], units_all[cols_all.index(cols[j])]), tol=1e-6 if cols[j] in f32 else 1e-10)
               for j in range(len(cols))]
        if not all(d[1] for d in dec):
            ev["exact"] = False
        ev["outids"].append(dec[0][0] if all(d[0] == dec[0][0] for d in dec) else 0)
    return ev


def run_history(case):
    from .. import tokens
    rnd = random.Random(case["seed"])
    wd = os.path.join(case["workdir"], case["id"])
    os.makedirs(wd, exist_ok=True)
    path = os.path.join(wd, "samples" + case.get("ext", ".hdf5"))
    events = []
    nid = 0
    for op in case["ops"]:
        if op["op"] == "write":
            s, tbl = make_table(op["shape"], nid, case.get("tscale", "tcb"), f32=case.get("f32", ()))
            nid += op["shape"]["n"]
            sha0 = tokens.file_sha(path) if os.path.exists(path) else ""
            ev = {"ev": "Write", "tbl": tbl, "ow": op["ow"], "ap": op["ap"], "raised": False}
            try:
                s.write(path, overwrite=op["ow"], append=op["ap"])
            except Exception as ex:
                ev["raised"] = True
                ev["exc"] = repr(ex)[:200]
                ev["bytes_same"] = (tokens.file_sha(path) if os.path.exists(path) else "") == sha0
            ev["after"] = observe(path)
            events.append(ev)
        elif op["op"] == "read":
            o = observe(path)
            events.append({"ev": "Read", "raised": o["cols"][:1] != [] and o["cols"][0].startswith("<unreadable"), "after": o})
        elif op["op"] == "rewrite":
            # what was read back is a table like any other: written to another file (HDF5) it holds the same content
            from thejoker import JokerSamples
            p2 = os.path.join(wd, "again.hdf5")
            try:
                JokerSamples.read(path).write(p2, overwrite=True)
                events.append({"ev": "Read", "raised": False, "after": observe(p2), "via": "rewrite"})
            except Exception as ex:
                events.append({"ev": "Read", "raised": True, "after": observe(path), "via": "rewrite", "exc": repr(ex)[:200]})
        elif op["op"] == "batch":
            cur = observe(path)
            if cur["absent"] or not cur["ids"] or (cur["cols"] and cur["cols"][0].startswith("<unreadable")):
                continue
            events.append(batch_event(path, cur, rnd, f32=case.get("f32", ())))
    shutil.rmtree(wd, ignore_errors=True)
    return {"id": case["id"], "events": events}


def _shape_from_tla(s):
    return {"cols": list(s["cols"]), "units": list(s["units"]), "meta": dict(s["meta"]), "n": s["n"]}


def run(ctx, selftest=False):
    from .. import jk
    jk.load()
    quick = ctx.tier == "quick"
    ctx.rule = ("cases = every history of two writes TLC enumerates (16 shapes x overwrite x append per step), each followed by read + 3 batch "
                "reads (quick: seeded subset) + seeded random histories of up to 6 operations (tables to 200 / 5000 rows, 9 column "
                "kinds, unit variants, t_ref / poly_trend variants, FITS write/read); distinct = distinct operation sequences; "
                "trivial = single write")
    ctx.assumptions = ["TLC/SANY", "astropy units/Time, h5py, PyTables", "row identity is encoded in the values (id + 100000 x column index)",
                       "bit-exactness is checked through SHA-256 of each row's float64 values"]
    ctx.model_check("SampleFileMC", "MC_SampleFile.cfg", coverage=True)
    if not quick:     # every history of four file operations (85.8 M states, ~4 min on 16 cores)
        ctx.model_check("SampleFileMC", "MC_SampleFile_thorough.cfg", heap="12g")
    r = ctx.model_check("SampleFileMC", "MC_SampleFile_export.cfg", workers=1)
    rnd = random.Random(ctx.seed * 7001 + 12)
    allh = r.tagged("CASE")
    idx = list(range(len(allh)))
    rnd.shuffle(idx)
    cases = []
    for k in idx[: (500 if quick else len(idx))]:
        ops = [{"op": "write", "shape": _shape_from_tla(h["shape"]), "ow": h["ow"], "ap": h["ap"]} for h in allh[k][1]]
        ops += [{"op": "read"}, {"op": "batch"}, {"op": "batch"}, {"op": "batch"}]
        cases.append({"id": "mc-%d" % k, "ops": ops, "seed": k, "workdir": ctx.workdir})
    ctx.notes["histories_enumerated_by_tlc"] = len(allh)
    ctx.notes["histories_replayed"] = len(cases)
    ctx.exhaustive = not quick
    colsets = [["P", "e"], ["P", "e", "omega", "M0", "s"], ["P", "e", "omega", "M0", "s", "K", "v0"], ["P", "e", "K", "ln_prior"],
               ["P", "e", "omega", "M0", "s", "K", "v0", "v1"]]
    ualt = {"P": ["d", "h", "yr"], "e": [""], "omega": ["rad", "deg"], "M0": ["rad", "deg"], "s": ["km/s", "m/s"], "K": ["km/s", "m/s"],
            "v0": ["km/s", "m/s"], "v1": ["km/(s d)", "m/(s d)"], "ln_prior": [""]}
    for j in range(200 if quick else 2500):
        base_cols = rnd.choice(colsets)

        def shape():
            cols = base_cols if rnd.random() < 0.8 else rnd.choice(colsets)
            poly = 2 if "v1" in cols else 1
            units = [rnd.choice(ualt[c]) if rnd.random() < 0.3 else ualt[c][0] for c in cols]
            return {"cols": list(cols), "units": units, "meta": {"tref": rnd.choice([0, 0, 0, 5, -1]), "poly": poly, "noff": 0},
                    "n": rnd.choice([1, 2, 3, 7, rnd.randint(1, 200 if quick else 5000)])}
        ops = []
        for _ in range(rnd.randint(1, 6)):
            k = rnd.random()
            if k < 0.6:
                ops.append({"op": "write", "shape": shape(), "ow": rnd.random() < 0.25, "ap": rnd.random() < 0.6})
            elif k < 0.75:
                ops.append({"op": "read"})
            else:
                ops.append({"op": "batch"})
        ops += [{"op": "read"}, {"op": "batch"}]
        cases.append({"id": "rnd-%d" % j, "ops": ops, "seed": rnd.randint(0, 10**6), "workdir": ctx.workdir,
                      "tscale": ["tcb", "utc", "tt", "tdb"][j % 4],
                      # one history in four stores one column (the same in every table of the history) in single precision
                      "f32": [base_cols[(j // 4) % len(base_cols)]] if j % 4 == 1 else []})
    for j in range(20 if quick else 200):   # FITS: write / overwrite / read only
        base_cols = rnd.choice(colsets[:4])
        sh = {"cols": list(base_cols), "units": [ualt[c][0] for c in base_cols], "meta": {"tref": rnd.choice([0, 5, -1]), "poly": 1, "noff": 0},
              "n": rnd.randint(1, 30)}
        ops = [{"op": "write", "shape": sh, "ow": rnd.random() < 0.5, "ap": False}, {"op": "read"}, {"op": "rewrite"},
               {"op": "write", "shape": dict(sh, n=rnd.randint(1, 5)), "ow": rnd.random() < 0.6, "ap": False}, {"op": "read"}, {"op": "rewrite"}]
        cases.append({"id": "fits-%d" % j, "ops": ops, "seed": j, "workdir": ctx.workdir, "ext": ".fits",
                      "tscale": ["tcb", "utc", "tt", "tdb"][j % 4]})
    traces = core.pmap(run_history, cases, chunksize=8)
    for c, t in zip(cases, traces):
        ctx.count()
        if len([o for o in c["ops"] if o["op"] == "write"]) > 1:
            ctx.nontrivial([(o["op"], o.get("ow"), o.get("ap"), str(o.get("shape"))) for o in c["ops"]])
    ctx.sample(_brief(traces[0])); ctx.sample(_brief(traces[-1]))
    verdicts = ctx.validate("SampleFileTrace", traces, timeout=3000)
    ctx.judge(traces, verdicts, classify=_classify)
    if selftest or not quick:
        _selftest(ctx, traces)


def _classify(trace, clause, pos):
    """known-finding classification on top of the monitor's verdict (exact deviation predicates)"""
    e = trace["events"][pos - 1]
    if e["ev"] != "Write":
        return None
    return None


def _brief(t):
    out = []
    for e in t["events"][:8]:
        e2 = {}
        for k, v in e.items():
            if isinstance(v, dict):
                e2[k] = {a: (b[:4] + ["..."] if isinstance(b, list) and len(b) > 4 else b) for a, b in v.items()}
            elif isinstance(v, list) and len(v) > 6:
                e2[k] = v[:6] + ["..."]
            else:
                e2[k] = v
        out.append(e2)
    return {"id": t["id"], "events": out}


def _selftest(ctx, traces):
    import copy
    muts = []
    for t in traces:
        ws = [e for e in t["events"] if e["ev"] == "Write" and not e["raised"] and len(e["after"]["ids"]) >= 2]
        if ws:
            a = copy.deepcopy(t); a["id"] = "st-%d" % len(muts)
            e = [x for x in a["events"] if x["ev"] == "Write" and not x["raised"] and len(x["after"]["ids"]) >= 2][0]
            e["after"]["rows"][0] = "0" * 16
            muts.append(a)
        if len(muts) >= 4:
            break
    v = ctx.validate("SampleFileTrace", muts)
    ctx.traces_validated -= len(muts)
    bad = [m["id"] for m in muts if v[m["id"]]["ok"]]
    if bad or not muts:
        raise core.MachineryError("selftest: corrupted traces not rejected: %r" % bad)
    ctx.notes["selftest_corruptions_rejected"] = len(muts)


def replay(ctx, path):
    import json
    from .. import jk
    jk.load()
    rec = json.load(open(path))
    t = rec["case"]
    v = ctx.validate("SampleFileTrace", [t])
    print("recorded trace re-validated:", v[t["id"]])
    return 0 if v[t["id"]]["ok"] else 1
