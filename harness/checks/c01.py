"""C01 - marginal log-likelihood equals the analytic Gaussian marginal.

spec: Gauss (the linear-Gaussian model in exact rationals on a lattice; one slot order for design matrix, prior means and
prior variances; K-variance rule with cap), GaussMC (structural enumeration + theorems), GaussTrace (monitor).
binding: every structural point TLC enumerates (epochs 1..3 x poly_trend 1..3 x offsets 0..2 with every canonical survey
labelling x default / capped / custom K prior x zero / non-zero means x jitter) is given lattice values (seeded) and
realised through RVData / JokerPrior / JokerSamples; the kernel's public state B, b after marginal_ln_likelihood is
projected to physical units and exact rationals and compared entry by entry with the specification by TLC; the returned
value is compared with ln N(y; b, B) evaluated from those certified matrices, and with the value returned through
TheJoker.marginal_ln_likelihood in memory and through the cache file.  Off the lattice: finiteness on seeded random
valid inputs."""
import random

import numpy as np

from .. import core
from .. import gauss_driver as gd

LEVEL = "model_checking"
FAMILIES = ("C01.",)
FAM = {"kernel": "C01"}


def structs(ctx, quick):
    r = ctx.model_check("GaussMC", "MC_Gauss_export.cfg", workers=1)
    out = []
    for v in r.tagged("CASE"):
        c = v[1]
        c["lab"] = list(c["lab"])
        c["e"] = list(c["e"])
        out.append(c)
    if len(out) < 500:
        raise core.MachineryError("structural export too small: %d" % len(out))
    return out


def make_cases(ctx, S, rnd, count, fam, units_fn=None, prefix="c"):
    idx = list(range(len(S)))
    rnd.shuffle(idx)
    cases = []
    for k in idx[:count]:
        L = 1 + S[k]["poly"] + S[k]["noff"]
        ua = units_fn(rnd, L) if units_fn else None
        g, ua = gd.make_config(S[k], rnd, ua)
        cases.append({"id": "%s-%d" % (prefix, k), "g": g, "ua": ua, "fam": fam, "seed": k,
                      "jitter_kind": "sampled" if (S[k]["s2"] or k % 2) else "const", "nlinear": 1 + k % 3, "api_file": k % 4 == 0})
    return cases


def finite_case(seed):
    """off-lattice exploration: a valid random problem must give a finite value"""
    import astropy.units as u
    from astropy.time import Time
    from thejoker import JokerPrior, JokerSamples, RVData, TheJoker
    rng = np.random.default_rng(seed)
    n = int(rng.integers(1, 41))
    span = 10 ** rng.uniform(-1, 5)
    escale = 10 ** rng.uniform(-3, 3)
    t = Time(55000 + np.sort(rng.uniform(0, span, n)), format="mjd", scale="tcb")
    unit = [u.km / u.s, u.m / u.s][seed % 2]
    data = RVData(t, rng.normal(0, 30, n) * unit, np.full(n, escale) * unit)
    prior = JokerPrior.default(P_min=0.5 * u.day, P_max=1e4 * u.day, sigma_K0=30 * u.km / u.s, sigma_v=100 * u.km / u.s)
    m = 8
    s = JokerSamples()
    s["P"] = 10 ** rng.uniform(-0.3, 4, m) * u.day
    s["e"] = rng.uniform(0, 0.99, m)
    s["omega"] = rng.uniform(0, 2 * np.pi, m) * u.rad
    s["M0"] = rng.uniform(0, 2 * np.pi, m) * u.rad
    s["s"] = 10 ** rng.uniform(-3, 2, m) * unit
    ll = TheJoker(prior).marginal_ln_likelihood(data, s, in_memory=True)
    return bool(np.all(np.isfinite(ll))), {"seed": seed, "n": n, "span": span, "err": escale}


_PRIOR = {}


def run(ctx, selftest=False):
    from .. import jk
    jk.load()
    quick = ctx.tier == "quick"
    ctx.rule = ("cases = structural points TLC enumerates (864: N<=3, poly_trend 1..3, offsets 0..2 x labelling, K prior default / capped / "
                "custom, means, jitter, e in {0,3/5,4/5}) with seeded lattice values (quick: 320 points, base units) + off-lattice "
                "finiteness on seeded random valid inputs; distinct = distinct configurations; trivial = N=1, poly_trend=1, no offsets")
    ctx.assumptions = ["TLC/SANY", "numpy slogdet/solve evaluate ln N of a GIVEN Gaussian", "twobody Kepler solver (lattice phases 0, pi)",
                       "projection of floats to rationals (1e-9)", "multi-survey lattice cases are time-disjoint in list order (C08 finding)"]
    ctx.model_check("GaussMC", "MC_Gauss.cfg", coverage=True)
    S = structs(ctx, quick)
    rnd = random.Random(ctx.seed * 92821 + 1)
    cases = make_cases(ctx, S, rnd, 200 if quick else len(S), FAM)
    if quick:
        cases += make_cases(ctx, S, rnd, 120, FAM, units_fn=gd.random_units, prefix="u")
    if not quick:
        cases += make_cases(ctx, S, rnd, len(S), FAM, units_fn=gd.random_units, prefix="u")
    ctx.exhaustive = not quick
    traces = core.pmap(gd.realize, cases, chunksize=4)
    for c, t in zip(cases, traces):
        ctx.count()
        g = c["g"]
        if not (g["N"] == 1 and g["poly"] == 1 and g["noff"] == 0):
            ctx.nontrivial(str(sorted(g.items())))
    ctx.sample(traces[0]); ctx.sample(traces[-1])
    nf = 0
    fin = core.pmap(finite_case, [ctx.seed * 1000 + i for i in range(40 if quick else 600)], chunksize=8)
    for ok, info in fin:
        ctx.count()
        if not ok:
            nf += 1
            ctx.fail("C01.FiniteForValidInput", {"id": "finite-%d" % info["seed"], "input": info})
    ctx.notes["off_lattice_finiteness_cases"] = len(fin)
    # the floating-point transcription of Gauss.tla must reproduce the specification's exact matrices on the lattice (family H:
    # a failure is a machinery failure) ...
    otr = [gd.oracle_trace(c) for c in cases[:: (4 if quick else 1)]]
    ctx.notes["oracle_validated_on_lattice_configurations"] = len(otr)
    # ... and is then the oracle OFF the lattice: random real-valued problems (1..30 epochs, eccentric orbits, trends, offsets,
    # means, jitter, caps, random units) - value against ln N(y; M mu, Cs + M Lambda M^T), equal through both entry points
    gd.offlattice(ctx, "C01", 60 if quick else 1500, [("dev_ll", "OffLatticeValueIsLnNormalOfTheSpecifiedGaussian"),
                                                         ("dev_paths", "OffLatticeSameValueThroughEveryEntryPoint")])
    # ... and where B is far from the scale of C: fewer epochs than broadly-prior'd linear parameters ("finite for every finite valid
    # input"), against exact rational arithmetic
    gd.offlattice_few_epochs(ctx, "C01", 48 if quick else 600)
    # ... and the opposite corner, many precise epochs on a long baseline under wide trend priors (condition number of B beyond 1e8):
    # an OPEN FINDING, reported as such (KNOWN-FINDING line); a deviation on a well-conditioned problem stays a violation
    gd.offlattice_illcond(ctx, "C01", 6 if quick else 60)
    verdicts = ctx.validate("GaussTrace", traces + otr, timeout=3000)
    ctx.judge(traces + otr, verdicts, families=FAMILIES + ("H.",))
    if selftest or not quick:
        import copy
        muts = []
        for t in traces:
            k = [e for e in t["events"] if e["ev"] == "Kernel"]
            if k and k[0]["B"] and k[0]["B"][0][0][1] > 0 and len(muts) < 4:
                a = copy.deepcopy(t); a["id"] = "st-%d" % len(muts)
                ka = [e for e in a["events"] if e["ev"] == "Kernel"][0]
                ka["B"][0][0] = [ka["B"][0][0][0] + ka["B"][0][0][1], ka["B"][0][0][1]]
                muts.append(a)
        v = ctx.validate("GaussTrace", muts)
        ctx.traces_validated -= len(muts)
        if not muts or any(v[m["id"]]["ok"] for m in muts):
            raise core.MachineryError("selftest: corrupted kernel state not rejected")
        ctx.notes["selftest_corruptions_rejected"] = len(muts)


def replay(ctx, path):
    import json
    from .. import jk
    jk.load()
    rec = json.load(open(path))
    t = rec["case"]
    if "events" not in t:
        print(t)
        return 1
    c = {"id": t["id"], "g": t["events"][0]["g"], "ua": t["events"][0]["ua"], "fam": {"kernel": "C01", "draw": "C03", "orbit": "C04"}}
    t2 = gd.realize(c)
    v = ctx.validate("GaussTrace", [t2])
    print("re-executed and re-validated:", v[t2["id"]]["fails"] or "accepted")
    return 0 if v[t2["id"]]["ok"] else 1
