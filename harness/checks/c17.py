"""C17 - sample-table operations preserve the physical orbit and its metadata.

spec: SampleTable (lattice: K integer, angles in pi/4, P in 8 d), SampleTableMC (theorems: wrap_K keeps the curve, is
idempotent, touches only negative-K rows; get_time_with_phase hits exactly the requested phase), SampleTableTrace (monitor).
binding: every table of <=2 rows TLC enumerates from the small lattice is built as a real JokerSamples (rotating units
deg/rad, m/s / km/s, d / yr; rotating t_ref / poly_trend / n_offsets) and put through a battery: wrap_K,
get_time_with_phase / get_t0, pack->unpack, integer / slice / mask / array indexing, copy, mean, std, median_period;
results are projected to the lattice (1e-7) and validated; seeded random tables go to 300 rows."""
import random

import numpy as np

from .. import core

LEVEL = "model_checking"
T0 = 55000
UV = [("km/s", "rad", "d"), ("m/s", "deg", "d"), ("km/s", "deg", "yr"), ("m/s", "rad", "d")]


def build(case):
    import astropy.units as u
    from astropy.time import Time
    from thejoker import JokerSamples
    rows = case["rows"]
    ku, au, pu = [u.Unit(x) for x in case["uv"]]
    meta = case["meta"]
    tref = None if meta["tref"] < 0 else Time(T0 + meta["tref"], format="mjd", scale="tcb")
    s = JokerSamples(t_ref=tref, poly_trend=meta["poly"], n_offsets=meta["noff"])
    cols = {}
    cols["P"] = (np.array([8.0 * r["p"] for r in rows]) * u.day).to(pu)
    cols["e"] = np.array([r["id"] / 1000.0 for r in rows])
    cols["omega"] = (np.array([r["w"] * np.pi / 4 for r in rows]) * u.rad).to(au)
    cols["M0"] = (np.array([r["m"] * np.pi / 4 for r in rows]) * u.rad).to(au)
    cols["s"] = np.zeros(len(rows)) * ku
    cols["K"] = (np.array([float(r["K"]) for r in rows]) * u.km / u.s).to(ku)
    cols["v0"] = np.zeros(len(rows)) * ku
    if meta["poly"] >= 2:
        cols["v1"] = np.zeros(len(rows)) * ku / u.day
    if meta["noff"] >= 1:
        cols["dv0_1"] = np.zeros(len(rows)) * ku
    order = list(cols)
    if case.get("colorder"):      # columns filled in a non-canonical order
        random.Random(case["colorder"]).shuffle(order)
    for k in order:
        s[k] = cols[k]
    if case.get("lnp"):
        s["ln_prior"] = -np.arange(len(rows), dtype=float)
    return s


def _proj(s):
    import astropy.units as u
    n = len(s)
    out, exact = [], True

    def r(x):
        nonlocal exact
        y = round(float(x))
        if abs(float(x) - y) > 1e-7:
            exact = False
        return int(y)
    P = np.atleast_1d(s["P"].to_value(u.day)); e = np.atleast_1d(np.asarray(s["e"].value if hasattr(s["e"], "value") else s["e"]))
    om = np.atleast_1d(s["omega"].to_value(u.rad)); M0 = np.atleast_1d(s["M0"].to_value(u.rad)); K = np.atleast_1d(s["K"].to_value(u.km / u.s))
    for k in range(n):
        out.append({"id": r(e[k] * 1000), "K": r(K[k]), "w": r(om[k] / (np.pi / 4)), "m": r(M0[k] / (np.pi / 4)), "p": r(P[k] / 8)})
    return out, exact


def _units(s):
    import astropy.units as u
    out = []
    for n in s.par_names:
        un = getattr(s.tbl[n], "unit", None)
        out.append("" if un is None or un == u.one else u.Unit(un).to_string())
    return out


def _meta(s):
    tr = s.t_ref
    if tr is None:
        t = -1
    else:
        v = float(tr.tcb.mjd) - T0
        t = int(round(v)) if abs(v - round(v)) < 1e-7 else 99999
    return {"tref": t, "poly": int(s.poly_trend), "noff": int(s.n_offsets)}


def _hashes(s, names):
    from .. import tokens
    cols = [np.atleast_1d(np.asarray(getattr(s.tbl[n], "value", s.tbl[n]), dtype=float)) for n in names]
    return [tokens.bits_hash(np.array([c[k] for c in cols])) for k in range(len(s))]


def execute(case):
    import astropy.units as u
    from astropy.time import Time
    from thejoker import JokerSamples
    rnd = random.Random(case["seed"])
    s = build(case)
    rows0, _ = _proj(s)
    ev = [{"ev": "Table", "rows": rows0, "names": list(s.par_names), "units": _units(s), "meta": _meta(s)}]
    n = len(s)
    # wrap_K (on a fresh copy of the same table: it works in place)
    w = build(case).wrap_K()
    o, ex = _proj(w)
    ev.append({"ev": "Wrap", "out": o, "exact": ex, "units": _units(w), "meta": _meta(w)})
    # wrap_K on a table that has ALREADY been looked at (orbit / curve read first, then wrapped in place, then read again): the
    # object must not answer from anything it remembered about the rows as they were
    e = {"ev": "WrapUsed", "out": [], "exact": True, "units": [], "meta": {"tref": 0, "poly": 0, "noff": 0}, "same": True, "rescaled": True, "skipped": False, "raised": False}
    try:
        s3 = build(case)
        tt = Time(T0 + np.array([0.0, 1.3, 2.9, 7.7, 11.1]), format="mjd", scale="tcb")

        def curves(tab):
            return np.array([tab.get_orbit(k).radial_velocity(tt).to_value(u.km / u.s) for k in range(len(tab))])
        try:
            c0 = curves(s3)
        except Exception:
            c0 = None              # a table get_orbit does not serve (no reference epoch): nothing was remembered, nothing to compare
            e["skipped"] = True
        if c0 is not None:
            s3.wrap_K()
            c1 = curves(s3)
            e["same"] = bool(np.allclose(c0, c1, rtol=0, atol=1e-9))
            e["out"], e["exact"] = _proj(s3)
            e["units"], e["meta"] = _units(s3), _meta(s3)
            s3["K"] = 3 * s3["K"]                      # a column replaced after the orbit was read: the next orbit is the new rows'
            s3["v0"] = s3["v0"] + 1 * u.km / u.s
            c2 = curves(s3)
            e["rescaled"] = bool(np.allclose(3 * c1 + 1, c2, rtol=0, atol=1e-8))
    except Exception as ex_:
        e["raised"] = True
        e["exc"] = repr(ex_)[:160]
    ev.append(e)
    # time with phase
    for q in case["phases"]:
        e = {"ev": "Phase", "q": q, "ts": [], "exact": True, "raised": False}
        try:
            au = u.Unit(case["uv"][1])
            kw = {}
            tref = case["meta"]["tref"]
            if tref < 0:
                tref = 3
                kw["t_ref"] = Time(T0 + 3, format="mjd", scale="tcb")
            ph = (q * np.pi / 4 * u.rad).to(au)
            t = s.get_time_with_phase(ph, **kw) if q != 0 or rnd.random() < 0.5 else s.get_t0(**kw)
            vals = np.atleast_1d(t.tcb.mjd) - T0 - tref
            for v in vals:
                y = round(float(v))
                if abs(float(v) - y) > 1e-6:
                    e["exact"] = False
                e["ts"].append(int(y))
        except Exception as ex_:
            e["raised"] = True
            e["exc"] = repr(ex_)[:160]
        ev.append(e)
    # pack -> unpack: whatever order names / units are given in, every NAMED column must come back with its unit and values
    def by_name(t):
        names = sorted(t.par_names)
        uu = _units(t)
        return names, [uu[list(t.par_names).index(nm)] for nm in names], [_hashes(t, [nm]) for nm in names]
    for variant in ("own_units", "internal", "custom_order"):
        e = {"ev": "Pack", "variant": variant, "raised": False, "names": [], "units": [], "hashes": [], "names2": [], "units2": [], "hashes2": []}
        try:
            if variant == "internal":
                c2 = dict(case); c2["uv"] = ("km/s", "rad", "d")
                src = build(c2)
                packed, units = src.pack(nonlinear_only=False)
            else:
                src = s
                names = list(s.par_names)
                own = {nm: (getattr(s.tbl[nm], "unit", None) or u.one) for nm in names}
                if variant == "custom_order":
                    rnd.shuffle(names)
                    keys = list(own)
                    rnd.shuffle(keys)
                    own = {k_: own[k_] for k_ in keys}
                    packed, units = src.pack(units=own, names=names)
                else:
                    packed, units = src.pack(units=own, nonlinear_only=False)
            s2 = JokerSamples.unpack(packed, units, t_ref=src.t_ref, poly_trend=src.poly_trend, n_offsets=src.n_offsets)
            e["names"], e["units"], e["hashes"] = by_name(src)
            e["names2"], e["units2"], e["hashes2"] = by_name(s2)
        except Exception as ex_:
            e["raised"] = True
            e["exc"] = repr(ex_)[:160]
        ev.append(e)
    # indexing
    keys = [("int", rnd.randrange(n)), ("int", -1), ("int", -rnd.randint(1, n)), ("slice", (rnd.randrange(n), None, 1)), ("mask", [rnd.random() < 0.6 for _ in range(n)]),
            ("array", [rnd.randrange(n) for _ in range(rnd.randint(1, 4))]), ("slice", (None, None, 2))]
    for kind, arg in keys:
        if kind == "int":
            key, sel = (int(arg) if rnd.random() < 0.7 else np.int64(arg)), [(arg % n) + 1]
        elif kind == "slice":
            key = slice(*arg); sel = [i + 1 for i in range(n)[key]]
        elif kind == "mask":
            if not any(arg):
                arg[0] = True
            key = np.array(arg); sel = [i + 1 for i in range(n) if arg[i]]
        else:
            key = np.array(arg); sel = [i + 1 for i in arg]
        e = {"ev": "Index", "kind": kind, "sel": sel, "out": [], "exact": True, "units": [], "meta": {"tref": 0, "poly": 0, "noff": 0}, "raised": False}
        try:
            t = s[key]
            e["out"], e["exact"] = _proj(t)
            e["units"], e["meta"] = _units(t), _meta(t)
        except Exception as ex_:
            e["raised"] = True
            e["exc"] = repr(ex_)[:160]
        ev.append(e)
    # copy
    e = {"ev": "Copy", "out": [], "exact": True, "units": [], "meta": {"tref": 0, "poly": 0, "noff": 0}, "raised": False}
    try:
        c = s.copy()
        e["out"], e["exact"] = _proj(c)
        e["units"], e["meta"] = _units(c), _meta(c)
    except Exception as ex_:
        e["raised"] = True
        e["exc"] = repr(ex_)[:160]
    ev.append(e)
    for kind in ("mean", "std"):
        e = {"ev": "Reduce", "kind": kind, "n": 0, "units": [], "meta": {"tref": 0, "poly": 0, "noff": 0}, "raised": False}
        try:
            m = getattr(s, kind)()
            e["n"], e["units"], e["meta"] = len(m), _units(m), _meta(m)
        except Exception as ex_:
            e["raised"] = True
            e["exc"] = repr(ex_)[:160]
        ev.append(e)
    e = {"ev": "Median", "rid": 0, "exact": True, "units": [], "meta": {"tref": 0, "poly": 0, "noff": 0}, "raised": False}
    try:
        m = s.median_period()
        o, e["exact"] = _proj(m)
        e["rid"] = o[0]["id"] if len(o) == 1 else 0
        if len(o) == 1 and o[0] not in rows0:
            e["exact"] = False
        e["units"], e["meta"] = _units(m), _meta(m)
    except Exception as ex_:
        e["raised"] = True
        e["exc"] = repr(ex_)[:160]
    ev.append(e)
    return {"id": case["id"], "events": ev}


def run(ctx, selftest=False):
    from .. import jk
    jk.load()
    quick = ctx.tier == "quick"
    ctx.rule = ("cases = every table of <=2 rows over the small lattice (K in {-2,0,1}, omega in {-3,0,5,9} pi/4, M0 in {0,3} pi/4, P in {8,16} d) "
                "TLC enumerates (quick: seeded subset), with rotating units and metadata, each through the operation battery + seeded "
                "random tables to 300 rows; distinct = distinct (rows, units, meta); trivial = single row with K >= 0")
    ctx.assumptions = ["TLC/SANY", "astropy units/Time", "projection to the lattice within 1e-7", "row identity encoded in e = id/1000"]
    ctx.model_check("SampleTableMC", "MC_SampleTable_quick.cfg" if quick else "MC_SampleTable.cfg", coverage=True)
    r = ctx.model_check("SampleTableMC", "MC_SampleTable_export.cfg", workers=1)
    rnd = random.Random(ctx.seed * 15013 + 17)
    allt = r.tagged("CASE")
    idx = list(range(len(allt)))
    rnd.shuffle(idx)
    metas = [{"tref": 0, "poly": 1, "noff": 0}, {"tref": 4, "poly": 2, "noff": 0}, {"tref": -1, "poly": 1, "noff": 1}, {"tref": 2, "poly": 1, "noff": 0}]
    cases = []
    for k in idx[: (500 if quick else len(idx))]:
        rows = [dict(x) for x in allt[k][1]]
        cases.append({"id": "mc-%d" % k, "rows": rows, "uv": UV[k % 4], "meta": metas[(k // 4) % 4], "phases": [0, 3, 6], "seed": k, "lnp": k % 3 == 0,
                      "colorder": (k if k % 2 else 0)})
    ctx.notes["tables_enumerated_by_tlc"] = len(allt)
    ctx.exhaustive = not quick
    for j in range(150 if quick else 2000):
        n = rnd.choice([1, 2, 3, 5, 10, rnd.randint(2, 300)])
        rows = [{"id": i + 1, "K": rnd.randint(-3, 3), "w": rnd.randint(-9, 17), "m": rnd.randint(-9, 17), "p": rnd.randint(1, 6)} for i in range(n)]
        cases.append({"id": "rnd-%d" % j, "rows": rows, "uv": rnd.choice(UV), "meta": rnd.choice(metas), "phases": [rnd.randint(-8, 15), rnd.randint(0, 7)],
                      "seed": rnd.randint(0, 10**6), "lnp": rnd.random() < 0.3, "colorder": rnd.choice([0, rnd.randint(1, 999)])})
    traces = core.pmap(execute, cases, chunksize=16)
    for c, t in zip(cases, traces):
        ctx.count()
        if len(c["rows"]) > 1 or any(r_["K"] < 0 for r_ in c["rows"]):
            ctx.nontrivial(([sorted(x.items()) for x in c["rows"]], c["uv"], sorted(c["meta"].items())))
    ctx.sample({"id": traces[0]["id"], "events": traces[0]["events"][:5]})
    verdicts = ctx.validate("SampleTableTrace", traces, timeout=3000)
    ctx.judge(traces, verdicts)
    # the same operations under every short HISTORY of calls on one table (spec/History.tla): an answer may depend on the content only
    from .. import history
    history.check(ctx, "samples", {"C17"}, ("C17.",), selftest=selftest)
    if selftest or not quick:
        import copy
        muts = []
        for t in traces:
            tb = t["events"][0]
            if any(r_["K"] < 0 for r_ in tb["rows"]) and len(muts) < 4:
                a = copy.deepcopy(t); a["id"] = "st-%d" % len(muts)
                w = [e for e in a["events"] if e["ev"] == "Wrap"][0]
                w["out"] = copy.deepcopy(tb["rows"])
                for r_ in w["out"]:
                    r_["K"] = abs(r_["K"])
                muts.append(a)
        v = ctx.validate("SampleTableTrace", muts)
        ctx.traces_validated -= len(muts)
        if not muts or any(v[m["id"]]["clause"] != "C17.WrapKMovesOmegaByPiModTwoPi" for m in muts):
            raise core.MachineryError("selftest: corrupted wrap not rejected as expected")
        ctx.notes["selftest_corruptions_rejected"] = len(muts)


def replay(ctx, path):
    import json
    from .. import jk
    jk.load()
    rec = json.load(open(path))
    t = rec["case"]
    v = ctx.validate("SampleTableTrace", [t])
    print("recorded trace re-validated:", v[t["id"]])
    return 0 if v[t["id"]]["ok"] else 1
