"""C13 - failures propagate and never leak cache files or damage user files.

spec: SamplerFaults (the pipeline with a failing twin for every action; TLC enumerates the crash-point set and checks
NoLeak / UserFileIntact / InjectedAlwaysRaises), FaultsTrace (monitor).
binding: for each configuration (api x path x batching) a dry run under boundary interposition yields the dynamic
sequence of calls the API call makes (NamedTemporaryFile, write, open_file, h5py.File, batch_tasks, pool.map, each
task, read_batch, kernel calls, generator draws, concatenate, unpack ...); every element is a crash point: the call is
re-run from the same generator state with an exception injected exactly there.  Recorded per run: the exception seen by
the caller, new entries in TMPDIR / tempfile_path, SHA-256 of the user's file, and a follow-up call on the same
TheJoker compared with the reference.  Every dynamic call kind must map to a model action (else exit 2: spec gap)."""
import os
import random
import shutil
import tempfile

import numpy as np

from .. import core
from . import c02

LEVEL = "fault_enumeration"
FAMILIES = ("C13.",)


def _listing(dirs):
    out = set()
    for d in dirs:
        if os.path.isdir(d):
            for root, _, files in os.walk(d):
                for f in files:
                    out.add(os.path.join(root, f))
    return out


def run_config(cfg):
    """dry run + one run per crash point for one configuration; returns list of traces"""
    from .. import collab, faults, sampler_driver as sd, tokens
    g = c02._setup()
    lib = c02._lib(cfg["n"])
    base = os.path.join(cfg["workdir"], cfg["id"])
    tmpd = os.path.join(base, "tmp")
    os.makedirs(tmpd, exist_ok=True)
    old_tmp = tempfile.tempdir
    tempfile.tempdir = tmpd
    os.environ["TMPDIR"] = tmpd
    traces = []
    model_points = set(tuple(x) for x in cfg["model_points"])
    try:
        def one(fault):
            wd = os.path.join(base, "w")
            shutil.rmtree(wd, ignore_errors=True)
            os.makedirs(wd)
            s = sd.Session(lib, g["data"], g["prior"], seed=cfg["seed"], pool="rec", pool_size=2, order_seed=cfg["seed"], workdir=wd)
            userfile = s.libfile() if cfg["call"]["path"] in ("file", "inmem_file") else None
            sha0 = tokens.file_sha(userfile) if userfile else ""
            watch = [tmpd, os.path.join(wd, "tj")]
            before = _listing(watch)
            s.rec.counts = {}
            s.rec.fault = fault
            s.rec.seq = []
            orig_tick = s.rec.tick

            def tick(kind):
                s.rec.seq.append(kind)
                return orig_tick(kind)
            s.rec.tick = tick
            raised, same, res, exc_t = False, False, None, ""
            with faults.interpose(s.rec):
                try:
                    res = s.call(**cfg["call"])
                    ret = s.events[-1]
                    raised = ret["raised"]
                    exc_t = ret["exc"]
                except (collab.InjectedFault, collab.InjectedInterrupt) as ex:
                    raised, same, exc_t = True, True, type(ex).__name__
                except BaseException as ex:   # a different exception object reached the caller
                    raised, same, exc_t = True, False, type(ex).__name__
            s.rec.fault = None
            s.rec.tick = orig_tick
            counts_now, seq_now = dict(s.rec.counts), list(s.rec.seq)
            after = _listing(watch)
            left = sorted(os.path.relpath(p, base) for p in (after - before) if p != userfile)
            usersame = (tokens.file_sha(userfile) == sha0) if userfile else True
            # follow-up on the SAME TheJoker object: must behave like a call on a fresh object
            follow = True
            try:
                ll = s.joker.marginal_ln_likelihood(g["data"], lib.samples, n_batches=2)
                follow = bool(np.array_equal(np.asarray(ll), cfg["_ref"]))
            except Exception:
                follow = False
            after2 = _listing(watch)
            if (after2 - before) - {userfile}:
                left = sorted(set(left) | {os.path.relpath(p, base) for p in (after2 - before) if p != userfile})
            return dict(raised=raised, same=same, left=left, usersame=usersame, follow=follow, exc=exc_t,
                        counts=counts_now, seq=seq_now)
        # reference for follow-ups
        s0 = sd.Session(lib, g["data"], g["prior"], seed=cfg["seed"], pool="serial", workdir=os.path.join(base, "ref"))
        cfg["_ref"] = s0.reference_ll()
        dry = one(None)
        traces.append({"id": cfg["id"] + "-dry", "api": cfg["call"]["api"], "path": cfg["call"]["path"], "action": "", "occurrence": 0,
                       "injected": False, "raised": dry["raised"], "sameexc": True, "tmpleft": dry["left"], "usersame": dry["usersame"],
                       "followok": dry["follow"], "modelpoint": True, "seq": dry["seq"], "kind": "", "exc": dry["exc"]})
        inmem = cfg["call"]["path"] in ("inmem", "inmem_file")
        points = [(k, j) for k, n in sorted(dry["counts"].items()) for j in range(1, n + 1)]
        if cfg.get("max_points") and len(points) > cfg["max_points"]:
            random.Random(cfg["seed"]).shuffle(points)
            points = sorted(points[: cfg["max_points"]])
        for (kind, j) in points:
            if kind not in faults.KIND_TO_ACTION:
                traces.append({"id": "%s-%s-%d" % (cfg["id"], kind, j), "gap": kind})
                continue
            action = (faults.INMEM_ACTION.get(kind) if inmem else None) or faults.KIND_TO_ACTION[kind]
            if action == "RunTask" and cfg["call"]["api"] != "marginal" and kind in ("task",):
                pass
            # alternate ordinary exceptions and BaseException-only failures (Ctrl-C / SystemExit); thorough: both
            flavours = ["exception", "interrupt"] if not cfg.get("max_points") else [["exception", "interrupt"][(j + len(kind)) % 2]]
            for flavour in flavours:
                _inject_one(one, traces, cfg, kind, j, flavour, action, inmem, model_points)
            continue
            r = one((kind, j))
            mp = (cfg["call"]["api"], "inmem" if inmem else cfg["call"]["path"], action) in model_points or \
                 (action in ("RunTask", "RunLinearTask") and (cfg["call"]["api"], cfg["call"]["path"], "RunTask") in model_points)
            traces.append({"id": "%s-%s-%d" % (cfg["id"], kind, j), "api": cfg["call"]["api"], "path": cfg["call"]["path"],
                           "action": action, "occurrence": j, "injected": True, "raised": r["raised"], "sameexc": r["same"],
                           "tmpleft": r["left"], "usersame": r["usersame"], "followok": r["follow"], "modelpoint": bool(mp),
                           "kind": kind, "exc": r["exc"], "seq": []})
    finally:
        tempfile.tempdir = old_tmp
        shutil.rmtree(base, ignore_errors=True)
    return traces


def _cache_like(path):
    import h5py
    try:
        if path.lower().endswith((".hdf5", ".h5", ".hdf", ".he5", ".fits")) or os.path.getsize(path) == 0:
            return True
        return bool(h5py.is_hdf5(path))
    except OSError:
        return False


def run_config_mp(cfg):
    """thorough: failures INSIDE real worker processes (schwimmbad.MultiPool).  Workers are forked while the interposition is
    active and inherit the armed recorder; each worker counts its own calls, so (kind, j) fails the j-th call of that kind in
    whichever worker gets there.  A marker file tells the parent whether the fault fired at all (else the run is not a case)."""
    import glob
    import schwimmbad
    from .. import collab, faults, sampler_driver as sd, tokens
    g = c02._setup()
    lib = c02._lib(cfg["n"])
    base = os.path.join(cfg["workdir"], cfg["id"])
    tmpd = os.path.join(base, "tmp")
    os.makedirs(tmpd, exist_ok=True)
    old_tmp = tempfile.tempdir
    tempfile.tempdir = tmpd
    os.environ["TMPDIR"] = tmpd
    traces = []
    try:
        s0 = sd.Session(lib, g["data"], g["prior"], seed=cfg["seed"], pool="serial", workdir=os.path.join(base, "ref"))
        ref = s0.reference_ll()
        for kind in ("read_batch", "utils_open_file", "utils_h5py"):
            for j in (1, 2):
                wd = os.path.join(base, "w")
                shutil.rmtree(wd, ignore_errors=True)
                os.makedirs(wd)
                rec = collab.Recorder()
                rec.fault = (kind, j)
                rec.fault_marker = os.path.join(base, "fired-%s-%d" % (kind, j))
                rec.counts = {}
                pool = None
                raised, same, exc_t, follow, left, usersame = False, False, "", True, [], True
                with faults.interpose(rec):
                    pool = schwimmbad.MultiPool(processes=2)       # forked here: workers carry the patched modules and the armed recorder
                    try:
                        rec.fault = None                           # the parent itself never fails: only the workers do
                        s = sd.Session(lib, g["data"], g["prior"], seed=cfg["seed"], workdir=wd, real_pool=pool)
                        userfile = s.libfile() if cfg["call"]["path"] == "file" else None
                        sha0 = tokens.file_sha(userfile) if userfile else ""
                        watch = [tmpd, os.path.join(wd, "tj")]
                        before = _listing(watch)
                        try:
                            s.call(**cfg["call"])
                            ret = s.events[-1]
                            raised, exc_t = ret["raised"], ret["exc"]
                            same = raised and exc_t.startswith("InjectedFault")
                        except BaseException as ex:
                            raised, same, exc_t = True, isinstance(ex, collab.InjectedFault), type(ex).__name__
                        after = _listing(watch)
                        # worker processes unpickle the prior, and pytensor's start-up probes leave small text files in TMPDIR:
                        # here only sample-cache candidates count (HDF5 by content or name, or still empty)
                        left = sorted(os.path.relpath(p, base) for p in (after - before) if p != userfile and _cache_like(p))
                        usersame = (tokens.file_sha(userfile) == sha0) if userfile else True
                    finally:
                        pool.close()
                # follow-up on the SAME TheJoker object, with a fresh pool (the failed one is closed above; pool reuse after a worker
                # exception is the pool implementation's business, not thejoker's)
                try:
                    s.joker.pool = schwimmbad.SerialPool()
                    ll = s.joker.marginal_ln_likelihood(g["data"], lib.samples, n_batches=2)
                    follow = bool(np.array_equal(np.asarray(ll), ref))
                except Exception:
                    follow = False
                fired = bool(glob.glob(rec.fault_marker + ".*"))
                if not fired:
                    continue
                traces.append({"id": "%s-mp-%s-%d" % (cfg["id"], kind, j), "api": cfg["call"]["api"], "path": cfg["call"]["path"],
                               "action": "RunTask", "occurrence": j, "injected": True, "raised": raised, "sameexc": same,
                               "tmpleft": left, "usersame": usersame, "followok": follow, "modelpoint": True,
                               "kind": kind, "exc": exc_t, "seq": [], "flavour": "worker-process"})
    finally:
        tempfile.tempdir = old_tmp
        shutil.rmtree(base, ignore_errors=True)
    return traces


def _inject_one(one, traces, cfg, kind, j, flavour, action, inmem, model_points):
    r = one((kind, j, flavour))
    mp = (cfg["call"]["api"], "inmem" if inmem else cfg["call"]["path"], action) in model_points or \
         (action in ("RunTask", "RunLinearTask") and (cfg["call"]["api"], cfg["call"]["path"], "RunTask") in model_points)
    traces.append({"id": "%s-%s-%d-%s" % (cfg["id"], kind, j, flavour), "api": cfg["call"]["api"], "path": cfg["call"]["path"],
                   "action": action, "occurrence": j, "injected": True, "raised": r["raised"], "sameexc": r["same"],
                   "tmpleft": r["left"], "usersame": r["usersame"], "followok": r["follow"], "modelpoint": bool(mp),
                   "kind": kind, "exc": r["exc"], "seq": [], "flavour": flavour})


def run(ctx, selftest=False):
    c02._setup()
    quick = ctx.tier == "quick"
    ctx.rule = ("cases = for each configuration (api in marginal / rejection / iterative x path in object / file / inmem x batching), "
                "every call of the dynamic call sequence observed in a dry run (quick: at most 40 per configuration, seeded) is a "
                "crash point, injected in a re-run from the same generator state; distinct = distinct (api, path, call kind, "
                "occurrence); trivial = the dry runs")
    ctx.assumptions = ["TLC/SANY", "the interposed boundary (NamedTemporaryFile, write, open_file, h5py.File, batch_tasks, pool.map, tasks, "
                       "read_batch, kernel, generator, concatenate, pack/unpack) covers the calls made inside the sampling functions",
                       "os.unlink inside the finally clause is not a crash point (a failing removal cannot leave the directory clean)"]
    ctx.model_check("SamplerFaults", "MC_SamplerFaults.cfg", coverage=True)
    r = ctx.model_check("SamplerFaults", "MC_SamplerFaults_export.cfg", workers=1)
    pts = set()
    for v in r.tagged("CRASHPOINT"):
        c = v[1]
        pts.add((c["api"], c["path"], c["action"]))
    ctx.notes["model_crash_points"] = len(r.tagged("CRASHPOINT"))
    ctx.notes["model_crash_point_classes"] = len(pts)
    rnd = random.Random(ctx.seed * 1299709 + 13)
    cfgs = []
    k = 0
    for api in ("marginal", "rejection", "iterative"):
        for path in ("object", "file", "inmem"):
            variants = [dict(nbatches=2)] if quick else [dict(nbatches=0), dict(nbatches=2), dict(nbatches=3)]
            for var in variants:
                call = dict(api=api, path=path, **var)
                if api == "rejection":
                    call.update(logprobs=True, all=(k % 2 == 0), randomize=(path != "inmem"), nlinear=1 + k % 2)
                if api == "iterative":
                    call.update(nreq=2, initb=3, logprobs=True, randomize=(k % 2 == 0))
                cfgs.append({"id": "cfg%d" % k, "n": 9, "seed": 100 + k, "call": call, "workdir": ctx.workdir,
                             "model_points": sorted(pts), "max_points": 40 if quick else 0})
                k += 1
    results = core.pmap(run_config, cfgs, chunksize=1)
    traces = []
    for ts in results:
        for t in ts:
            if "gap" in t:
                raise core.MachineryError("call kind %r observed in the code has no counterpart action in SamplerFaults (spec gap)" % t["gap"])
            ctx.count()
            if t["injected"]:
                ctx.nontrivial((t["api"], t["path"], t["kind"], t["occurrence"]))
            traces.append(t)
    if not quick:
        mp = []
        k2 = 0
        for api in ("marginal", "rejection", "iterative"):
            for path in ("object", "file"):
                call = dict(api=api, path=path, nbatches=3)
                if api == "rejection":
                    call.update(logprobs=True, randomize=(k2 % 2 == 0), nlinear=2)
                if api == "iterative":
                    call.update(nreq=2, initb=4, logprobs=True)
                mp.append({"id": "mpcfg%d" % k2, "n": 9, "seed": 300 + k2, "call": call, "workdir": ctx.workdir})
                k2 += 1
        nmp = 0
        for c in mp:                      # worker processes: one configuration at a time
            for t in run_config_mp(c):
                ctx.count()
                ctx.nontrivial((t["api"], t["path"], t["kind"], t["occurrence"], "worker-process"))
                traces.append(t)
                nmp += 1
        ctx.notes["crash_points_injected_inside_worker_processes"] = nmp
        if nmp < 6:
            raise core.MachineryError("worker-process faults: only %d fired" % nmp)
    ctx.notes["crash_points_injected"] = sum(1 for t in traces if t["injected"])
    ctx.notes["crash_points_outside_the_models_action_list"] = sum(1 for t in traces if t["injected"] and not t["modelpoint"])
    ctx.notes["dynamic_call_sequence_sample"] = [t["seq"] for t in traces if not t["injected"]][:2]
    ctx.sample({k: v for k, v in traces[1].items()})
    ctx.sample({k: v for k, v in traces[-1].items()})
    verdicts = ctx.validate("FaultsTrace", traces)
    ctx.judge(traces, verdicts, families=FAMILIES)
    if selftest or not quick:
        import copy
        a = copy.deepcopy(traces[1]); a["id"] = "st-leak"; a["tmpleft"] = ["tmp/x.hdf5"]
        b = copy.deepcopy(traces[1]); b["id"] = "st-swallow"; b["raised"] = False
        v = ctx.validate("FaultsTrace", [a, b])
        ctx.traces_validated -= 2
        if v["st-leak"]["clause"] != "C13.NoTemporaryFileLeftBehind" or v["st-swallow"]["clause"] != "C13.FailurePropagatesToCaller":
            raise core.MachineryError("selftest: corrupted fault traces not rejected as expected: %r" % v)
        ctx.notes["selftest_corruptions_rejected"] = 2


def replay(ctx, path):
    import json
    rec = json.load(open(path))
    t = rec["case"]
    v = ctx.validate("FaultsTrace", [t])
    print("recorded trace re-validated:", v[t["id"]])
    return 0 if v[t["id"]]["ok"] else 1
