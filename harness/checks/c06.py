"""C06 - reported ln_prior / ln_likelihood stay attached to their own sample.

Same specification and monitor as C02 (Sampler / SamplerTrace); the index spaces order / good / full are explicit there.
Cases: TLC-exported behaviours replayed with return_logprobs=True and return_all_logprobs=True on the three paths, plus
seeded random histories of rejection_sample and iterative_rejection_sample calls with randomize_prior_order, truncation,
n_linear_samples in 1..3; library ln_prior values are distinct tags (-1000 - row id), so a value attached to the wrong
row is visible.  Only the C06.* clauses of the monitor are judged here."""
import random

from .. import core
from . import c02

LEVEL = "model_checking"
FAMILIES = ("C06.",)


def random_cases(ctx, rnd, count, maxn):
    cases = []
    for j in range(count):
        n = rnd.choice([2, 3, 5, 8, 13, 30, rnd.randint(2, maxn)])
        calls = []
        for _ in range(rnd.choice([1, 2])):
            if rnd.random() < 0.6:
                calls.append(dict(api="rejection", path=rnd.choice(["inmem", "object", "file"]),
                                  nprior=rnd.choice([0, 0, rnd.randint(1, n)]), maxpost=rnd.choice([0, 0, 1, 2, rnd.randint(1, n)]),
                                  nlinear=rnd.choice([1, 2, 3]), randomize=rnd.random() < 0.5, logprobs=True,
                                  all=rnd.random() < 0.6, nbatches=rnd.choice([0, 1, 2, 3, n + 1])))
            else:
                nreq = rnd.randint(1, max(1, min(4, n // 2)))
                calls.append(dict(api="iterative", path=rnd.choice(["inmem", "object", "file"]), nreq=nreq,
                                  initb=rnd.randint(1, n), budget=rnd.choice([0, 0, rnd.randint(1, n)]),
                                  nlinear=rnd.choice([1, 2]), randomize=rnd.random() < 0.5, logprobs=True,
                                  nbatches=rnd.choice([0, 2])))
        case = {"id": "c06-%d" % j, "n": n, "seed": rnd.randint(0, 10**6), "pool": rnd.choice(["rec", "rec", "serial"]),
                "pool_size": rnd.choice([1, 2, 3]), "calls": calls, "workdir": ctx.workdir}
        if rnd.random() < 0.4:
            case["ucls"] = {i: rnd.choice(["zero", "below", "below", "above"]) for i in rnd.sample(range(1, n + 1), min(n, 5))}
        cases.append(case)
    return cases


def run(ctx, selftest=False):
    c02._setup()
    quick = ctx.tier == "quick"
    ctx.rule = ("cases = TLC-exported SamplerMC behaviours replayed with return_logprobs / return_all_logprobs on (quick: seeded subset) + "
                "seeded random histories of rejection / iterative calls with shuffling, truncation and n_linear_samples in 1..3 on the "
                "three paths; ln_prior tags are distinct per library row; distinct = distinct (option vector, returned row ids); "
                "trivial = one-row library")
    ctx.assumptions = ["TLC/SANY", "rows identified by their distinct periods", "ln_prior tags are integers -1000 - row id"]
    ctx.model_check("SamplerMC", "MC_Sampler.cfg", coverage=True)
    r = ctx.model_check("SamplerMC", "MC_Sampler_export.cfg", workers=1)
    rnd = random.Random(ctx.seed * 40503 + 6)
    cases, total = c02.replay_cases(ctx, r, rnd, 400 if quick else 8000)
    ctx.notes["behaviours_exported_by_tlc"] = total
    ctx.notes["behaviours_replayed"] = len(cases)
    traces = core.pmap(c02.run_replay_case, cases, chunksize=8)
    for t in traces:
        t.pop("expected_rows", None)
    rc = random_cases(ctx, rnd, 300 if quick else 3000, 120 if quick else 1500)
    traces += core.pmap(c02.run_random_case, rc, chunksize=4)
    for t in traces:
        ctx.count()
        if t["events"][0]["N"] > 1 and any(e["ev"] == "Return" and e["haslp"] and e["rows"] for e in t["events"]):
            ctx.nontrivial(c02._profile_key(t))
    if not quick:
        # thorough: the sampler calls made by the repository's own tests, recorded and validated like every other trace
        from .. import repotests
        rt, rinfo = repotests.collect(ctx.workdir)
        ctx.notes["repository_test_traces"] = rinfo
        traces = traces + rt
    ctx.sample(c02._brief(traces[0])); ctx.sample(c02._brief(traces[-1]))
    verdicts = ctx.validate("SamplerTrace", traces, timeout=3000)
    ctx.judge(traces, verdicts, families=FAMILIES)
    if selftest or not quick:
        _selftest(ctx, traces)


def _selftest(ctx, traces):
    import copy
    muts = []
    for t in traces:
        rets = [e for e in t["events"] if e["ev"] == "Return"]
        if len(rets) == 1 and rets[0]["scalars"] and len(set(rets[0]["lnprior"])) >= 2:
            a = copy.deepcopy(t); a["id"] = "st-lp-%d" % len(muts)
            ra = [e for e in a["events"] if e["ev"] == "Return"][0]
            ra["lnprior"] = ra["lnprior"][::-1]
            if ra["lnprior"] != rets[0]["lnprior"]:
                muts.append((a, "C06.LnPriorOfOwnRow"))
            b = copy.deepcopy(t); b["id"] = "st-ll-%d" % len(muts)
            rb = [e for e in b["events"] if e["ev"] == "Return"][0]
            if len({tuple(x) for x in rb["lnlike"]}) >= 2:
                rb["lnlike"] = rb["lnlike"][::-1]
                muts.append((b, "C06.LnLikelihoodOfOwnRow"))
        if len(muts) >= 6:
            break
    v = ctx.validate("SamplerTrace", [m for m, _ in muts])
    ctx.traces_validated -= len(muts)
    bad = [(m["id"], exp, v[m["id"]]["fails"]) for m, exp in muts if exp not in [f[0] for f in v[m["id"]]["fails"]]]
    if bad or not muts:
        raise core.MachineryError("selftest: corrupted traces not rejected as expected: %r" % bad[:3])
    ctx.notes["selftest_corruptions_rejected"] = len(muts)


replay = c02.replay
