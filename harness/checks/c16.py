"""C16 - work partitioning covers every prior sample exactly once, in order.

spec: Partition (what a valid partition is), PartitionAlg (the current algorithm, refines Partition)
binding: (a) TLC enumerates every (n, b, s, mode) within the export constants; each is replayed into the
real batch_tasks and the returned list is validated by TLC against Partition (not PartitionAlg);
(b) seeded random inputs with n up to 1e7 and the tasks a recording pool receives from the public calls (natural and randomized order) are recorded
and validated by the PartitionTrace monitor."""
import os
import random
import shutil

import numpy as np

from .. import core

LEVEL = "model_checking"


def _norm_tasks_idx(tasks):
    out = []
    for t in tasks:
        (lo, hi), start = t[0], t[1]
        out.append({"lo": int(lo), "hi": int(hi), "start": int(start)})
    return out


def _norm_tasks_arr(tasks):
    return [{"payload": [int(x) for x in t[0]], "start": int(t[1])} for t in tasks]


def call_batch_tasks(case):
    from thejoker.utils import batch_tasks
    n, b, s = case["n"], case["b"], case["s"]
    tr = {"id": case["id"], "n": n, "b": b, "s": s}
    if case["mode"] == "idx":
        tasks = batch_tasks(n, b, start_idx=s, args=("x",))
        tr.update(kind="idx", tasks=_norm_tasks_idx(tasks), arr=[])
        extra_ok = all(len(t) == 3 and t[2] == "x" for t in tasks)
    else:
        arr = np.arange(100, 100 + s + n)
        if case.get("shuffle"):
            arr = np.random.default_rng(case["shuffle"]).permutation(arr)
        tasks = batch_tasks(n, b, arr=arr, start_idx=s, args=("x",))
        tr.update(kind="arr", tasks=_norm_tasks_arr(tasks), arr=[int(x) for x in arr])
        extra_ok = all(len(t) == 3 and t[2] == "x" for t in tasks)
    tr["args_ok"] = bool(extra_ok)
    return tr


def call_via_session(case):
    """what the pool is handed by the PUBLIC calls (marginal_ln_likelihood / rejection_sample on the cache-file paths, natural or
    randomized order), observed with the recording generator and pool of the sampler checks: the partition of the requested rows
    (or of the index array the sampler chose) and whether the values came back in that order"""
    from .. import sampler_driver as sd
    from . import c02
    g = c02._setup()
    lib = c02._lib(case["n_total"])
    wd = os.path.join(case["workdir"], case["id"])
    os.makedirs(wd, exist_ok=True)
    s = sd.Session(lib, g["data"], g["prior"], seed=case["id_seed"], pool="rec", pool_size=max(1, case["pool_size"]),
                   order_seed=case["id_seed"], workdir=wd)
    s.header()
    n_total = case["n_total"]
    nb = case["n_batches"] or 0
    path = ["object", "file"][case["id_seed"] % 2]
    if case["sel"] == "all":
        n = n_total
        s.call("marginal", path=path, nbatches=nb)
    elif case["sel"] == "n_prior":
        n = case["n_prior"]
        s.call("rejection", path=path, nprior=n, nbatches=nb, all=True)
    else:
        n = case.get("n_prior") or n_total
        s.call("rejection", path=path, nprior=(case.get("n_prior") or 0), nbatches=nb, all=True, randomize=True)
    shutil.rmtree(wd, ignore_errors=True)
    ev = s.events
    call = [e for e in ev if e["ev"] == "Call"][-1]
    maps = [e for e in ev if e["ev"] == "Map" and e["worker"] == "marginal_ln_likelihood_worker"]
    ret = [e for e in ev if e["ev"] == "Return"][-1]
    if not call.get("observed", True) or not maps or ret["raised"]:
        return {"id": case["id"], "skip": True, "n": int(n)}
    tasks = maps[0]["tasks"]
    ref = [e for e in ev if e["ev"] == "Header"][-1]["ref"]
    evald = [r for t in tasks for r in t["sel"]]
    inorder = ret["hasall"] and len(ret["allll"]) == len(evald) and all(ret["allll"][k] == ref[evald[k] - 1] for k in range(len(evald)))
    k = len(tasks)
    tr = {"id": case["id"], "kind": "run", "n": int(n), "s": 0, "results": list(range(1, k + 1)) if inorder else list(range(k, 0, -1)) + [0]}
    if case["sel"] == "idx":
        choice = [e for e in ev if e["ev"] == "Draw" and e["method"] == "choice"]
        if not choice:
            return {"id": case["id"], "skip": True, "n": int(n)}
        arr = [int(x) - 1 for x in choice[-1]["result"]]
        # the order the sampler chose is what has to be covered, in that order - also by an implementation that hands out row
        # ranges instead of index arrays when it thinks it can (a range task stands for its rows; its position in the array is
        # then taken to be where the previous task ended)
        tl, pos = [], 0
        for t in tasks:
            tl.append({"payload": [int(x) - 1 for x in t["sel"]], "start": int(t["start"]) if t["kind"] == "idx" else pos})
            pos += len(t["sel"])
        # how many of the drawn rows are used, and from where in the draw, is the sampler's business (rng.choice(N, n) draws exactly
        # what is used, rng.permutation(N)[:n] a prefix of what it draws): the array to be covered is the contiguous stretch of the
        # recorded draw that the tasks, taken together, reproduce - if there is one; otherwise the whole draw (and the clause fails)
        flat = [x for t in tl for x in t["payload"]]
        m = len(flat)
        off = next((k for k in range(0, len(arr) - m + 1) if arr[k:k + m] == flat), None) if 0 < m <= len(arr) else None
        if off is not None:
            arr = arr[off:off + m]
        tr.update(arrkind="arr", arr=arr, n=len(arr), tasks=tl)
    else:
        if any(t["kind"] != "range" for t in tasks):
            return {"id": case["id"], "skip": True, "n": int(n)}
        def lohi(t):
            lo = (t["sel"][0] - 1) if t["sel"] else int(t["start"])
            return {"lo": lo, "hi": lo + len(t["sel"]), "start": int(t["start"])}
        tr.update(arrkind="idx", arr=[], tasks=[lohi(t) for t in tasks])
    return tr


def run(ctx, selftest=False):
    quick = ctx.tier == "quick"
    ctx.rule = ("cases = every (n,b,s,mode) TLC enumerates in MC_PartitionAlg_export + seeded random (n up to 1e7, b up to n+10, "
                "s up to 1e6) + the tasks a recording pool receives from the public calls (natural and randomized order); distinct = distinct (n,b,s,mode,kind); "
                "trivial = n=1 or b=1 (single task forced)")
    ctx.assumptions = ["TLC/SANY/CommunityModules", "numpy arange/slicing", "JSON transport of integers < 2^31"]
    # 1. design level: the algorithm refines the property (exhaustive)
    ctx.model_check("PartitionAlg", "MC_PartitionAlg.cfg" if quick else "MC_PartitionAlg_thorough.cfg", coverage=True)
    # what the monitor checks implies what the property promises, for EVERY n, start index and task list (TLC: small ones only)
    # (tlapm cannot read Partition.tla - it has a RECURSIVE operator - so the proof module repeats the definition: same text or no proof)
    if core.definition_text("Partition", "IsValidPartition") != core.definition_text("PartitionProof", "IsValidPartition") or not core.definition_text("Partition", "IsValidPartition"):
        raise core.MachineryError("PartitionProof.tla proves a different IsValidPartition than the one Partition.tla defines")
    ctx.prove("PartitionProof", "IsValidPartition => every requested row is in exactly one task and nothing else is, for all n")
    # 2. spec -> code: every behaviour TLC enumerates is replayed
    r = ctx.model_check("PartitionAlg", "MC_PartitionAlg_export.cfg", workers=1)
    cases = []
    alg = {}
    for v in r.tagged("CASE"):
        c = v[1]
        cid = "mc-%d-%d-%d-%s" % (c["n"], c["b"], c["s"], "arr" if c["arrmode"] else "idx")
        cases.append({"id": cid, "n": c["n"], "b": c["b"], "s": c["s"], "mode": "arr" if c["arrmode"] else "idx"})
        alg[cid] = c["tasks"]
    if len(cases) < 100:
        raise core.MachineryError("export produced only %d cases" % len(cases))
    ctx.exhaustive = True
    # 3. seeded random, far beyond the exhaustive constants
    rnd = random.Random(ctx.seed * 7919 + 16)
    nrand = 400 if quick else 6000
    for k in range(nrand):
        mode = "idx" if rnd.random() < 0.6 else "arr"
        if mode == "idx":
            n = rnd.choice([rnd.randint(1, 60), rnd.randint(1, 10**4), rnd.randint(1, 10**7)])
            s = rnd.choice([0, 0, rnd.randint(0, 50), rnd.randint(0, 10**6)])
        else:
            n = rnd.randint(1, 120)
            s = rnd.choice([0, 0, rnd.randint(0, 20)])
        if n <= 300:
            b = rnd.choice([1, rnd.randint(1, n), n, n + rnd.randint(1, 10), rnd.randint(1, 64),
                            max(1, n - 1), max(1, n // 2), max(1, n // 2 + 1)])
        else:   # keep the number of tasks (and the trace) small for huge n
            b = rnd.choice([1, 2, 3, rnd.randint(1, 64), rnd.randint(1, 300), 7, 16])
        cases.append({"id": "rnd-%d" % k, "n": n, "b": b, "s": s, "mode": mode, "shuffle": rnd.choice([0, k + 1])})
    traces = []
    same_as_alg = 0
    for c in cases:
        t = call_batch_tasks(c)
        ctx.count()
        if c["n"] > 1 and c["b"] > 1:
            ctx.nontrivial(("bt", c["n"], c["b"], c["s"], c["mode"]))
        if not t.pop("args_ok"):
            ctx.fail("C16.TaskCarriesArgs", t)
        if c["id"] in alg:
            a = alg[c["id"]]
            mine = t["tasks"]
            if c["mode"] == "idx":
                same_as_alg += int(a == mine)
            else:
                same_as_alg += int([{"payload": x["payload"], "start": x["start"]} for x in a] == mine)
        traces.append(t)
    ctx.notes["replayed_equal_to_PartitionAlg"] = same_as_alg
    ctx.notes["replayed_from_tlc"] = len(alg)
    # 4. what the pool receives from the public calls (recording generator and pool of the sampler checks)
    nrun = 150 if quick else 1500
    rcases = []
    for k in range(nrun):
        n_total = rnd.choice([1, 2, 7, 30] if quick else [1, 2, 3, 7, 30, 101])
        sel = rnd.choice(["all", "n_prior", "idx"])
        c = {"id": "run-%d" % k, "n_total": n_total, "sel": sel, "id_seed": rnd.randint(0, 10**6), "workdir": ctx.workdir,
             "pool_size": rnd.choice([1, 2, 3, 5]),
             "n_batches": rnd.choice([None, None, 1, 2, 3, rnd.randint(1, n_total + 3)])}
        if sel == "n_prior" or (sel == "idx" and rnd.random() < 0.5):
            c["n_prior"] = rnd.randint(1, n_total)
        rcases.append(c)
    for c, t in zip(rcases, core.pmap(call_via_session, rcases, chunksize=8)):
        n_total, sel = c["n_total"], c["sel"]
        ctx.count()
        if t.get("skip"):
            ctx.notes["pool_calls_not_readable"] = ctx.notes.get("pool_calls_not_readable", 0) + 1
            continue
        if t["n"] > 1:
            ctx.nontrivial(("run", n_total, sel, c["n_batches"], c["pool_size"], c["id_seed"] % 2, c.get("n_prior")))
        traces.append(t)
    for t in traces[:2] + traces[len(alg):len(alg) + 1] + traces[-1:]:
        ctx.sample({k: (v if k != "arr" or len(v) < 12 else v[:12] + ["..."]) for k, v in t.items()})
    verdicts = ctx.validate("PartitionTrace", traces)
    ctx.judge(traces, verdicts)
    if selftest or not quick:
        _selftest(ctx, traces)


def _selftest(ctx, traces):
    """corrupt recorded traces; every corruption must be rejected with the expected clause"""
    import copy
    muts = []
    base = [t for t in traces if t["kind"] == "idx" and len(t["tasks"]) >= 3][:5]
    for i, t in enumerate(base):
        a = copy.deepcopy(t); a["id"] = "st-drop-%d" % i; del a["tasks"][1]; muts.append((a, "C16.ContiguousOrdered"))
        b = copy.deepcopy(t); b["id"] = "st-start-%d" % i; b["tasks"][1]["start"] += 1; muts.append((b, "C16.OwnStartIndex"))
        c = copy.deepcopy(t); c["id"] = "st-last-%d" % i; c["tasks"][-1]["hi"] -= 1
        muts.append((c, "C16.CoversRange" if c["tasks"][-1]["hi"] > c["tasks"][-1]["lo"] else "C16.NonEmpty"))
    base = [t for t in traces if t["kind"] == "run" and len(t["tasks"]) >= 2][:5]
    for i, t in enumerate(base):
        a = copy.deepcopy(t); a["id"] = "st-res-%d" % i; a["results"] = a["results"][::-1]; muts.append((a, "C16.ResultsInTaskOrder"))
    v = ctx.validate("PartitionTrace", [m for m, _ in muts])
    ctx.traces_validated -= len(muts)
    bad = [(m["id"], exp, v[m["id"]]) for m, exp in muts if v[m["id"]]["ok"] or v[m["id"]]["clause"] != exp]
    if bad or not muts:
        raise core.MachineryError("selftest: corrupted traces not rejected as expected: %r" % bad[:3])
    ctx.notes["selftest_corruptions_rejected"] = len(muts)


def replay(ctx, path):
    import json
    rec = json.load(open(path))
    t = rec["case"]
    print("replaying recorded trace", t["id"])
    if t["kind"] in ("idx", "arr") and "b" in t:
        t2 = call_batch_tasks({"id": t["id"], "n": t["n"], "b": t["b"], "s": t["s"], "mode": t["kind"]})
        t2.pop("args_ok")
    else:
        t2 = t
    v = ctx.validate("PartitionTrace", [t2])
    print(v)
    return 0 if v[t2["id"]]["ok"] else 1
