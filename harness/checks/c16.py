"""C16 - work partitioning covers every prior sample exactly once, in order.

spec: Partition (what a valid partition is), PartitionAlg (the current algorithm, refines Partition)
binding: (a) TLC enumerates every (n, b, s, mode) within the export constants; each is replayed into the
real batch_tasks and the returned list is validated by TLC against Partition (not PartitionAlg);
(b) seeded random inputs with n up to 1e7 and run_worker calls through a recording pool are recorded
and validated by the PartitionTrace monitor."""
import os
import random

import numpy as np

from .. import core

LEVEL = "model_checking"


def _norm_tasks_idx(tasks):
    out = []
    for t in tasks:
        (lo, hi), start = t[0], t[1]
        out.append({"lo": int(lo), "hi": int(hi), "start": int(start)})
    return out


def _norm_tasks_arr(tasks):
    return [{"payload": [int(x) for x in t[0]], "start": int(t[1])} for t in tasks]


def call_batch_tasks(case):
    from thejoker.utils import batch_tasks
    n, b, s = case["n"], case["b"], case["s"]
    tr = {"id": case["id"], "n": n, "b": b, "s": s}
    if case["mode"] == "idx":
        tasks = batch_tasks(n, b, start_idx=s, args=("x",))
        tr.update(kind="idx", tasks=_norm_tasks_idx(tasks), arr=[])
        extra_ok = all(len(t) == 3 and t[2] == "x" for t in tasks)
    else:
        arr = np.arange(100, 100 + s + n)
        if case.get("shuffle"):
            arr = np.random.default_rng(case["shuffle"]).permutation(arr)
        tasks = batch_tasks(n, b, arr=arr, start_idx=s, args=("x",))
        tr.update(kind="arr", tasks=_norm_tasks_arr(tasks), arr=[int(x) for x in arr])
        extra_ok = all(len(t) == 3 and t[2] == "x" for t in tasks)
    tr["args_ok"] = bool(extra_ok)
    return tr


class RecPool:
    """pool with .map/.close/.size that records tasks and executes them in a chosen order."""

    def __init__(self, size, order_seed):
        self.size = size
        self.calls = []
        self._rnd = random.Random(order_seed)

    def map(self, worker, tasks):
        tasks = list(tasks)
        self.calls.append(tasks)
        order = list(range(len(tasks)))
        self._rnd.shuffle(order)
        res = [None] * len(tasks)
        for k in order:
            res[k] = worker(tasks[k])
        return res

    def close(self):
        pass


_TAG = {}


def _tag_worker(task):
    # result = 1-based position of the task in the map call, found through the task's own start index
    return _TAG[int(task[1])]


def have_run_worker():
    import thejoker.multiproc_helpers as mh
    return hasattr(mh, "run_worker")


def call_via_api(case):
    """the same observation without reaching into multiproc_helpers: the tasks a recording pool receives from
    TheJoker.marginal_ln_likelihood / rejection_sample on a library file (used when run_worker is not there to be called)"""
    import thejoker as tj
    from .. import fixture
    prior = fixture.make_prior("default")
    data = fixture.make_data()
    n_total = case["n_total"]
    lib = fixture.Library(n_total, seed=n_total)
    path = case["file"] + ".api.hdf5"
    if not os.path.exists(path):
        lib.write(path)
    pool = RecPool(case["pool_size"], case["id_seed"])
    joker = tj.TheJoker(prior, pool=pool, rng=np.random.default_rng(case["id_seed"]))
    kw = {}
    if case["n_batches"] is not None:
        kw["n_batches"] = case["n_batches"]
    ref = np.asarray(tj.TheJoker(prior).marginal_ln_likelihood(data, lib.samples, in_memory=True))
    if case["sel"] == "n_prior":
        n = case["n_prior"]
        res = joker.rejection_sample(data, path, n_prior_samples=n, return_all_logprobs=True, **kw)
        ll = np.asarray(res[1])
    else:
        n = n_total
        ll = np.asarray(joker.marginal_ln_likelihood(data, path, **kw))
    tasks = pool.calls[0]
    ok = len(ll) == n and np.allclose(ll, ref[:n], rtol=1e-9, atol=1e-9)
    k = len(tasks)
    tr = {"id": case["id"], "kind": "run", "arrkind": "idx", "n": int(n), "s": 0, "arr": [],
          "results": list(range(1, k + 1)) if ok else list(range(k, 0, -1)) + [0]}
    from .. import collab
    parsed = [collab.parse_task(t) for t in tasks]
    if any(p is None or p[0]["kind"] != "range" for p in parsed):
        return {"id": case["id"], "skip": True, "n": int(n)}       # tasks this harness cannot read: nothing observed, nothing judged
    tr["tasks"] = [{"lo": p[0]["lo"], "hi": p[0]["hi"], "start": p[0]["start"]} for p in parsed]
    return tr


def call_run_worker(case):
    if not have_run_worker():
        return call_via_api(case)
    from thejoker.multiproc_helpers import run_worker
    path = case["file"]
    pool = RecPool(case["pool_size"], case["id_seed"])
    kw = {}
    n_total = case["n_total"]
    arr = []
    if case["sel"] == "all":
        n = n_total
        arrkind = "idx"
    elif case["sel"] == "n_prior":
        n = case["n_prior"]
        kw["n_prior_samples"] = n
        arrkind = "idx"
    else:
        arr = case["idx"]
        n = len(arr)
        kw["samples_idx"] = np.array(arr)
        arrkind = "arr"
    if case["n_batches"] is not None:
        kw["n_batches"] = case["n_batches"]
    # tag = position of the task: computed from what the pool sees
    _TAG.clear()

    class P(RecPool):
        def map(self, worker, tasks):
            tasks = list(tasks)
            for k, t in enumerate(tasks):
                _TAG[int(t[1])] = k + 1
            return RecPool.map(self, worker, tasks)
    pool = P(case["pool_size"], case["id_seed"])
    results = run_worker(_tag_worker, pool, path, task_args=("a",), **kw)
    tasks = pool.calls[0]
    tr = {"id": case["id"], "kind": "run", "arrkind": arrkind, "n": int(n), "s": 0, "arr": [int(x) for x in arr],
          "results": [int(r) for r in results]}
    tr["tasks"] = _norm_tasks_idx(tasks) if arrkind == "idx" else _norm_tasks_arr(tasks)
    return tr


def run(ctx, selftest=False):
    quick = ctx.tier == "quick"
    ctx.rule = ("cases = every (n,b,s,mode) TLC enumerates in MC_PartitionAlg_export + seeded random (n up to 1e7, b up to n+10, "
                "s up to 1e6) + run_worker calls through a recording pool; distinct = distinct (n,b,s,mode,kind); "
                "trivial = n=1 or b=1 (single task forced)")
    ctx.assumptions = ["TLC/SANY/CommunityModules", "numpy arange/slicing", "JSON transport of integers < 2^31"]
    # 1. design level: the algorithm refines the property (exhaustive)
    ctx.model_check("PartitionAlg", "MC_PartitionAlg.cfg" if quick else "MC_PartitionAlg_thorough.cfg", coverage=True)
    # 2. spec -> code: every behaviour TLC enumerates is replayed
    r = ctx.model_check("PartitionAlg", "MC_PartitionAlg_export.cfg", workers=1)
    cases = []
    alg = {}
    for v in r.tagged("CASE"):
        c = v[1]
        cid = "mc-%d-%d-%d-%s" % (c["n"], c["b"], c["s"], "arr" if c["arrmode"] else "idx")
        cases.append({"id": cid, "n": c["n"], "b": c["b"], "s": c["s"], "mode": "arr" if c["arrmode"] else "idx"})
        alg[cid] = c["tasks"]
    if len(cases) < 100:
        raise core.MachineryError("export produced only %d cases" % len(cases))
    ctx.exhaustive = True
    # 3. seeded random, far beyond the exhaustive constants
    rnd = random.Random(ctx.seed * 7919 + 16)
    nrand = 400 if quick else 6000
    for k in range(nrand):
        mode = "idx" if rnd.random() < 0.6 else "arr"
        if mode == "idx":
            n = rnd.choice([rnd.randint(1, 60), rnd.randint(1, 10**4), rnd.randint(1, 10**7)])
            s = rnd.choice([0, 0, rnd.randint(0, 50), rnd.randint(0, 10**6)])
        else:
            n = rnd.randint(1, 120)
            s = rnd.choice([0, 0, rnd.randint(0, 20)])
        if n <= 300:
            b = rnd.choice([1, rnd.randint(1, n), n, n + rnd.randint(1, 10), rnd.randint(1, 64),
                            max(1, n - 1), max(1, n // 2), max(1, n // 2 + 1)])
        else:   # keep the number of tasks (and the trace) small for huge n
            b = rnd.choice([1, 2, 3, rnd.randint(1, 64), rnd.randint(1, 300), 7, 16])
        cases.append({"id": "rnd-%d" % k, "n": n, "b": b, "s": s, "mode": mode, "shuffle": rnd.choice([0, k + 1])})
    traces = []
    same_as_alg = 0
    for c in cases:
        t = call_batch_tasks(c)
        ctx.count()
        if c["n"] > 1 and c["b"] > 1:
            ctx.nontrivial(("bt", c["n"], c["b"], c["s"], c["mode"]))
        if not t.pop("args_ok"):
            ctx.fail("C16.TaskCarriesArgs", t)
        if c["id"] in alg:
            a = alg[c["id"]]
            mine = t["tasks"]
            if c["mode"] == "idx":
                same_as_alg += int(a == mine)
            else:
                same_as_alg += int([{"payload": x["payload"], "start": x["start"]} for x in a] == mine)
        traces.append(t)
    ctx.notes["replayed_equal_to_PartitionAlg"] = same_as_alg
    ctx.notes["replayed_from_tlc"] = len(alg)
    # 4. run_worker through a recording pool
    import astropy.units as u
    from thejoker.samples import JokerSamples
    files = {}
    for n_total in ([1, 2, 7, 30] if quick else [1, 2, 3, 7, 30, 101]):
        s = JokerSamples()
        s["P"] = np.arange(1, n_total + 1) * u.day
        s["e"] = np.zeros(n_total)
        p = os.path.join(ctx.workdir, "lib%d.hdf5" % n_total)
        s.write(p, overwrite=True)
        files[n_total] = p
    nrun = 150 if quick else 1500
    for k in range(nrun):
        n_total = rnd.choice(list(files))
        sel = rnd.choice(["all", "n_prior", "idx"])
        c = {"id": "run-%d" % k, "file": files[n_total], "n_total": n_total, "sel": sel, "id_seed": rnd.randint(0, 10**6),
             "pool_size": rnd.choice([0, 1, 2, 3, 5]),
             "n_batches": rnd.choice([None, None, 1, 2, 3, rnd.randint(1, n_total + 3)])}
        if sel == "n_prior":
            c["n_prior"] = rnd.randint(1, n_total)
        if sel == "idx":
            m = rnd.randint(1, n_total)
            c["idx"] = rnd.sample(range(n_total), m)
            if not have_run_worker():
                c["sel"] = "all"          # index arrays are chosen by the library itself on the public paths
        t = call_run_worker(c)
        ctx.count()
        if t.get("skip"):
            ctx.notes["pool_calls_not_readable"] = ctx.notes.get("pool_calls_not_readable", 0) + 1
            continue
        if t["n"] > 1:
            ctx.nontrivial(("run", n_total, sel, c["n_batches"], c["pool_size"], tuple(c.get("idx", [])), c.get("n_prior")))
        traces.append(t)
    for t in traces[:2] + traces[len(alg):len(alg) + 1] + traces[-1:]:
        ctx.sample({k: (v if k != "arr" or len(v) < 12 else v[:12] + ["..."]) for k, v in t.items()})
    verdicts = ctx.validate("PartitionTrace", traces)
    ctx.judge(traces, verdicts)
    if selftest or not quick:
        _selftest(ctx, traces)


def _selftest(ctx, traces):
    """corrupt recorded traces; every corruption must be rejected with the expected clause"""
    import copy
    muts = []
    base = [t for t in traces if t["kind"] == "idx" and len(t["tasks"]) >= 3][:5]
    for i, t in enumerate(base):
        a = copy.deepcopy(t); a["id"] = "st-drop-%d" % i; del a["tasks"][1]; muts.append((a, "C16.ContiguousOrdered"))
        b = copy.deepcopy(t); b["id"] = "st-start-%d" % i; b["tasks"][1]["start"] += 1; muts.append((b, "C16.OwnStartIndex"))
        c = copy.deepcopy(t); c["id"] = "st-last-%d" % i; c["tasks"][-1]["hi"] -= 1
        muts.append((c, "C16.CoversRange" if c["tasks"][-1]["hi"] > c["tasks"][-1]["lo"] else "C16.NonEmpty"))
    base = [t for t in traces if t["kind"] == "run" and len(t["tasks"]) >= 2][:5]
    for i, t in enumerate(base):
        a = copy.deepcopy(t); a["id"] = "st-res-%d" % i; a["results"] = a["results"][::-1]; muts.append((a, "C16.ResultsInTaskOrder"))
    v = ctx.validate("PartitionTrace", [m for m, _ in muts])
    ctx.traces_validated -= len(muts)
    bad = [(m["id"], exp, v[m["id"]]) for m, exp in muts if v[m["id"]]["ok"] or v[m["id"]]["clause"] != exp]
    if bad or not muts:
        raise core.MachineryError("selftest: corrupted traces not rejected as expected: %r" % bad[:3])
    ctx.notes["selftest_corruptions_rejected"] = len(muts)


def replay(ctx, path):
    import json
    rec = json.load(open(path))
    t = rec["case"]
    print("replaying recorded trace", t["id"])
    if t["kind"] in ("idx", "arr") and "b" in t:
        t2 = call_batch_tasks({"id": t["id"], "n": t["n"], "b": t["b"], "s": t["s"], "mode": t["kind"]})
        t2.pop("args_ok")
    else:
        t2 = t
    v = ctx.validate("PartitionTrace", [t2])
    print(v)
    return 0 if v[t2["id"]]["ok"] else 1
