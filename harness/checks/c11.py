"""C11 - MCMC continuation targets the same model and posterior as the sampler.

spec: Gauss.Curve (the sampler's model, with the offset columns of MultiSurvey) and the jitter-inflated Gaussian data term;
GaussTrace Mcmc events.  binding: for structural points (poly_trend 1..3 x offsets 0..2 x K prior kinds x jitter x e) with
lattice values and random unit assignments, setup_mcmc is run on the real prior; model['model_rv'], the observed node's
log-density and the ln_likelihood deterministic are compiled as functions of the prior's own variables and evaluated at
the lattice point; the curve is compared exactly with the specification by TLC, the two Gaussian terms numerically with
the certified curve; mcmc_init must be the chosen sample (the median-period member when several rows are given, in any row
order) in the prior's units; the model's free variables must be the prior's own objects."""
import random

from .. import core
from .. import gauss_driver as gd
from . import c01

LEVEL = "model_checking"
FAMILIES = ("C11.",)


def run(ctx, selftest=False):
    from .. import jk
    jk.load()
    quick = ctx.tier == "quick"
    ctx.rule = ("cases = structural points TLC enumerates (quick: 120, thorough: all 864) with seeded lattice values, unit assignments "
                "(quick: base units and random units alternate), 1 / 3 / 5 sample rows in shuffled order; distinct = distinct "
                "(configuration, units, rows); trivial = N=1, poly_trend=1, no offsets")
    ctx.assumptions = ["TLC/SANY", "pytensor graph evaluation with the prior's variables as inputs", "pymc transforms / Jacobians inside "
                       "model.logp() are not examined: the prior term is bound structurally (free variables are the prior's objects)"]
    ctx.model_check("GaussMC", "MC_Gauss.cfg", coverage=True)
    S = c01.structs(ctx, quick)
    rnd = random.Random(ctx.seed * 70001 + 11)
    idx = list(range(len(S)))
    rnd.shuffle(idx)
    cases = []
    for j, k in enumerate(idx[: (120 if quick else len(S))]):
        L = 1 + S[k]["poly"] + S[k]["noff"]
        ua = gd.random_units(rnd, L) if j % 2 else None
        g, ua = gd.make_config(S[k], rnd, ua)
        cases.append({"id": "m-%d" % k, "g": g, "ua": ua, "seed": k, "jitter_kind": "sampled" if (S[k]["s2"] or j % 3) else "const",
                      "nrows": [1, 3, 5][j % 3], "shuffle_rows": True})
    traces = core.pmap(gd.realize_mcmc, cases, chunksize=2)
    for c, t in zip(cases, traces):
        ctx.count()
        g = c["g"]
        if not (g["N"] == 1 and g["poly"] == 1 and g["noff"] == 0):
            ctx.nontrivial(str(sorted(g.items())) + str(sorted((k, str(v)) for k, v in c["ua"].items())) + str(c["nrows"]))
    ctx.sample(traces[0]); ctx.sample(traces[-1])
    # off the lattice: generic phases exercise thejoker's own (pytensor) Kepler solver, which the lattice phases 0 and pi cannot;
    # the oracle is the TLC-certified floating-point transcription of Gauss.tla with its independent Newton solver
    gd.offlattice_mcmc(ctx, 16 if quick else 240)
    verdicts = ctx.validate("GaussTrace", traces, timeout=3000)
    ctx.judge(traces, verdicts, families=FAMILIES)
    if selftest or not quick:
        import copy
        muts = []
        for t in traces:
            k = [e for e in t["events"] if e["ev"] == "Mcmc"]
            if k and k[0]["curve"] and len(muts) < 3:
                a = copy.deepcopy(t); a["id"] = "st-%d" % len(muts)
                ka = [e for e in a["events"] if e["ev"] == "Mcmc"][0]
                ka["curve"][0] = [ka["curve"][0][0] + ka["curve"][0][1], ka["curve"][0][1]]
                ka["initok"] = True
                muts.append(a)
        v = ctx.validate("GaussTrace", muts)
        ctx.traces_validated -= len(muts)
        if not muts or any(v[m["id"]]["ok"] for m in muts):
            raise core.MachineryError("selftest: corrupted model curve not rejected")
        ctx.notes["selftest_corruptions_rejected"] = len(muts)


def replay(ctx, path):
    import json
    from .. import jk
    jk.load()
    rec = json.load(open(path))
    t = rec["case"]
    if str(t.get("id", "")).startswith(("mcmcmodel-", "realmcmc-")):
        # an off-lattice problem (and its second setup_mcmc call): regenerated from its seed
        r = gd.realize_mcmc_real({"id": str(t["id"]).replace("mcmcmodel-", ""), "seed": t["seed"]})
        print("off-lattice problem re-executed: ok=%s first call dev_curve=%s second call: %s dev_second=%s %s" % (
            r.get("ok"), r.get("dev_curve"), r.get("second"), r.get("dev_second"), r.get("exc", "")))
        bad = (not r.get("ok")) or any(not (r.get(k, 0.0) <= gd.OFF_TOL) for k in ("dev_curve", "dev_obs", "dev_lnlike")) or \
              (r.get("second") == "answered" and not (r.get("dev_second", 1e9) <= gd.OFF_TOL))
        return 1 if bad else 0
    c = {"id": t["id"], "g": t["events"][0]["g"], "ua": t["events"][0]["ua"]}
    t2 = gd.realize_mcmc(c)
    v = ctx.validate("GaussTrace", [t2])
    print("re-executed and re-validated:", v[t2["id"]]["fails"] or "accepted")
    return 0 if v[t2["id"]]["ok"] else 1
