"""C14 - iterative rejection sampling respects request, budget and acceptance rule.

spec: Iterative (cursor arithmetic of the grow-and-retest loop; growth policy and the number of samples passing a test are
free), checked exhaustively by TLC (N<=7, n_requested<=3, liveness under weak fairness) and, for unbounded integers, by
Apalache: IndInit => IndInv, IndInv /\\ Next => IndInv', IndInv => Safety.  The content of a test is the rule of module
Sampler.  binding: every request TLC enumerates (library size, max_prior_samples, n_requested, init_batch_size, uniform
profile) is run on the real sampler (both paths, shuffled or not) with scripted uniforms; recorded executions (also seeded
random ones on libraries to 400 / 5000 rows with the generator's own uniforms) are validated by the SamplerTrace monitor:
rows evaluated per round, one uniform per accumulated likelihood each round, acceptance against the maximum of everything
evaluated so far, budget, no row twice, at most / exactly n_requested, a too-small library raises before evaluating."""
import os
import random
import shutil
import subprocess

import numpy as np

from .. import core
from . import c02

LEVEL = "model_checking"
FAMILIES = ("C14.",)


def run_case(case):
    from .. import sampler_driver as sd
    g = c02._setup()
    lib = c02._lib(case["n"])
    wd = os.path.join(case["workdir"], case["id"])
    os.makedirs(wd, exist_ok=True)
    ucls = None
    prof = case.get("uprofile", "random")
    if prof == "all":
        ucls = {i: "zero" for i in range(1, case["n"] + 1)}
    elif prof == "bestonly":
        ucls = {i: "hi" for i in range(1, case["n"] + 1)}
    elif prof == "none_but_best_late":
        ucls = {i: ("hi" if i <= max(1, case["n"] - 1) else "zero") for i in range(1, case["n"] + 1)}
    s = sd.Session(lib, g["data"], g["prior"], seed=case["seed"], pool=case.get("pool", "rec"), pool_size=case.get("pool_size", 2),
                   order_seed=case["seed"], inject=case.get("inject"), uclasses=ucls, workdir=wd)
    s.header()
    for c in case["calls"]:
        s.call(**c)
    t = s.trace(case["id"])
    if "mustraise" in case:
        t["mustraise"] = case["mustraise"]
    shutil.rmtree(wd, ignore_errors=True)
    return t


def apalache(ctx):
    """three obligations of the inductive argument, over unbounded integers"""
    out = os.path.join(ctx.workdir, "apalache")
    os.makedirs(out, exist_ok=True)
    obligations = [("Init", "IndInv", 0), ("IndInit", "IndInv", 1), ("IndInit", "Safety", 0)]
    ok = 0
    for init, inv, length in obligations:
        cmd = ["apalache-mc", "check", "--init=" + init, "--inv=" + inv, "--length=%d" % length, "--out-dir=" + out,
               "MC_IterativeInd.tla"]
        try:
            p = subprocess.run(cmd, cwd=core.SPEC, capture_output=True, text=True, timeout=900)
        except subprocess.TimeoutExpired:
            raise core.MachineryError("apalache timed out on %s/%s" % (init, inv))
        if "EXITCODE: OK" in p.stdout and "NoError" in p.stdout or "no error up to computation length" in p.stdout and "EXITCODE: OK" in p.stdout:
            ok += 1
        else:
            raise core.MachineryError("apalache obligation %s => %s failed:\n%s" % (init, inv, p.stdout[-1500:]))
    shutil.rmtree(out, ignore_errors=True)
    ctx.notes["apalache_inductive_obligations"] = {"checked": len(obligations), "ok": ok,
                                                   "what": "Init=>IndInv; IndInv/\\Next=>IndInv'; IndInv=>Safety (unbounded integers)"}


def run(ctx, selftest=False):
    c02._setup()
    quick = ctx.tier == "quick"
    ctx.rule = ("cases = every request TLC enumerates (N<=6, max_prior_samples in None/1..6, n_requested<=3, init_batch_size<=7, four "
                "uniform profiles: all pass / only the best passes / the last row passes late / generator's own) run on alternating "
                "paths and orders (quick: seeded subset) + seeded random requests on libraries to 400 / 5000 rows incl. -inf "
                "likelihoods; distinct = distinct (request, evaluated rows, returned rows); trivial = request that raises before evaluating")
    ctx.assumptions = ["TLC/SANY", "Apalache 0.58 (inductive invariant)", "as C02 for the acceptance rule"]
    ctx.model_check("Iterative", "MC_Iterative.cfg" if quick else "MC_Iterative_thorough.cfg", coverage=True)
    apalache(ctx)
    r = ctx.model_check("IterativeCases", "MC_IterativeCases.cfg", workers=1)
    rnd = random.Random(ctx.seed * 7368787 + 14)
    allc = r.tagged("CASE")
    idx = list(range(len(allc)))
    rnd.shuffle(idx)
    cases = []
    for k in idx[: (500 if quick else len(idx))]:
        c = allc[k][1]
        path = ["inmem", "object", "file"][k % 3]
        cases.append({"id": "mc-%d" % k, "n": c["n"], "seed": k, "uprofile": c["uprofile"], "mustraise": c["mustraise"],
                      "workdir": ctx.workdir,
                      "calls": [dict(api="iterative", path=path, nreq=c["nreq"], initb=c["initb"], budget=c["mp"],
                                     nlinear=1 + k % 2, randomize=(k % 4 == 1), logprobs=(k % 2 == 0), nbatches=[0, 2][k % 2])]})
    ctx.notes["requests_enumerated_by_tlc"] = len(allc)
    ctx.notes["requests_replayed"] = len(cases)
    ctx.exhaustive = not quick
    for j in range(150 if quick else 2500):
        n = rnd.choice([1, 2, 5, 9, 20, 64, rnd.randint(2, 400 if quick else 5000)])
        nreq = rnd.randint(1, max(1, min(8, n)))
        case = {"id": "rnd-%d" % j, "n": n, "seed": rnd.randint(0, 10**6), "uprofile": rnd.choice(["random", "random", "bestonly", "all"]),
                "workdir": ctx.workdir, "pool": rnd.choice(["rec", "serial"]), "pool_size": rnd.choice([1, 2, 4]),
                "calls": [dict(api="iterative", path=rnd.choice(["inmem", "object", "file"]), nreq=nreq,
                               initb=rnd.choice([0, rnd.randint(1, n), rnd.randint(1, n + 2)]),
                               growth=rnd.choice([None, 1, 2, 4]),
                               budget=rnd.choice([0, 0, rnd.randint(1, n)]), nlinear=rnd.choice([1, 2]),
                               randomize=rnd.random() < 0.4, logprobs=rnd.random() < 0.5, nbatches=rnd.choice([0, 1, 3]))]}
        if rnd.random() < 0.2 and n > 1:
            case["inject"] = {i: -np.inf for i in rnd.sample(range(1, n + 1), rnd.randint(1, n - 1))}
        cases.append(case)
    traces = core.pmap(run_case, cases, chunksize=4)
    for t in traces:
        ctx.count()
        ret = [e for e in t["events"] if e["ev"] == "Return"][-1]
        evd = sum(len(e["rows"]) for e in t["events"] if e["ev"] == "Eval")
        if "mustraise" in t:
            must = t.pop("mustraise")
            if must and not ret["raised"]:
                ctx.fail("C14.ReplayTooSmallLibraryRaises", t)
        if evd:
            ctx.nontrivial(c02._profile_key(t) + [evd])
    if not quick:
        # thorough: the sampler calls made by the repository's own tests, recorded and validated like every other trace
        from .. import repotests
        rt, rinfo = repotests.collect(ctx.workdir)
        ctx.notes["repository_test_traces"] = rinfo
        traces = traces + rt
    ctx.sample(c02._brief(traces[0])); ctx.sample(c02._brief(traces[-1]))
    verdicts = ctx.validate("SamplerTrace", traces, timeout=3000)
    ctx.judge(traces, verdicts, families=FAMILIES)
    if selftest or not quick:
        _selftest(ctx, traces)


def _selftest(ctx, traces):
    import copy
    muts = []
    for t in traces:
        ret = [e for e in t["events"] if e["ev"] == "Return"][-1]
        evs = [e for e in t["events"] if e["ev"] == "Eval"]
        if not ret["raised"] and len(ret["rows"]) >= 1 and len(evs) >= 2:
            a = copy.deepcopy(t); a["id"] = "st-twice-%d" % len(muts)
            ea = [e for e in a["events"] if e["ev"] == "Eval"]
            ea[-1]["rows"][0] = ea[0]["rows"][0]
            muts.append((a, "C14."))
        if len(muts) >= 4:
            break
    if not muts:
        return
    v = ctx.validate("SamplerTrace", [m for m, _ in muts])
    ctx.traces_validated -= len(muts)
    bad = [(m["id"], exp, v[m["id"]]["fails"]) for m, exp in muts if not any(f[0].startswith(exp) or f[0].startswith("C05.") for f in v[m["id"]]["fails"])]
    if bad:
        raise core.MachineryError("selftest: corrupted traces not rejected as expected: %r" % bad[:3])
    ctx.notes["selftest_corruptions_rejected"] = len(muts)


replay = c02.replay
