"""X05 (extension, not a listed property) - an RVData survives the trip through an astropy TimeSeries file.

spec: RVData (SameObservations) / RVDataTrace.OnRoundTrip: to_timeseries() written to HDF5 and read back with
RVData.from_timeseries() holds the same observations (pairing, order), the same units and the same reference epoch.
binding: the observation patterns TLC enumerates for C15 (RVDataAlg export: <= 3 observations, repeated times, one non-finite
component each, clean=True) + seeded random data sets to 200 observations, 1-D uncertainties, rotating unit / t_ref mode / input
type; projected with C15's projection and validated by the RVDataTrace monitor.  (from_timeseries cannot read formats that need
a time_column argument, e.g. ECSV: the specification is about the HDF5 route.)"""
import os
import random

import numpy as np

from .. import core
from . import c15

LEVEL = "model_checking"


def execute(case):
    import astropy.units as u
    obs = case["obs"]
    ev0 = {"ev": "Construct", "obs": obs, "clean": True, "trefmode": case["trefmode"], "trefin": case.get("trefin", 0),
           "unit": u.Unit(case["unit"]).to_string(), "errunit": u.Unit(case["unit"]).to_string(), "hascov": False, "raised": False}
    from thejoker import RVData
    try:
        data = c15._build(case)
        ev0["out"] = c15._project(data, case, obs)
    except Exception as ex:
        ev0["raised"] = True
        ev0["exc"] = repr(ex)[:200]
        ev0["out"] = dict(c15._EMPTY)
        return {"id": case["id"], "events": [ev0]}
    ev = {"ev": "RoundTrip", "raised": False}
    path = os.path.join(case["workdir"], "%s.hdf5" % case["id"])
    try:
        ts = data.to_timeseries()
        ts.write(path, format="hdf5", path="data", serialize_meta=True, overwrite=True)
        back = RVData.from_timeseries(path, path="data")
        ev["out"] = c15._project(back, case, obs)
    except Exception as ex:
        ev["raised"] = True
        ev["exc"] = repr(ex)[:200]
        ev["out"] = dict(c15._EMPTY)
    finally:
        if os.path.exists(path):
            os.unlink(path)
    return {"id": case["id"], "events": [ev0, ev]}


def run(ctx, selftest=False):
    from .. import jk
    jk.load()
    quick = ctx.tier == "quick"
    ctx.rule = ("cases = observation patterns of the RVDataAlg export (clean=True) with rotating (t_ref mode, unit, float/Time input) + "
                "seeded random data sets to 200 observations; distinct = distinct (pattern, t_ref mode, unit); trivial = one observation")
    ctx.assumptions = ["TLC/SANY", "astropy TimeSeries HDF5 I/O", "identity of a value is recovered from the value (rv=id, err=id/8)"]
    ctx.model_check("RVDataAlg", "MC_RVDataAlg.cfg")
    r = ctx.model_check("RVDataAlg", "MC_RVDataAlg_export.cfg", workers=1)
    rnd = random.Random(ctx.seed * 7907 + 5)
    cases = []
    k = 0
    for v in r.tagged("CASE"):
        c = v[1]
        obs = [dict(o) for o in c["obs"]]
        if not c["clean"] or not any(o["tfin"] and o["rvfin"] and o["errfin"] for o in obs):
            continue
        if quick and k % 3 != ctx.seed % 3:
            k += 1
            continue
        cases.append({"id": "mc-%d" % k, "obs": obs, "clean": True, "trefmode": ["default", "explicit", "false"][k % 3],
                      "trefin": rnd.choice([0, 1, 2, 5]), "unit": ["km/s", "m/s"][k % 2], "hascov": False,
                      "tinput": ["float", "time"][(k // 2) % 2], "workdir": ctx.workdir})
        k += 1
    if len(cases) < 100:
        raise core.MachineryError("export produced too few cases (%d)" % len(cases))
    for j in range(100 if quick else 1500):
        n = rnd.choice([1, 2, 3, 5, 8, rnd.randint(2, 40), rnd.randint(2, 200)])
        obs = []
        for i in range(1, n + 1):
            which = rnd.choice(["t", "rv", "err"]) if rnd.random() < 0.2 else ""
            obs.append({"id": i, "t": rnd.randint(0, max(2, n // 2)), "tfin": which != "t", "rvfin": which != "rv", "errfin": which != "err"})
        if not any(o["tfin"] and o["rvfin"] and o["errfin"] for o in obs):
            obs[0].update(tfin=True, rvfin=True, errfin=True)
        cases.append({"id": "rnd-%d" % j, "obs": obs, "clean": True, "trefmode": rnd.choice(["default", "explicit", "false"]),
                      "trefin": rnd.randint(-3, 9), "unit": rnd.choice(["km/s", "m/s", "pc/yr"]), "hascov": False,
                      "tinput": rnd.choice(["float", "time"]), "workdir": ctx.workdir})
    traces = core.pmap(execute, cases, procs=8 if quick else 16, chunksize=16)
    for c, t in zip(cases, traces):
        ctx.count()
        if len(c["obs"]) > 1:
            ctx.nontrivial(([(o["t"], o["tfin"], o["rvfin"], o["errfin"]) for o in c["obs"]], c["trefmode"], c["unit"]))
    ctx.notes["round_trips_made"] = sum(1 for t in traces if len(t["events"]) == 2 and not t["events"][1]["raised"])
    ctx.notes["disabled_reference_epoch_came_back_as_default"] = sum(
        1 for t in traces if len(t["events"]) == 2 and t["events"][0]["out"]["trefnone"] and not t["events"][1]["out"]["trefnone"])
    ctx.sample(traces[0]); ctx.sample(traces[-1])
    verdicts = ctx.validate("RVDataTrace", traces)
    ctx.judge(traces, verdicts)
    if selftest or not quick:
        import copy
        muts = []
        for t in traces:
            if len(t["events"]) == 2 and len(t["events"][1]["out"]["rows"]) >= 2 and not t["events"][1]["out"]["trefnone"]:
                a = copy.deepcopy(t); a["id"] = "st-%d" % len(muts); a["events"][1]["out"]["tref"] += 1
                muts.append((a, "X05.TimeSeriesKeepsTRef"))
            if len(muts) >= 3:
                break
        v = ctx.validate("RVDataTrace", [m for m, _ in muts])
        ctx.traces_validated -= len(muts)
        bad = [(m["id"], v[m["id"]]) for m, exp in muts if v[m["id"]]["ok"] or v[m["id"]]["clause"] != exp]
        if bad or not muts:
            raise core.MachineryError("selftest: corrupted traces not rejected as expected: %r" % bad[:3])
        ctx.notes["selftest_corruptions_rejected"] = len(muts)


def replay(ctx, path):
    import json
    from .. import jk
    jk.load()
    rec = json.load(open(path))
    c = rec["case"]
    v = ctx.validate("RVDataTrace", [c])
    print("recorded trace re-validated:", v[c["id"]])
    return 0 if v[c["id"]]["ok"] else 1
