"""C19 - time-sampling diagnostics equal their definitions.

spec: Diagnostics (definitions on a discrete circle), DiagnosticsMC (theorems: independence of the reference epoch, time
reversal, gaps sum to the circle; enumerates observing patterns)
binding: every (pattern on 8 slots, P, t_ref) TLC enumerates is built as a real RVData (observations fed in shuffled and
reversed order) and max_phase_gap / phase_coverage / periods_spanned / MAP_sample are called; results are projected to
exact rationals and validated by the DiagnosticsTrace monitor; seeded random patterns go to 300 slots."""
import random

import numpy as np

from .. import core

LEVEL = "model_checking"
T0 = 55000


def _rat(x, den):
    y = float(x) * den
    ok = np.isfinite(y) and abs(y - round(y)) < 1e-6 * max(1.0, abs(y))
    return (int(round(y)) if ok else 0), bool(ok)


def execute(case):
    import astropy.units as u
    from astropy.time import Time
    from thejoker import JokerSamples, RVData
    from thejoker import samples_analysis as sa
    if case["kind"] == "map":
        lp, ll = case["lp"], case["ll"]
        n = len(lp)
        s = JokerSamples()
        Ps = [10 + 3 * i for i in range(n)]
        s["P"] = np.array(Ps, dtype=float) * u.day
        s["e"] = np.zeros(n)
        NEG = -1000000
        s["ln_prior"] = np.array([(-np.inf if x <= NEG else x) for x in lp], dtype=float)
        s["ln_likelihood"] = np.array([(-np.inf if x <= NEG else x) for x in ll], dtype=float)
        tr = {"id": case["id"], "kind": "map", "lp": lp, "ll": ll, "Ps": Ps, "raised": False, "idx": 0, "rowP": 0}
        try:
            row, idx = sa.MAP_sample(s, return_index=True)
            row2 = sa.MAP_sample(s)
            tr["idx"] = int(idx) + 1
            tr["rowP"] = int(round(float(np.atleast_1d(row["P"].to_value(u.day))[0])))
            if int(round(float(np.atleast_1d(row2["P"].to_value(u.day))[0]))) != tr["rowP"]:
                tr["rowP"] = -1
        except Exception as ex:
            tr["raised"] = True
            tr["exc"] = repr(ex)[:200]
        return tr
    times = list(case["times"])
    rnd = random.Random(case["id"])
    order = case.get("order", "shuffled")
    if order == "shuffled":
        rnd.shuffle(times)
    elif order == "reversed":
        times = sorted(times, reverse=True)
    P, r = case["P"], case["r"]
    t = np.array(times, dtype=float) + T0
    unit = u.km / u.s
    data = RVData(Time(t, format="mjd", scale="tcb"), np.zeros(len(t)) * unit, np.ones(len(t)) * unit,
                  t_ref=Time(T0 + r - 0.5, format="mjd", scale="tcb"))
    s = JokerSamples()
    punit = u.Unit(case.get("punit", "d"))
    s["P"] = np.array([(P * u.day).to_value(punit)]) * punit
    s["e"] = np.zeros(1)
    gap = sa.max_phase_gap(s, data)
    gap = float(np.atleast_1d(getattr(gap, "value", gap))[0]) if np.ndim(gap) else float(getattr(gap, "value", gap))
    g, gok = _rat(gap, 2 * P)
    nb, occ = [], []
    for n in case["nb"]:
        pc = sa.phase_coverage(s, data, n_bins=n)
        pc = float(np.atleast_1d(getattr(pc, "value", pc))[0])
        c, cok = _rat(pc, n)
        nb.append(n)
        occ.append(c if cok else -1)
    ps = sa.periods_spanned(s, data)
    ps = float(np.atleast_1d(getattr(ps, "value", ps))[0])
    b, bok = _rat(ps, P)
    return {"id": case["id"], "kind": "data", "times": sorted(case["times"]), "P": P, "r": r, "gap2p": g, "gapexact": gok,
            "nb": nb, "occ": occ, "base": b, "baseexact": bok, "order": order}


def _nb(P):
    return [n for n in (2, 3, 4, 5, 6, 8, 10, 12) if (2 * P) % n == 0 and ((2 * P) // n) % 2 == 0]


def run(ctx, selftest=False):
    from .. import jk
    jk.load()
    quick = ctx.tier == "quick"
    ctx.rule = ("cases = every (non-empty pattern on 8 slots, P in {4,6,8,12}, t_ref offset in {0,1,5}) TLC enumerates, each fed in "
                "shuffled or reversed input order, + seeded random patterns to 300 slots with integer periods to 60 (period given "
                "in d, yr or h) + MAP tables with ties; distinct = distinct (pattern, P, r) / (lp, ll); trivial = one observation")
    ctx.assumptions = ["TLC/SANY", "astropy Time/units", "projection of a float result to the lattice rational within 1e-6"]
    ctx.model_check("DiagnosticsMC", "MC_Diagnostics_quick.cfg" if quick else "MC_Diagnostics.cfg", coverage=True)
    r = ctx.model_check("DiagnosticsMC", "MC_Diagnostics_export.cfg", workers=1)
    rnd = random.Random(ctx.seed * 15485863 + 19)
    cases = []
    for n_, v in enumerate(r.tagged("CASE")):
        c = v[1]
        if quick and n_ % 4 != ctx.seed % 4:
            continue
        cases.append({"id": "mc-%d" % n_, "kind": "data", "times": sorted(c["times"]), "P": c["P"], "r": c["r"], "nb": _nb(c["P"]),
                      "order": ["shuffled", "reversed", "sorted"][n_ % 3]})
    if len(cases) < 500:
        raise core.MachineryError("export produced too few cases (%d)" % len(cases))
    ctx.exhaustive = not quick
    for j in range(300 if quick else 4000):
        T = rnd.choice([5, 12, 40, 300])
        m = rnd.randint(1, min(T, 40))
        times = rnd.sample(range(T), m)
        if rnd.random() < 0.3:
            times += [rnd.choice(times) for _ in range(rnd.randint(1, 3))]     # repeated epochs
        P = rnd.choice([1, 2, 3, 4, 5, 6, 7, 8, 10, 12, 16, 25, 32, 60])
        cases.append({"id": "rnd-%d" % j, "kind": "data", "times": times, "P": P, "r": rnd.randint(-3, T + 3), "nb": _nb(P),
                      "punit": rnd.choice(["d", "d", "yr", "h"]), "order": rnd.choice(["shuffled", "reversed", "sorted"])})
    for j in range(150 if quick else 1500):
        n = rnd.randint(1, 12)
        lp = [rnd.randint(-5, 5) for _ in range(n)]
        ll = [rnd.randint(-5, 5) for _ in range(n)]
        if rnd.random() < 0.4 and n > 1:       # make ln_likelihood's maximiser differ from the posterior's
            i, k = rnd.sample(range(n), 2)
            ll[i] = 9; lp[i] = -9; lp[k] = 6; ll[k] = 0
        if rnd.random() < 0.4:                 # -inf terms (zero prior density / impossible data), anywhere in the table
            for _ in range(rnd.randint(1, max(1, n // 2))):
                rnd.choice([lp, ll])[rnd.randrange(n)] = -1000000
        cases.append({"id": "map-%d" % j, "kind": "map", "lp": lp, "ll": ll})
    traces = core.pmap(execute, cases, procs=8 if quick else 16, chunksize=32)
    for c, t in zip(cases, traces):
        ctx.count()
        if c["kind"] == "data" and len(set(c["times"])) > 1:
            ctx.nontrivial(("d", sorted(c["times"]), c["P"], c["r"]))
        elif c["kind"] == "map" and len(c["lp"]) > 1:
            ctx.nontrivial(("m", c["lp"], c["ll"]))
    ctx.sample(traces[0]); ctx.sample(traces[-1]); ctx.sample(traces[len(traces) // 2])
    verdicts = ctx.validate("DiagnosticsTrace", traces)
    ctx.judge(traces, verdicts)
    # the diagnostics under every short HISTORY of calls on one sample object (spec/History.tla): other data sets, replaced
    # log-probability columns, copies - the answer may depend on the content only
    from .. import history
    history.check(ctx, "samples", {"C19"}, ("C19.",), selftest=selftest)
    if selftest or not quick:
        _selftest(ctx, traces)


def _selftest(ctx, traces):
    import copy
    muts = []
    pool = [t for t in traces if t["kind"] == "data" and len(set(t["times"])) >= 3][:4]
    for i, t in enumerate(pool):
        a = copy.deepcopy(t); a["id"] = "st-gap-%d" % i; a["gap2p"] += 2; muts.append((a, "C19.MaxPhaseGapIsLargestArcInclWrapAround"))
        if t["nb"]:
            b = copy.deepcopy(t); b["id"] = "st-cov-%d" % i; b["occ"][0] += 1; muts.append((b, "C19.PhaseCoverageIsOccupiedBinFraction"))
        c = copy.deepcopy(t); c["id"] = "st-base-%d" % i; c["base"] += 1; muts.append((c, "C19.PeriodsSpannedIsBaselineOverPeriod"))
    v = ctx.validate("DiagnosticsTrace", [m for m, _ in muts])
    ctx.traces_validated -= len(muts)
    bad = [(m["id"], exp, v[m["id"]]) for m, exp in muts if v[m["id"]]["ok"] or v[m["id"]]["clause"] != exp]
    if bad or not muts:
        raise core.MachineryError("selftest: corrupted traces not rejected as expected: %r" % bad[:3])
    ctx.notes["selftest_corruptions_rejected"] = len(muts)


def replay(ctx, path):
    import json
    from .. import jk
    jk.load()
    rec = json.load(open(path))
    t = rec["case"]
    v = ctx.validate("DiagnosticsTrace", [t])
    print("recorded trace re-validated:", v)
    return 0 if v[t["id"]]["ok"] else 1
