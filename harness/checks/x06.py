"""X06 (extension, not a listed property) - JokerSamples.from_inference_data maps an MCMC result onto a sample table.

spec: Inference (draw identities in chain-major order, divergent draws removed when pruning, raise when pruning without sample
statistics, which log-probability columns are carried over), InferenceMC (every posterior of <= 2 chains x <= 3 draws, every
divergence mask and flag combination; invariants), InferenceTrace (monitor).
binding: every case TLC enumerates (quick: a third) is built as a real arviz InferenceData whose values encode (draw identity,
column), passed to from_inference_data with rotating priors (default / trend / units in yr and m/s / one offset) and real data."""
import random

import numpy as np

from .. import core

LEVEL = "model_checking"
_P = {}


def _prior(kind):
    if kind in _P:
        return _P[kind]
    import astropy.units as u
    import pymc as pm
    import thejoker.units as xu
    from thejoker import JokerPrior
    if kind == "default":
        p = JokerPrior.default(P_min=2 * u.day, P_max=512 * u.day, sigma_K0=30 * u.km / u.s, sigma_v=100 * u.km / u.s)
    elif kind == "trend":
        p = JokerPrior.default(P_min=2 * u.day, P_max=512 * u.day, sigma_K0=30 * u.km / u.s,
                               sigma_v=[100 * u.km / u.s, 1 * u.km / u.s / u.day], poly_trend=2)
    elif kind == "units":
        p = JokerPrior.default(P_min=0.01 * u.yr, P_max=2 * u.yr, sigma_K0=30000 * u.m / u.s, sigma_v=1e5 * u.m / u.s)
    else:
        with pm.Model():
            dv = xu.with_unit(pm.Normal("dv0_1", 0.0, 5.0), u.km / u.s)
            p = JokerPrior.default(P_min=2 * u.day, P_max=512 * u.day, sigma_K0=30 * u.km / u.s, sigma_v=100 * u.km / u.s, v0_offsets=[dv])
    _P[kind] = p
    return p


def execute(case):
    import arviz as az
    import astropy.units as u
    import thejoker.units as xu
    from thejoker import JokerSamples
    from .. import fixture
    C, D = case["C"], case["D"]
    prior = _prior(case["prior"])
    data = fixture.make_data(n=6, seed=3)
    if prior.n_offsets:
        d2 = fixture.make_data(n=5, seed=4)
        from thejoker import RVData
        from astropy.time import Time
        d2 = RVData(Time(d2.t.tcb.mjd + 400.0, format="mjd", scale="tcb"), d2.rv, d2.rv_err)
        data = [data, d2]
    names = list(prior.par_names)
    ident = np.arange(1, C * D + 1, dtype=float).reshape(C, D)
    post = {nm: ident + 1000.0 * (j + 1) for j, nm in enumerate(names)}
    if case["logp"]:
        post["logp"] = ident + 50000.0
    if case["ll"]:
        post["ln_likelihood"] = ident + 60000.0
    if case["lp"]:
        post["ln_prior"] = ident + 70000.0
    div = np.zeros((C, D), dtype=bool)
    for k in case["div"]:
        div[(k - 1) // D, (k - 1) % D] = True
    idata = az.from_dict({"posterior": post, "sample_stats": {"diverging": div}})
    tr = {"id": case["id"], "C": C, "D": D, "div": sorted(case["div"]), "prune": case["prune"], "root": case["root"], "logp": case["logp"],
          "ll": case["ll"], "lp": case["lp"], "raised": False, "ids": [], "colsame": False, "unitsok": False, "extra": [], "metaok": False}
    try:
        s = JokerSamples.from_inference_data(prior, idata if case["root"] else idata.posterior, data, prune_divergences=case["prune"])
    except Exception as ex:
        tr["raised"] = True
        tr["exc"] = "%s: %s" % (type(ex).__name__, str(ex)[:120])
        return tr
    cols = {}
    units_ok = True
    for j, nm in enumerate(names):
        col = s[nm]
        want = getattr(prior.pars[nm], xu.UNIT_ATTR_NAME)
        have = getattr(col, "unit", u.one)
        if u.Unit(have) != u.Unit(want):
            units_ok = False
        v = np.atleast_1d(np.asarray(getattr(col, "value", col), dtype=float)) - 1000.0 * (j + 1)
        cols[nm] = [int(round(x)) if abs(x - round(x)) < 1e-9 else 0 for x in v]
    tr["ids"] = cols[names[0]]
    tr["colsame"] = bool(all(c == tr["ids"] for c in cols.values()))
    for nm, off in (("ln_posterior", 50000.0), ("ln_likelihood", 60000.0), ("ln_prior", 70000.0)):
        if nm in s.par_names:
            v = np.atleast_1d(np.asarray(s[nm], dtype=float)) - off
            if [int(round(x)) for x in v] != tr["ids"]:
                tr["colsame"] = False
            tr["extra"].append(nm)
    tr["unitsok"] = units_ok
    from thejoker.data_helpers import validate_prepare_data
    all_data, _, _ = validate_prepare_data(data, prior.poly_trend, prior.n_offsets)
    tr["metaok"] = bool(s.poly_trend == prior.poly_trend and s.n_offsets == prior.n_offsets and s.t_ref is not None
                        and abs((s.t_ref - all_data.t_ref).to_value(u.s)) < 1e-6)
    return tr


def run(ctx, selftest=False):
    from .. import jk
    jk.load()
    quick = ctx.tier == "quick"
    ctx.rule = ("cases = every (chains <= 2, draws <= 3, divergence mask, prune, root-or-posterior, logp / ln_likelihood / ln_prior "
                "present) TLC enumerates (quick: a third), priors rotating over default / trend / yr+m/s units / one offset; "
                "distinct = distinct cases; trivial = one draw")
    ctx.assumptions = ["TLC/SANY", "arviz.from_dict builds the InferenceData", "values encode (draw identity, column)"]
    ctx.model_check("InferenceMC", "MC_Inference.cfg", coverage=True)
    r = ctx.model_check("InferenceMC", "MC_Inference_export.cfg", workers=1)
    cases = []
    for k, v in enumerate(r.tagged("CASE")):
        c = v[1]
        if quick and k % 3 != ctx.seed % 3:
            continue
        cases.append({"id": "mc-%d" % k, "C": c["C"], "D": c["D"], "div": sorted(c["div"]), "prune": c["prune"], "root": c["root"],
                      "logp": c["logp"], "ll": c["ll"], "lp": c["lp"], "prior": ["default", "trend", "units", "offset"][k % 4]})
    if len(cases) < 500:
        raise core.MachineryError("export produced too few cases (%d)" % len(cases))
    ctx.exhaustive = not quick
    traces = core.pmap(execute, cases, procs=8, chunksize=64)
    for c in cases:
        ctx.count()
        if c["C"] * c["D"] > 1:
            ctx.nontrivial(str(c))
    ctx.notes["calls_that_returned_a_table"] = sum(1 for t in traces if not t["raised"])
    ctx.sample(next(t for t in traces if not t["raised"] and t["div"])); ctx.sample(traces[-1])
    verdicts = ctx.validate("InferenceTrace", traces)
    ctx.judge(traces, verdicts)
    if selftest or not quick:
        import copy
        t = next(t for t in traces if not t["raised"] and len(t["ids"]) >= 2)
        a = copy.deepcopy(t); a["id"] = "st-0"; a["ids"] = a["ids"][::-1]
        v = ctx.validate("InferenceTrace", [a])
        ctx.traces_validated -= 1
        if v["st-0"]["clause"] != "X06.RowsAreTheDrawsChainMajorDivergentOnesRemoved":
            raise core.MachineryError("selftest: corrupted trace not rejected: %r" % v)
        ctx.notes["selftest_corruptions_rejected"] = 1


def replay(ctx, path):
    import json
    from .. import jk
    jk.load()
    rec = json.load(open(path))
    t = execute({k: rec["case"][k] for k in ("id", "C", "D", "div", "prune", "root", "logp", "ll", "lp")} | {"prior": "default"})
    v = ctx.validate("InferenceTrace", [t])
    print("case re-executed and re-validated:", v[t["id"]])
    return 0 if v[t["id"]]["ok"] else 1
