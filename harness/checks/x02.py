"""X02 (extension, not a listed property) - is_P_unimodal and phase_coverage_per_period equal their definitions.

spec: DiagnosticsExt (the unimodality rule with a rational bracket of pi; the fullest period-long window of either family),
DiagnosticsExtMC (bounds, monotonicity, "observations closer than P/2 share a window", rule consistency; enumerates patterns).
binding: every (pattern, even P, t_ref) TLC enumerates is built as a real RVData (shuffled input order) and the functions are
called; the integer results are validated by the DiagnosticsExtTrace monitor; seeded random patterns to 300 slots."""
import random

import numpy as np

from .. import core

LEVEL = "model_checking"
T0 = 55000


def execute(case):
    import astropy.units as u
    from astropy.time import Time
    from thejoker import JokerSamples, RVData
    from thejoker import samples_analysis as sa
    rnd = random.Random(case["id"])
    times = list(case["times"])
    rnd.shuffle(times)
    t = np.array(times, dtype=float) + T0
    unit = u.km / u.s
    if case["kind"] == "perperiod":
        P, r = case["P"], case["r"]
        data = RVData(Time(t, format="mjd", scale="tcb"), np.zeros(len(t)) * unit, np.ones(len(t)) * unit,
                      t_ref=Time(T0 + r - 0.5, format="mjd", scale="tcb"))
        s = JokerSamples()
        punit = u.Unit(case.get("punit", "d"))
        s["P"] = np.array([(P * u.day).to_value(punit)]) * punit
        s["e"] = np.zeros(1)
        n = sa.phase_coverage_per_period(s, data)
        return {"id": case["id"], "kind": "perperiod", "times": sorted(case["times"]), "P": P, "r": r, "n": int(n)}
    data = RVData(Time(t, format="mjd", scale="tcb"), np.zeros(len(t)) * unit, np.ones(len(t)) * unit)
    s = JokerSamples()
    Ps = list(case["Ps"])
    rnd.shuffle(Ps)
    punit = u.Unit(case.get("punit", "d"))
    s["P"] = (np.array(Ps, dtype=float) * u.day).to(punit)
    s["e"] = np.zeros(len(Ps))
    res = sa.is_P_unimodal(s, data)
    return {"id": case["id"], "kind": "unimodal", "Ps": sorted(case["Ps"]), "T": max(case["times"]) - min(case["times"]),
            "res": bool(res)}


def run(ctx, selftest=False):
    from .. import jk
    jk.load()
    quick = ctx.tier == "quick"
    ctx.rule = ("cases = every (non-empty pattern on 7 slots, P in {2,4,6,8}, t_ref offset in {-2,0,1,4}) TLC enumerates, shuffled "
                "input order, + seeded random patterns to 300 slots, even periods to 60 (given in d, yr or h) + period tables of "
                "1..12 rows against baselines to 300 d for the unimodality rule; distinct = distinct inputs; trivial = one observation")
    ctx.assumptions = ["TLC/SANY", "astropy Time/units", "even periods (no observation on a window edge)",
                       "333/106 < pi < 355/113; inputs inside that band are accepted either way"]
    ctx.model_check("DiagnosticsExtMC", "MC_DiagnosticsExt_quick.cfg" if quick else "MC_DiagnosticsExt.cfg", coverage=True)
    r = ctx.model_check("DiagnosticsExtMC", "MC_DiagnosticsExt_export.cfg", workers=1)
    rnd = random.Random(ctx.seed * 104729 + 2)
    cases = []
    for n_, v in enumerate(r.tagged("CASE")):
        c = v[1]
        if quick and n_ % 3 != ctx.seed % 3:
            continue
        cases.append({"id": "mc-%d" % n_, "kind": "perperiod", "times": sorted(c["times"]), "P": c["P"], "r": c["r"]})
    if len(cases) < 300:
        raise core.MachineryError("export produced too few cases (%d)" % len(cases))
    ctx.exhaustive = not quick
    for j in range(200 if quick else 3000):
        T = rnd.choice([5, 12, 40, 300])
        times = rnd.sample(range(T), rnd.randint(1, min(T, 40)))
        if rnd.random() < 0.3:
            times += [rnd.choice(times) for _ in range(rnd.randint(1, 3))]
        P = rnd.choice([2, 4, 6, 8, 10, 12, 16, 32, 60])
        cases.append({"id": "rnd-%d" % j, "kind": "perperiod", "times": times, "P": P, "r": rnd.randint(-3, max(times)),
                      "punit": rnd.choice(["d", "d", "yr", "h"])})
    for j in range(200 if quick else 3000):
        T = rnd.choice([5, 12, 40, 300])
        times = rnd.sample(range(T), rnd.randint(2, min(T, 20)))
        base = rnd.choice([3, 10, 50, 200, 1000])
        Ps = [base + rnd.randint(0, rnd.choice([0, 1, 2, 5, 40])) for _ in range(rnd.randint(1, 12))]
        cases.append({"id": "uni-%d" % j, "kind": "unimodal", "times": times, "Ps": Ps, "punit": rnd.choice(["d", "d", "yr", "h"])})
    traces = core.pmap(execute, cases, procs=8 if quick else 16, chunksize=32)
    for c in cases:
        ctx.count()
        if len(set(c["times"])) > 1:
            ctx.nontrivial((c["kind"], sorted(c["times"]), c.get("P"), c.get("r"), c.get("Ps")))
    ctx.notes["unimodal_true"] = sum(1 for t in traces if t["kind"] == "unimodal" and t["res"])
    ctx.notes["unimodal_false"] = sum(1 for t in traces if t["kind"] == "unimodal" and not t["res"])
    ctx.notes["perperiod_histogram"] = {str(k): sum(1 for t in traces if t["kind"] == "perperiod" and t["n"] == k) for k in range(0, 8)}
    ctx.sample(traces[0]); ctx.sample(traces[-1])
    verdicts = ctx.validate("DiagnosticsExtTrace", traces)
    ctx.judge(traces, verdicts)
    if selftest or not quick:
        import copy
        muts = []
        for i, t in enumerate([t for t in traces if t["kind"] == "perperiod"][:3]):
            a = copy.deepcopy(t); a["id"] = "st-%d" % i; a["n"] += 1; muts.append((a, "X02.PerPeriodIsFullestPeriodLongWindow"))
        for i, t in enumerate([t for t in traces if t["kind"] == "unimodal" and len(set(t["Ps"])) == 1][:2]):
            a = copy.deepcopy(t); a["id"] = "st-u%d" % i; a["res"] = False; muts.append((a, "X02.UnimodalRule"))
        v = ctx.validate("DiagnosticsExtTrace", [m for m, _ in muts])
        ctx.traces_validated -= len(muts)
        bad = [(m["id"], v[m["id"]]) for m, exp in muts if v[m["id"]]["ok"] or v[m["id"]]["clause"] != exp]
        if bad or len(muts) < 4:
            raise core.MachineryError("selftest: corrupted traces not rejected as expected: %r" % bad[:3])
        ctx.notes["selftest_corruptions_rejected"] = len(muts)


def replay(ctx, path):
    import json
    from .. import jk
    jk.load()
    rec = json.load(open(path))
    v = ctx.validate("DiagnosticsExtTrace", [rec["case"]])
    print("recorded trace re-validated:", v)
    return 0 if v[rec["case"]["id"]]["ok"] else 1
