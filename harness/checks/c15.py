"""C15 - RVData preserves the observations it is given.

spec: RVData (declarative clauses), RVDataAlg (Mask;Sort;SetTRef, refines RVData; enumerates inputs)
binding: every input TLC enumerates is built with the real constructor (float BMJD / Time, km/s / m/s, 1-D errors /
covariance, three t_ref modes) followed by copy() and slices; recorded traces (also seeded random ones with up to
200 observations) are validated by the RVDataTrace monitor.  Identity of each value is encoded in the value:
rv = id, err = id/8, cov[i][j] = 1000 i + j, t = 55000 + small integer."""
import random
from fractions import Fraction

import numpy as np

from .. import core

LEVEL = "model_checking"
T0 = 55000


def _build(case):
    import astropy.units as u
    from astropy.time import Time
    from thejoker import RVData
    obs = case["obs"]
    unit = u.Unit(case["unit"])
    t = np.array([T0 + o["t"] if o["tfin"] else (np.nan if o["id"] % 2 else np.inf) for o in obs], dtype=float)
    rv = np.array([o["id"] if o["rvfin"] else (np.nan if o["id"] % 2 else -np.inf) for o in obs], dtype=float)
    if case["hascov"]:
        n = len(obs)
        err = np.array([[1000.0 * obs[a]["id"] + obs[b]["id"] for b in range(n)] for a in range(n)])
        for a in range(n):
            if not obs[a]["errfin"]:
                err[a, a] = np.nan
        err = err * unit**2
    else:
        err = np.array([o["id"] / 8.0 if o["errfin"] else (np.nan if o["id"] % 2 else np.inf) for o in obs]) * unit
    kw = {}
    if case["trefmode"] == "explicit":
        kw["t_ref"] = Time(T0 + case["trefin"], format="mjd", scale="tcb")
    elif case["trefmode"] == "false":
        kw["t_ref"] = False
    tin = Time(t, format="mjd", scale="tcb") if case["tinput"] == "time" and np.all(np.isfinite(t)) else t
    return RVData(tin, rv * unit, err, clean=case["clean"], **kw)


def _project(data, case, src_obs):
    """abstract state of a real RVData: rows [t, rvid, errid], t_ref, units, cov identity, ivar rationals"""
    byid = {o["id"]: o for o in src_obs}
    rows = []
    tb = np.asarray(data._t_bmjd, dtype=float)
    rvv = np.asarray(data.rv.value, dtype=float)
    n = len(rvv)
    hascov = case["hascov"]
    if hascov:
        ev = np.asarray(data.rv_err.value, dtype=float)
    else:
        ev = np.asarray(data.rv_err.value, dtype=float)
    for k in range(n):
        rvid = int(round(rvv[k])) if np.isfinite(rvv[k]) else None
        if hascov:
            d = ev[k, k]
            errid = int(round(d)) // 1000 if np.isfinite(d) else None
            if errid is not None and int(round(d)) != 1001 * errid:
                errid = 0
        else:
            errid = int(round(ev[k] * 8)) if np.isfinite(ev[k]) else None
            if errid is not None and abs(ev[k] * 8 - errid) > 1e-9:
                errid = 0
        # a non-finite component can only be identified through its partner: it is accepted as "the same observation"
        # iff that observation's input component was non-finite as well
        if rvid is None:
            rvid = errid if (errid in byid and not byid[errid]["rvfin"]) else 0
        if errid is None:
            errid = rvid if (rvid in byid and not byid[rvid]["errfin"]) else 0
        if rvid is None:
            rvid = 0
        if errid is None:
            errid = 0
        if np.isfinite(tb[k]):
            tt = tb[k] - T0
            tv = int(round(tt)) if abs(tt - round(tt)) < 1e-7 else 99999
        else:
            tv = 0
        rows.append({"t": tv, "rvid": rvid, "errid": errid})
    out = {"rows": rows, "unit": data.rv.unit.to_string(), "cov": [], "ivnum": [], "ivden": [], "ernum": [], "erden": []}
    if hascov:
        out["errunit"] = (data.rv_err.unit ** 0.5).to_string() if n >= 0 else ""
        cov = []
        for a in range(n):
            r = []
            for b in range(n):
                x = ev[a, b]
                if np.isfinite(x):
                    r.append([int(round(x)) // 1000, int(round(x)) % 1000])
                else:
                    r.append([rows[a]["rvid"], rows[b]["rvid"]] if a == b else [0, 0])
            cov.append(r)
        out["cov"] = cov
    else:
        out["errunit"] = data.rv_err.unit.to_string()
        iv = np.asarray(data.ivar.to_value(1 / data.rv_err.unit**2), dtype=float)
        for k in range(n):
            if np.isfinite(ev[k]) and np.isfinite(iv[k]) and ev[k] != 0:
                f = Fraction(float(iv[k])).limit_denominator(10**6)
                g = Fraction(float(ev[k])).limit_denominator(10**4)
                if abs(float(f) - iv[k]) > 1e-9 * abs(iv[k]):
                    f = Fraction(0, 1)
                out["ivnum"].append(f.numerator); out["ivden"].append(f.denominator)
                out["ernum"].append(g.numerator); out["erden"].append(g.denominator)
    if data.t_ref is None:
        out["trefnone"] = True
        out["tref"] = 0
    else:
        out["trefnone"] = False
        v = float(data.t_ref.tcb.mjd) - T0
        out["tref"] = int(round(v)) if np.isfinite(v) and abs(v - round(v)) < 1e-7 else 99999
    return out


_EMPTY = {"rows": [], "unit": "", "errunit": "", "cov": [], "ivnum": [], "ivden": [], "ernum": [], "erden": [], "trefnone": True, "tref": 0}


def execute(case):
    import astropy.units as u
    obs = case["obs"]
    errunit_in = u.Unit(case["unit"]).to_string()
    ev0 = {"ev": "Construct", "obs": obs, "clean": case["clean"], "trefmode": case["trefmode"], "trefin": case.get("trefin", 0),
           "unit": u.Unit(case["unit"]).to_string(), "errunit": errunit_in, "hascov": case["hascov"], "raised": False}
    try:
        data = _build(case)
        ev0["out"] = _project(data, case, obs)
    except Exception as ex:     # every case holds at least one finite observation: the constructor must accept it
        ev0["raised"] = True
        ev0["exc"] = repr(ex)[:200]
        ev0["out"] = dict(_EMPTY)
        return {"id": case["id"], "events": [ev0]}
    events = [ev0]
    n = len(data)
    for op in case.get("ops", []):
        if op[0] == "copy":
            try:
                c = data.copy()
                events.append({"ev": "Copy", "raised": False, "out": _project(c, case, obs)})
            except Exception as ex:
                events.append({"ev": "Copy", "raised": True, "exc": repr(ex)[:200], "out": dict(_EMPTY)})
        elif op[0] == "slice" and n > 0:
            kind, arg = op[1], op[2]
            if kind == "slice":
                key = slice(*arg)
            elif kind == "idx":
                key = np.array([a % n for a in arg], dtype=int)
                _, first = np.unique(key, return_index=True)
                key = key[np.sort(first)]
            else:
                key = np.array([bool(arg[k % len(arg)]) for k in range(n)])
            sel = np.arange(n)[key]
            if len(sel) == 0:
                continue
            try:
                s = data[key]
                events.append({"ev": "Slice", "raised": False, "sel": [int(x) + 1 for x in sel], "out": _project(s, case, obs)})
            except Exception as ex:
                events.append({"ev": "Slice", "raised": True, "exc": repr(ex)[:200], "sel": [int(x) + 1 for x in sel], "out": dict(_EMPTY)})
    return {"id": case["id"], "events": events}


LATTICE_COV = [
    [[2, 1], [1, 1]], [[1, 2], [2, 5]], [[2, 1, 0], [1, 1, 0], [0, 0, 1]], [[3, 1, 0], [1, 1, 1], [0, 1, 2]],
    [[1, 0, 0], [0, 1, 0], [0, 0, 1]], [[5, 2], [2, 1]],
]


def ivar_case(k, cid, rnd):
    """covariance = (integer unimodular matrix) * scale in (km/s)^2 or (m/s)^2; ivar * scale must be its integer inverse"""
    import astropy.units as u
    from thejoker import RVData
    base = np.array(LATTICE_COV[k % len(LATTICE_COV)], dtype=float)
    n = len(base)
    scale = [1.0, 2.0 ** -34, 2.0 ** -14, 2.0 ** 20, 2.0 ** -4][(k // len(LATTICE_COV)) % 5]
    unit = [u.km / u.s, u.m / u.s][(k // 3) % 2]
    t = np.array(rnd.sample(range(1, 10), n), dtype=float) + T0
    d = RVData(t, np.arange(1, n + 1) * unit, base * scale * unit**2)
    iv = np.asarray(d.ivar.to_value(1 / unit**2), dtype=float) * scale
    cv = np.asarray(d.cov.to_value(unit**2), dtype=float) / scale
    exact = bool(np.all(np.abs(iv - np.round(iv)) < 1e-7) and np.all(np.abs(cv - np.round(cv)) < 1e-7))
    return {"id": cid, "events": [{"ev": "Ivar", "cov": np.round(cv).astype(int).tolist(), "ivar": np.round(iv).astype(int).tolist(),
                                   "exact": exact, "scale": scale, "unit": unit.to_string()}]}


def _ops(rnd, n):
    ops = [("copy",)]
    ops.append(("slice", "slice", rnd.choice([(0, None, 2), (1, None, 1), (None, max(1, n - 1), 1), (None, None, -1), (0, 1, 1)])))
    ops.append(("slice", "idx", [rnd.randint(0, 50) for _ in range(rnd.randint(1, 4))]))
    ops.append(("slice", "mask", [rnd.random() < 0.6 for _ in range(5)]))
    return ops


def run(ctx, selftest=False):
    from .. import jk
    jk.load()
    quick = ctx.tier == "quick"
    ctx.rule = ("cases = every (observations<=3, times in {1,2}, one non-finite component per observation, clean) TLC enumerates, "
                "each built with rotating (t_ref mode, unit, 1-D/covariance, float/Time input) + copy + 3 slices; plus seeded "
                "random cases to 200 observations; distinct = distinct (obs pattern, clean, trefmode, hascov, unit); "
                "trivial = single observation")
    ctx.assumptions = ["TLC/SANY", "astropy Time/units", "identity of a value is recovered from the value (rv=id, err=id/8)"]
    ctx.model_check("RVDataAlg", "MC_RVDataAlg.cfg" if quick else "MC_RVDataAlg_thorough.cfg", coverage=True)
    r = ctx.model_check("RVDataAlg", "MC_RVDataAlg_export.cfg", workers=1)
    rnd = random.Random(ctx.seed * 104729 + 15)
    cases = []
    combos = [(tm, un, hc, ti) for tm in ("default", "explicit", "false") for un in ("km/s", "m/s") for hc in (False, True)
              for ti in ("float", "time")]
    k = 0
    for v in r.tagged("CASE"):
        c = v[1]
        obs = [dict(o) for o in c["obs"]]
        if not any(o["tfin"] and o["rvfin"] and o["errfin"] for o in obs) and c["clean"]:
            continue   # nothing finite: constructor has no observation to hold (t.min() of nothing) - outside the property
        per = combos if not quick else [combos[(k + j * 7) % len(combos)] for j in range(3)]
        for (tm, un, hc, ti) in per:
            if not c["clean"] and hc and any(not o["errfin"] for o in obs):
                continue   # non-finite covariance kept on purpose: ivar undefined, nothing to compare
            cases.append({"id": "mc-%d" % k, "obs": obs, "clean": c["clean"], "trefmode": tm, "trefin": rnd.choice([0, 1, 2, 5]),
                          "unit": un, "hascov": hc, "tinput": ti, "ops": _ops(rnd, len(obs))})
            k += 1
    if k < 200:
        raise core.MachineryError("export produced too few cases (%d)" % k)
    ctx.exhaustive = True
    nrand = 150 if quick else 2500
    for j in range(nrand):
        n = rnd.choice([1, 2, 3, 5, 8, rnd.randint(2, 40), rnd.randint(2, 200)])
        hc = rnd.random() < 0.3 and n <= 25
        clean = rnd.random() < 0.7
        obs = []
        for i in range(1, n + 1):
            bad = rnd.random() < 0.25
            which = rnd.choice(["t", "rv", "err"]) if bad else ""
            if not clean and which == "t":
                which = "rv"
            if not clean and hc and which == "err":
                which = ""
            obs.append({"id": i, "t": rnd.randint(0, max(2, n // 2)), "tfin": which != "t", "rvfin": which != "rv", "errfin": which != "err"})
        if not any(o["tfin"] and o["rvfin"] and o["errfin"] for o in obs):
            obs[0].update(tfin=True, rvfin=True, errfin=True)
        cases.append({"id": "rnd-%d" % j, "obs": obs, "clean": clean, "trefmode": rnd.choice(["default", "explicit", "false"]),
                      "trefin": rnd.randint(-3, 9), "unit": rnd.choice(["km/s", "m/s", "pc/yr"]), "hascov": hc,
                      "tinput": rnd.choice(["float", "time"]), "ops": _ops(rnd, n)})
    traces = core.pmap(execute, cases, procs=8 if quick else 16, chunksize=16)
    for c, t in zip(cases, traces):
        ctx.count()
        if len(c["obs"]) > 1:
            ctx.nontrivial(("c", [(o["t"], o["tfin"], o["rvfin"], o["errfin"]) for o in c["obs"]], c["clean"], c["trefmode"], c["hascov"], c["unit"]))
    for j in range(60 if quick else 240):
        traces.append(ivar_case(j, "ivar-%d" % j, rnd))
        ctx.count()
    ctx.sample(traces[0]); ctx.sample(traces[-1])
    verdicts = ctx.validate("RVDataTrace", traces)
    ctx.judge(traces, verdicts, families=("C15.",))
    # the data set under every short HISTORY of calls (spec/History.tla): plotting, merging, slicing, a second construction from the
    # caller's own arrays - the observations, their pairing and the reference epoch may depend on the content only
    from .. import history
    history.check(ctx, "data", {"C15"}, ("C15.", "H."), selftest=selftest)
    if selftest or not quick:
        _selftest(ctx, traces)


def _selftest(ctx, traces):
    import copy
    muts = []
    pool = [t for t in traces if t["events"][0]["ev"] == "Construct" and len(t["events"][0]["out"]["rows"]) >= 2
            and not t["events"][0]["hascov"] and len({r["t"] for r in t["events"][0]["out"]["rows"]}) >= 2][:4]
    for i, t in enumerate(pool):
        a = copy.deepcopy(t); a["id"] = "st-pair-%d" % i
        r = a["events"][0]["out"]["rows"]; r[0]["errid"], r[1]["errid"] = r[1]["errid"], r[0]["errid"]
        a["events"] = a["events"][:1]; muts.append((a, "C15.Pairing"))
        b = copy.deepcopy(t); b["id"] = "st-order-%d" % i
        b["events"] = b["events"][:1]; b["events"][0]["out"]["rows"].reverse(); muts.append((b, "C15.OrderedByTime"))
        c = copy.deepcopy(t); c["id"] = "st-drop-%d" % i
        c["events"] = c["events"][:1]; c["events"][0]["out"]["rows"].pop(); muts.append((c, "C15.ExactlyTheFiniteObservations"))
    v = ctx.validate("RVDataTrace", [m for m, _ in muts])
    ctx.traces_validated -= len(muts)
    bad = [(m["id"], exp, v[m["id"]]) for m, exp in muts if v[m["id"]]["ok"] or v[m["id"]]["clause"] != exp]
    if bad or not muts:
        raise core.MachineryError("selftest: corrupted traces not rejected as expected: %r" % bad[:3])
    ctx.notes["selftest_corruptions_rejected"] = len(muts)


def replay(ctx, path):
    import json
    from .. import jk
    jk.load()
    rec = json.load(open(path))
    t = rec["case"]
    v = ctx.validate("RVDataTrace", [t])
    print("recorded trace re-validated:", v)
    return 0 if v[t["id"]]["ok"] else 1
