"""X01 (extension, not a listed property) - RVData.guess_from_table / guess_time_format follow the TableGuess decision table.

spec: TableGuess (which column supplies time / velocity / uncertainty, which format and scale are assumed, when the call raises),
TableGuessMC (every subset of <= 5 names of a 15-name vocabulary x value class of a bare time column; three invariants).
binding: every case TLC enumerates is built as a real astropy Table (each column filled with values that identify it), passed to
RVData.guess_from_table with a recording stand-in for thejoker.data.Time, and the chosen columns / format / scale are validated
by the TableGuessTrace monitor; guess_time_format gets arrays mixing jd-like, mjd-like and other values."""
import random

import numpy as np

from .. import core

LEVEL = "model_checking"
JD0, MJD0 = 2455197.5, 55197.0


def execute(case):
    import astropy.units as u
    from astropy.table import Table
    from astropy.time import Time
    import thejoker.data as tjd
    from thejoker.data_helpers import guess_time_format
    if case["kind"] == "format":
        vals = {"jd": JD0, "mjd": MJD0, "other": 12.0}
        arr = np.array([vals[c] + 3.0 * k for k, c in enumerate(case["classes"])])
        tr = {"id": case["id"], "kind": "format", "classes": case["classes"], "raised": False, "fmt": ""}
        try:
            tr["fmt"] = str(guess_time_format(arr if len(arr) > 1 or case.get("array") else float(arr[0])))
        except Exception as ex:
            tr["raised"] = True
            tr["exc"] = repr(ex)[:120]
        return tr
    cols = list(case["cols"])
    rnd = random.Random(case["id"])
    rnd.shuffle(cols)
    n = 3
    tbl = Table()
    names = {}
    tbase = {"jd": JD0, "mjd": MJD0, "other": 12.0}[case["tclass"]]
    for j, c in enumerate(cols):
        shown = c.upper() if rnd.random() < 0.3 else c          # the decision is on lower-cased names
        names[c] = shown
        if c in ("t", "time"):
            tbl[shown] = tbase + 100.0 * j + np.arange(n)
        elif c in ("jd", "bjd"):
            tbl[shown] = JD0 + 100.0 * j + np.arange(n)
        elif c in ("mjd", "bmjd"):
            tbl[shown] = MJD0 + 100.0 * j + np.arange(n)
        else:
            tbl[shown] = (1000.0 * (j + 1) + np.arange(n)) * u.km / u.s
    seen = {}

    class RecTime(Time):
        def __new__(cls, val, *a, **kw):
            if not seen:
                seen["val"] = np.array(val, dtype=float).copy() if not isinstance(val, Time) else None
                seen["kw"] = dict(kw)
            return Time.__new__(cls, val, *a, **kw)
    old = tjd.Time
    tjd.Time = RecTime
    tr = {"id": case["id"], "kind": "table", "cols": sorted(case["cols"]), "tclass": case["tclass"], "raised": False,
          "tcol": "none", "rvcol": "none", "errcol": "none", "fmt": "none", "scale": "none"}
    try:
        d = tjd.RVData.guess_from_table(tbl)
        first = {c: float(np.asarray(getattr(tbl[names[c]], "value", tbl[names[c]]))[0]) for c in cols}
        tv = float(np.min(seen["val"])) if seen.get("val") is not None else None
        tr["tcol"] = next((c for c in cols if tv is not None and abs(first[c] - tv) < 1e-6), "none")
        rv0 = float(np.min(d.rv.to_value(u.km / u.s)))
        er0 = float(np.min(d.rv_err.to_value(u.km / u.s)))
        tr["rvcol"] = next((c for c in cols if abs(first[c] - rv0) < 1e-6), "none")
        tr["errcol"] = next((c for c in cols if abs(first[c] - er0) < 1e-6), "none")
        tr["fmt"] = str(seen["kw"].get("format", "none"))
        tr["scale"] = str(seen["kw"].get("scale", "utc"))
    except Exception as ex:
        tr["raised"] = True
        tr["exc"] = repr(ex)[:160]
    finally:
        tjd.Time = old
    return tr


def run(ctx, selftest=False):
    from .. import jk
    jk.load()
    quick = ctx.tier == "quick"
    ctx.rule = ("cases = every (subset of <= 5 of 15 column names, value class of a bare time column) TLC enumerates (quick: every 6th), "
                "column order shuffled, names randomly upper-cased; + guess_time_format on arrays of jd / mjd / other values; "
                "distinct = distinct (column set, class); trivial = the empty table")
    ctx.assumptions = ["TLC/SANY", "astropy Table/Time", "columns identified through their distinct values"]
    ctx.model_check("TableGuessMC", "MC_TableGuess.cfg", coverage=True)
    r = ctx.model_check("TableGuessMC", "MC_TableGuess_export.cfg", workers=1)
    cases = []
    for n_, v in enumerate(r.tagged("CASE")):
        c = v[1]
        if quick and n_ % 6 != ctx.seed % 6:
            continue
        cases.append({"id": "mc-%d" % n_, "kind": "table", "cols": sorted(c["cols"]), "tclass": c["tclass"]})
    if len(cases) < 500:
        raise core.MachineryError("export produced too few cases (%d)" % len(cases))
    ctx.exhaustive = not quick
    rnd = random.Random(ctx.seed * 7919 + 1)
    for j in range(60 if quick else 600):
        k = rnd.randint(1, 5)
        cl = [rnd.choice(["jd", "mjd", "other"]) if rnd.random() < 0.4 else rnd.choice(["jd", "mjd"]) for _ in range(k)]
        if rnd.random() < 0.5:
            cl = [cl[0]] * k
        cases.append({"id": "fmt-%d" % j, "kind": "format", "classes": cl, "array": rnd.random() < 0.5})
    traces = core.pmap(execute, cases, procs=8 if quick else 16, chunksize=64)
    for c in cases:
        ctx.count()
        if c["kind"] == "format" or c["cols"]:
            ctx.nontrivial((c["kind"], c.get("cols"), c.get("tclass"), c.get("classes")))
    ctx.notes["calls_that_succeeded"] = sum(1 for t in traces if not t["raised"])
    if ctx.notes["calls_that_succeeded"] < 50:
        raise core.MachineryError("too few successful guess_from_table calls: the binding would be vacuous")
    ctx.sample(next(t for t in traces if t["kind"] == "table" and not t["raised"])); ctx.sample(traces[-1])
    verdicts = ctx.validate("TableGuessTrace", traces)
    ctx.judge(traces, verdicts)
    if selftest or not quick:
        import copy
        ok = [t for t in traces if t["kind"] == "table" and not t["raised"]][:3]
        muts = []
        for i, t in enumerate(ok):
            a = copy.deepcopy(t); a["id"] = "st-%d" % i; a["fmt"] = "jd" if t["fmt"] == "mjd" else "mjd"
            muts.append((a, "X01.TimeFormat"))
        v = ctx.validate("TableGuessTrace", [m for m, _ in muts])
        ctx.traces_validated -= len(muts)
        bad = [(m["id"], v[m["id"]]) for m, exp in muts if v[m["id"]]["ok"] or v[m["id"]]["clause"] != exp]
        if bad or not muts:
            raise core.MachineryError("selftest: corrupted traces not rejected as expected: %r" % bad[:3])
        ctx.notes["selftest_corruptions_rejected"] = len(muts)


def replay(ctx, path):
    import json
    from .. import jk
    jk.load()
    rec = json.load(open(path))
    t = execute(rec["case"]) if "cols" in rec["case"] or "classes" in rec["case"] else rec["case"]
    v = ctx.validate("TableGuessTrace", [t])
    print("case re-executed and re-validated:", v)
    return 0 if v[t["id"]]["ok"] else 1
