"""C07 - physical results are invariant under the choice of units.

spec: Gauss states the kernel's state in PHYSICAL units only, so every unit assignment of one configuration must project
to the same exact matrices (GaussTrace clauses re-labelled C07.*); Twin events compare rejection_sample on two unit
twins of one physical problem with equal seeds.
binding: each structural point is realised in several random unit assignments - data in km/s or m/s, each prior scale in
km/s or m/s, trend slopes per day or per year, period prior in d / 8 d / d/8, P0 in d / yr / 8 d, sample columns in d/yr,
rad/deg, km/s / m/s - and the marginal state (B, b, value incl. the Jacobian constant N ln(ratio)), the posterior-draw
state (Ainv, rhs, emitted columns with their units) and the orbit are compared with the single physical specification."""
import random

import numpy as np

from .. import core
from .. import gauss_driver as gd
from . import c01

LEVEL = "model_checking"
FAM = {"kernel": "C07k", "draw": "C07d", "orbit": "C07o"}


def twin_case(case):
    """rejection_sample on two unit twins of one physical problem (same seed): same accepted rows, physically equal output"""
    import astropy.units as u
    from thejoker import JokerSamples, TheJoker
    g, uaA, uaB = case["g"], case["uaA"], case["uaB"]
    ev = {"ev": "Twin", "fam": "C07t", "raised": False, "idsA": [], "idsB": [], "lloffsetok": False, "physeq": False, "kf": ""}
    events = [{"ev": "Cfg", "g": g, "ua": uaA, "uaB": uaB}]
    kms = u.km / u.s
    try:
        outs = []
        for ua in (uaA, uaB):
            data, prior, target, decoy, order, slot_names = gd.build(g, ua, "sampled")
            # library: lattice rows around the target (different omega / M0 / e / period)
            rows = []
            rnd = random.Random(case["seed"])
            lib = JokerSamples(poly_trend=g["poly"], n_offsets=g["noff"])
            M = 8
            P = np.array([2.0 * g["ph"] * rnd.choice([1, 2, 3]) for _ in range(M)])
            P = P + np.arange(M) * 1e-3            # rows identifiable by their period
            lib["P"] = (P * u.day).to(gd.U(ua["sP"]))
            lib["e"] = np.array([rnd.choice([0.0, 0.6, 0.8, 0.3]) for _ in range(M)])
            lib["omega"] = (np.array([rnd.choice([0.0, np.pi, 1.0, 2.5]) for _ in range(M)]) * u.rad).to(gd.U(ua["sang"]))
            lib["M0"] = (np.array([rnd.choice([0.0, np.pi, 0.7, 4.0]) for _ in range(M)]) * u.rad).to(gd.U(ua["sang"]))
            lib["s"] = (np.array([rnd.choice([0.0, 1.0, 2.0]) for _ in range(M)]) * kms).to(gd.U(ua["ss"]))
            joker = TheJoker(prior, rng=np.random.default_rng(case["seed"]))
            with np.errstate(all="ignore"):
                samples, lls = joker.rejection_sample(data, lib, return_all_logprobs=True, in_memory=case["inmem"], n_linear_samples=1)
            ratio = (1 * kms).to_value(gd.U(ua["data"]))
            ids = [int(round((p - np.floor(p)) * 1e3)) + 1 for p in np.atleast_1d(samples["P"].to_value(u.day))]
            names = ["K"] + slot_names
            phys = []
            for nm in names:
                power = int(nm[1:]) if nm.startswith("v") and not nm.startswith("dv") else 0
                pu = kms / u.day ** power if power else kms
                phys.append(np.atleast_1d(samples[nm].to_value(pu)))
            outs.append({"ids": ids, "lls": np.asarray(lls, dtype=float) + g["N"] * np.log(ratio), "phys": np.array(phys)})
        ev["idsA"], ev["idsB"] = outs[0]["ids"], outs[1]["ids"]
        a, b = outs[0]["lls"], outs[1]["lls"]
        fin = np.isfinite(a) & np.isfinite(b)
        ev["lloffsetok"] = bool(np.all(np.isfinite(a) == np.isfinite(b)) and np.allclose(a[fin], b[fin], rtol=1e-9, atol=1e-8))
        if ev["idsA"] == ev["idsB"]:
            # equal seeds give equal draws only where numpy's multivariate normal (an SVD of the covariance) picks the same basis in
            # both unit systems: for a row whose covariance has nearly equal singular values the basis can flip under the rescaling and
            # BOTH draws are valid draws of the same distribution (seen on 1 row of 8 in 1 of 400 thorough twins).  A unit slip shows in
            # a column of EVERY row, so: the rows must agree, except for at most a quarter of them (at least one)
            pa, pb = outs[0]["phys"], outs[1]["phys"]
            if pa.shape == pb.shape and pa.size:
                row_ok = np.all(np.isclose(pa, pb, rtol=1e-6, atol=1e-8), axis=0)
                ev["physeq"] = bool(np.sum(~row_ok) <= max(1, pa.shape[1] // 4) and (pa.shape[1] < 4 or np.sum(row_ok) >= 1))
                ev["rows_with_another_basis"] = int(np.sum(~row_ok))
            else:
                ev["physeq"] = bool(pa.shape == pb.shape)
        # known deviations that make unit twins differ (exact classes)
        if g["kkind"] == "default" and uaA["pprior"] != uaB["pprior"]:
            ev["kf"] = "KF_P0Unit"
        elif g["kkind"] == "custom" and g["noff"] > 0:
            ev["kf"] = "KF_CustomKSlot"
    except Exception as ex:
        ev["raised"] = True
        ev["exc"] = "%s: %s" % (type(ex).__name__, str(ex)[:200])
    events.append(ev)
    return {"id": case["id"], "events": events}


def run(ctx, selftest=False):
    from .. import jk
    jk.load()
    quick = ctx.tier == "quick"
    ctx.rule = ("cases = structural points TLC enumerates (quick: 160 points x 2 random unit assignments; thorough: all x 3) + rejection_sample "
                "twins (equal seed, two unit assignments of one physical problem); distinct = distinct (configuration, unit assignment); "
                "trivial = the all-base-unit assignment")
    ctx.assumptions = ["TLC/SANY", "astropy unit conversion", "projection to rationals (1e-9)", "period-prior units restricted to d, 8 d, d/8 so "
                       "that the open finding KF_P0Unit stays on the lattice and is classified exactly"]
    ctx.model_check("GaussMC", "MC_Gauss.cfg", coverage=True)
    S = c01.structs(ctx, quick)
    rnd = random.Random(ctx.seed * 45007 + 7)
    cases = []
    reps = 2 if quick else 3
    idx = list(range(len(S)))
    rnd.shuffle(idx)
    for k in idx[: (160 if quick else len(S))]:
        L = 1 + S[k]["poly"] + S[k]["noff"]
        g0, _ = gd.make_config(S[k], rnd, gd.random_units(rnd, L))
        for rep in range(reps):
            ua = gd.random_units(rnd, L)
            g, ua = gd.make_config_units(g0, ua) if hasattr(gd, "make_config_units") else (g0, ua)
            cases.append({"id": "u-%d-%d" % (k, rep), "g": g, "ua": ua, "fam": FAM, "seed": k, "jitter_kind": "sampled", "nlinear": 1 + rep,
                          "api_file": rep == 0})
    traces = core.pmap(gd.realize, cases, chunksize=4)
    tw = []
    for j, k in enumerate(idx[: (60 if quick else 400)]):
        L = 1 + S[k]["poly"] + S[k]["noff"]
        gA, uaA = gd.make_config_units(gd.make_config(S[k], rnd, None)[0], gd.random_units(rnd, L))
        gB, uaB = gd.make_config_units(gA, gd.random_units(rnd, L))
        uaB["maxK"] = uaA["maxK"]
        tw.append({"id": "tw-%d" % k, "g": gA, "uaA": uaA, "uaB": uaB, "seed": 1000 + k, "inmem": bool(j % 2)})
    traces += core.pmap(twin_case, tw, chunksize=2)
    for t in traces:
        ctx.count()
        ua = t["events"][0]["ua"]
        if ua.get("data") != "km/s" or ua.get("pprior") != "d" or ua.get("sang") != "rad":
            ctx.nontrivial(str(sorted(t["events"][0]["g"].items())) + str(sorted((k, str(v)) for k, v in ua.items())))
    ctx.sample(traces[0]); ctx.sample(traces[-1])
    # off the lattice: every random real-valued problem is posed in a random unit assignment and compared with the unit-free
    # transcription of the specification (value up to the Jacobian N ln ratio, posterior mean / covariance in physical units)
    gd.offlattice(ctx, "C07", 60 if quick else 1500, [("dev_ll", "OffLatticeValueUnitFreeUpToJacobian"),
                                                         ("dev_mean", "OffLatticePosteriorMeanPhysicallyEqual"),
                                                         ("dev_cov", "OffLatticePosteriorCovariancePhysicallyEqual")])
    verdicts = ctx.validate("GaussTrace", traces, timeout=3000)
    # every clause of the kernel / draw / orbit / twin families is a C07 clause here
    for v in verdicts.values():
        v["fails"] = [("C07." + c.split(".", 1)[1] if c.startswith("C07") else c, p, k) for (c, p, k) in v["fails"]]
    ctx.judge(traces, verdicts, families=("C07.",))
    if selftest or not quick:
        import copy
        muts = []
        for t in traces:
            k = [e for e in t["events"] if e["ev"] == "Twin" and not e["raised"] and e["idsA"]]
            if k and len(muts) < 3:
                a = copy.deepcopy(t); a["id"] = "st-%d" % len(muts)
                [e for e in a["events"] if e["ev"] == "Twin"][0]["idsB"] = []
                muts.append(a)
        v = ctx.validate("GaussTrace", muts)
        ctx.traces_validated -= len(muts)
        if not muts or any(v[m["id"]]["ok"] for m in muts):
            raise core.MachineryError("selftest: corrupted twin not rejected")
        ctx.notes["selftest_corruptions_rejected"] = len(muts)


replay = c01.replay
