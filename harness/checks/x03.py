"""X03 (extension, not a listed property) - a whole user session keeps every row tied to its library row.

spec: Session (outcome sets of rejection / iterative sampling as sets AND as membership predicates, table selections, the
write outcome table, MAP), SessionMC (the session state machine; invariants RowsTraceBack, NoImpossibleRow, BestRowHeld,
MetaIsTheDatas, DiagnosticIsMember, MAPIsBest, action properties RefusedWriteKeepsFile / FileAppendOnly; the predicates denote the
sets), SessionTrace (total monitor carrying post / file state from event to event).
binding: spec -> code: TLC simulates SessionMC and prints operation scripts; each script is executed on the real library
(TheJoker.rejection_sample / iterative_rejection_sample on the in-memory, object-cache and file paths, JokerSamples slicing /
masking / copy / wrap_K / pickle / write / append / read, MAP_sample, median_period, marginal_ln_likelihood of the held table,
get_orbit of every held row against the curve its own columns describe).
code -> spec: after every call the held table, its log-probability columns, its metadata and the samples file (read back) are
projected to library-row identities and the SessionTrace monitor validates the whole history."""
import os
import pickle
import random
import shutil
import tempfile

import numpy as np

from .. import core, fixture

LEVEL = "model_checking"
TABLE_OPS = ("front", "back", "second", "maskodd", "lastrow", "copy", "wrapk", "pickle")


def _ids_of(tbl, lib):
    import astropy.units as u
    if tbl is None or len(tbl) == 0:
        return []
    P = np.atleast_1d(tbl["P"].to_value(u.day))
    out = []
    for p in P:
        k = int(np.argmin(np.abs(lib.P - p)))
        out.append(k + 1 if abs(lib.P[k] - p) <= 1e-9 * abs(p) else 0)
    return out


def _tags(vals, ref, tol):
    out = []
    for v in np.atleast_1d(np.asarray(vals, dtype=float)):
        k = int(np.argmin(np.abs(ref - v)))
        out.append(k + 1 if abs(ref[k] - v) <= tol * max(1.0, abs(v)) else 0)
    return out


def _orbit_tags(tbl, data, prior, ids):
    """row k's tag is its library identity when get_orbit(k) gives the curve the row's OWN columns describe (reconstructed with the
    float transcription of Gauss.tla, not with twobody), 0 otherwise"""
    import astropy.units as u
    from astropy.time import Time
    from .. import gauss_oracle as go
    tt = np.array([0.0, 0.7, 3.1, 9.9, 23.3, 51.7])
    times = Time(data.t_ref.tcb.mjd + tt, format="mjd", scale="tcb")
    out = []
    for k in range(len(tbl)):
        c = {"t": list(tt), "lab": [0] * len(tt), "P": float(tbl["P"][k].to_value(u.day)), "e": float(tbl["e"][k]),
             "omega": float(tbl["omega"][k].to_value(u.rad)), "M0": float(tbl["M0"][k].to_value(u.rad)), "poly": prior.poly_trend, "noff": 0}
        x = [float(tbl["K"][k].to_value(u.km / u.s)), float(tbl["v0"][k].to_value(u.km / u.s))]
        for i in range(1, prior.poly_trend):
            x.append(float(tbl["v%d" % i][k].to_value(u.km / u.s / u.day ** i)))
        want = go.curve(c, x)
        got = tbl.get_orbit(k).radial_velocity(times).to_value(u.km / u.s)
        out.append(ids[k] if np.allclose(want, got, rtol=0, atol=1e-8 * max(1.0, float(np.max(np.abs(want))))) else 0)
    return out


def execute(case):
    import astropy.units as u
    import thejoker as tj
    from thejoker import JokerSamples
    from thejoker import samples_analysis as sa
    N = case["N"]
    rnd = random.Random(case["seed"])
    data = fixture.make_data(n=rnd.choice([6, 9]), seed=case["seed"] % 7 + 1, unit=rnd.choice(["km/s", "m/s"]))
    kind = case.get("prior", "default")
    prior = fixture.make_prior(kind)
    lib = fixture.Library(N, seed=case["seed"], lnprior=True)
    work = tempfile.mkdtemp(prefix="x03-", dir=case["workdir"])
    joker = tj.TheJoker(prior, rng=np.random.default_rng(case["seed"]), tempfile_path=os.path.join(work, "tj"))
    ref = np.asarray(joker.marginal_ln_likelihood(data, lib.samples, in_memory=True), dtype=float)
    order = np.argsort(ref)
    rank = [0] * N
    for r_, i in enumerate(order):
        rank[i] = r_ + 1
    prank = [0] * N
    for r_, i in enumerate(np.argsort(ref + lib.lnprior)):
        prank[i] = r_ + 1
    libfile = os.path.join(work, "library.hdf5")
    lib.samples.write(libfile, overwrite=True)
    path = os.path.join(work, "posterior.hdf5")
    post = None
    events = []

    def meta_of(t):
        try:
            ok = (t.t_ref is not None and abs((t.t_ref - data.t_ref).to_value(u.s)) < 1e-6
                  and t.poly_trend == prior.poly_trend and t.n_offsets == prior.n_offsets)
            return "data" if ok else "other"
        except Exception:
            return "other"

    def observe_file():
        if not os.path.exists(path):
            return {"fabsent": True, "fids": [], "fmeta": "none", "fhaslp": False}
        try:
            f = JokerSamples.read(path)
            return {"fabsent": False, "fids": _ids_of(f, lib), "fmeta": meta_of(f),
                    "fhaslp": "ln_likelihood" in f.par_names and "ln_prior" in f.par_names}
        except Exception as ex:
            return {"fabsent": False, "fids": [], "fmeta": "other", "fhaslp": False, "fexc": repr(ex)[:120]}

    def table_event(e, t):
        e["ids"] = _ids_of(t, lib)
        e["haslp"] = bool("ln_likelihood" in t.par_names and "ln_prior" in t.par_names)
        if e["haslp"] and len(t):
            e["lltag"] = _tags(t["ln_likelihood"], ref, 1e-9)
            e["lptag"] = [int(round(-1000.0 - float(x))) if abs(-1000.0 - float(x) - round(-1000.0 - float(x))) < 1e-9 else 0
                          for x in np.atleast_1d(np.asarray(t["ln_prior"], dtype=float))]
        e["meta"] = meta_of(t)

    for k, op in enumerate(case["ops"]):
        name = op[0]
        held = post is not None
        n = len(post) if held else 0
        haslp = held and "ln_likelihood" in post.par_names and "ln_prior" in post.par_names
        # the guards of the specification's actions, on the state the real session is in
        if name in TABLE_OPS and (not held or (name == "lastrow" and n == 0)):
            continue
        if name == "write" and (not held or n == 0):
            continue
        if name == "read" and not os.path.exists(path):
            continue
        if name == "map" and (not held or n == 0 or not haslp):
            continue
        if name in ("median", "marginal", "orbits") and (not held or n == 0):
            continue
        e = {"op": name, "a1": 0, "a2": 0, "a3": 0, "a4": False, "raised": False, "ids": [], "lltag": [], "lptag": [], "haslp": False,
             "meta": "none", "ret": 0, "vals": []}
        src_kind = ["object", "inmem", "file"][(k + case["seed"]) % 3]
        src = libfile if src_kind == "file" else lib.samples
        try:
            if name == "rej":
                e.update(a1=int(op[1]), a2=int(op[2]), a3=int(op[3]), a4=bool(op[4]))
                new = joker.rejection_sample(data, src, n_prior_samples=(op[1] or None), max_posterior_samples=(op[2] or None),
                                             n_linear_samples=op[3], return_logprobs=bool(op[4]), in_memory=(src_kind == "inmem"))
                post = new
                table_event(e, post)
            elif name == "iter":
                e.update(a1=int(op[1]), a2=int(op[2]))
                post = joker.iterative_rejection_sample(data, src, n_requested_samples=op[1], n_linear_samples=op[2],
                                                        init_batch_size=rnd.choice([2, 4, 8]), in_memory=(src_kind == "inmem"))
                table_event(e, post)
            elif name in TABLE_OPS:
                if name == "front":
                    new = post[:(n + 1) // 2]
                elif name == "back":
                    new = post[n // 2:]
                elif name == "second":
                    new = post[::2]
                elif name == "maskodd":
                    new = post[np.array([i % 2 == 1 for i in _ids_of(post, lib)], dtype=bool)]
                elif name == "lastrow":
                    new = post[-1]
                elif name == "copy":
                    new = post.copy()
                elif name == "wrapk":
                    new = post.wrap_K()
                else:
                    new = pickle.loads(pickle.dumps(post))
                post = new
                table_event(e, post)
            elif name == "write":
                e.update(a1=bool(op[1]), a2=bool(op[2]))
                post.write(path, overwrite=bool(op[1]), append=bool(op[2]))
            elif name == "read":
                post = JokerSamples.read(path)
                table_event(e, post)
            elif name == "map":
                row = sa.MAP_sample(post)
                e["ret"] = (_ids_of(row, lib) or [0])[0]
            elif name == "median":
                row = post.median_period()
                e["ret"] = (_ids_of(row, lib) or [0])[0]
            elif name == "marginal":
                e["vals"] = _tags(joker.marginal_ln_likelihood(data, post, in_memory=(k % 2 == 0)), ref, 1e-9)
            elif name == "orbits":
                e["vals"] = _orbit_tags(post, data, prior, _ids_of(post, lib))
        except Exception as ex:
            e["raised"] = True
            e["exc"] = "%s: %s" % (type(ex).__name__, str(ex)[:160])
        e.update(observe_file())
        events.append(e)
    shutil.rmtree(work, ignore_errors=True)
    return {"id": case["id"], "N": N, "rank": rank, "prank": prank, "events": events, "ops": case["ops"], "seed": case["seed"]}


def run(ctx, selftest=False):
    from .. import jk
    jk.load()
    quick = ctx.tier == "quick"
    ctx.rule = ("cases = operation scripts of 9 calls printed by TLC's simulation of SessionMC (quick: 400 scripts out of 120 simulated walks, thorough: every script of 1500 walks), "
                "each executed on a real library of 16-40 prior samples with the sampling calls rotating over the in-memory, "
                "object-cache and file paths; distinct = distinct (script, library seed); trivial = scripts whose real run made < 3 calls")
    ctx.assumptions = ["TLC/SANY", "rows identified through their distinct periods, log-probabilities through distinct values",
                       "each library row's reference likelihood is the in-memory value of the whole library (agreement to 1e-9)"]
    ctx.model_check("SessionMC", "MC_Session.cfg", coverage=True)
    r = ctx.model_check("SessionMC", "MC_Session_export.cfg", workers=1, simulate="num=%d" % (120 if quick else 1500), depth=10,
                        seed=ctx.seed + 1)
    scripts = []
    seen = set()
    for v in r.tagged("CASE"):
        ops = [list(o) for o in v[1]]
        key = repr(ops)
        if key not in seen:
            seen.add(key)
            scripts.append(ops)
    if len(scripts) < 50:
        raise core.MachineryError("simulation exported too few scripts (%d)" % len(scripts))
    rnd = random.Random(ctx.seed * 6151 + 3)
    if quick:
        scripts = rnd.sample(scripts, min(400, len(scripts)))
    cases = [{"id": "s-%d" % k, "ops": ops, "N": rnd.choice([16, 24, 40]), "seed": rnd.randint(1, 10**6), "workdir": ctx.workdir,
              "prior": rnd.choice(["default", "default", "trend2"])} for k, ops in enumerate(scripts)]
    traces = core.pmap(execute, cases, procs=8 if quick else 16, chunksize=4)
    hist = {}
    for t in traces:
        ctx.count()
        if len(t["events"]) >= 3:
            ctx.nontrivial((t["ops"], t["seed"]))
        for e in t["events"]:
            hist[e["op"]] = hist.get(e["op"], 0) + 1
    ctx.notes["calls_executed_by_operation"] = hist
    ctx.notes["refused_writes"] = sum(1 for t in traces for e in t["events"] if e["op"] == "write" and e["raised"])
    ctx.sample({k: v for k, v in traces[0].items()}); ctx.sample(traces[-1])
    missing = [o for o in ("rej", "iter", "write", "read", "map", "median", "marginal", "orbits") + TABLE_OPS if hist.get(o, 0) == 0]
    if missing:
        raise core.MachineryError("operations never executed: %s" % missing)
    verdicts = ctx.validate("SessionTrace", traces)
    ctx.judge(traces, verdicts)
    if selftest or not quick:
        import copy
        muts = []
        good = [t for t in traces if verdicts[t["id"]]["ok"]]
        for t in good:
            for j, e in enumerate(t["events"]):
                if e["op"] == "rej" and len(e["ids"]) >= 2 and len(muts) < 2:
                    a = copy.deepcopy(t); a["id"] = "st-swap-%d" % len(muts)
                    a["events"][j]["ids"] = list(reversed(a["events"][j]["ids"]))
                    if a["events"][j]["ids"] != e["ids"]:
                        muts.append((a, "X03.RejectionOutcomeAllowedByTheRule"))
                if e["op"] == "read" and e["ids"] and sum(1 for m in muts if m[1] == "X03.ReadReturnsTheFile") < 2:
                    a = copy.deepcopy(t); a["id"] = "st-read-%d" % len(muts)
                    a["events"][j]["ids"] = a["events"][j]["ids"][:-1]
                    muts.append((a, "X03.ReadReturnsTheFile"))
        if len(muts) < 2:
            raise core.MachineryError("selftest: no trace to corrupt")
        v = ctx.validate("SessionTrace", [m for m, _ in muts])
        ctx.traces_validated -= len(muts)
        bad = [(m["id"], v[m["id"]]) for m, exp in muts if v[m["id"]]["ok"] or v[m["id"]]["clause"] != exp]
        if bad:
            raise core.MachineryError("selftest: corrupted traces not rejected as expected: %r" % bad[:3])
        ctx.notes["selftest_corruptions_rejected"] = len(muts)


def replay(ctx, path):
    import json
    from .. import jk
    jk.load()
    rec = json.load(open(path))
    c = rec["case"]
    t = execute({"id": c["id"], "ops": c["ops"], "N": c["N"], "seed": c["seed"], "workdir": ctx.workdir})
    v = ctx.validate("SessionTrace", [t])
    print("script re-executed and re-validated:", v[t["id"]])
    return 0 if v[t["id"]]["ok"] else 1
