"""C09 - prior draws and reported ln_prior follow the declared densities (structural scope).

spec: PriorModel (log-uniform draw map and 1/x density on a lattice of powers of two; K-scale rule with cap; Kipping Beta
parameters; which parameters' densities make up ln_prior), PriorMC (lattice theorems, enumeration), PriorTrace (monitor).
binding: UniformLogRV.rng_fn is driven by a scripted generator and must return the lattice values; exp(logp(x) - logp(a))
must project to a/x inside the support and logp must be -inf outside; the density must integrate to one
(x ln(b/a) p(x) = 1); the sigma graph of FixedCompanionMass evaluated at lattice (P, e) - P0 given in d / yr / 8 d - must
equal the rule, capped and uncapped; Beta parameters are read from the constructed pymc variables; for
prior.sample(return_logprobs=True) the quantity ln_prior[i] - sum_p logp_p(row_i | row_i's parents) must be one constant
over the rows, and every drawn value must lie inside its support.
NOT decided (stated in MANIFEST): that numpy / pytensor samplers produce the distribution whose parameters they are given."""
import math
import random
from fractions import Fraction

import numpy as np

from .. import core
from ..gauss_driver import U, rat

LEVEL = "model_checking"


class _ScriptU:
    """scripted stand-in for the generator: whatever flat primitive the draw uses returns the lattice points u = 0, 1/4, .., 1"""

    def __init__(self, us):
        self.us = us
        self.calls = []

    def uniform(self, low=0.0, high=1.0, size=None):
        self.calls.append("uniform")
        return np.asarray(low, dtype=float) + (np.asarray(high, dtype=float) - np.asarray(low, dtype=float)) * np.array(self.us, dtype=float)

    def random(self, size=None, dtype=np.float64, out=None):
        self.calls.append("random")
        return np.array(self.us, dtype=float)


def loguniform_case(case):
    import pymc as pm
    from thejoker.distributions import UniformLog, UniformLogRV
    i, k = case["i"], case["k"]
    a, b = float(2 ** i), float(2 ** (i + 4 * k))
    tr = {"id": case["id"], "kind": "loguniform", "i": i, "k": k, "u4s": case["u4s"], "draws": [], "xs": [], "logpfinite": [], "ratios": [],
          "normok": False, "raised": False, "kf": ""}
    try:
        d = UniformLogRV.rng_fn(_ScriptU([u4 / 4.0 for u4 in case["u4s"]]), a, b, len(case["u4s"]))
        tr["draws"] = [rat(x) for x in np.atleast_1d(d)]
        xs = case["xs"]
        dist = UniformLog.dist(a, b)
        lp = np.array([float(pm.logp(dist, float(Fraction(*x))).eval()) for x in xs])
        lpa = float(pm.logp(dist, a).eval())
        tr["xs"] = xs
        tr["logpfinite"] = [bool(np.isfinite(v)) for v in lp]
        tr["ratios"] = [rat(math.exp(v - lpa)) if np.isfinite(v) and np.isfinite(lpa) else [0, 0] for v in lp]
        ins = [a <= float(Fraction(*x)) <= b for x in xs]
        norm = [abs(math.exp(v) * float(Fraction(*x)) * math.log(b / a) - 1.0) < 1e-6 for v, x, ok in zip(lp, xs, ins) if ok and np.isfinite(v)]
        tr["normok"] = bool(all(norm)) if norm else True
    except Exception as ex:
        tr["raised"] = True
        tr["exc"] = "%s: %s" % (type(ex).__name__, str(ex)[:160])
    return tr


def sigmak_case(case):
    import astropy.units as u
    import pymc as pm
    import pytensor
    import thejoker.units as xu
    from thejoker.distributions import FixedCompanionMass
    tr = {"id": case["id"], "kind": "sigmak", "sK0": case["sK0"], "p3": case["p3"], "r": case["r"], "maxK": case["maxK"], "obs": [0, 0],
          "mu": list(case.get("mu", [0, 1])), "muobs": [0, 0], "zs": [[0, 1], [1, 1], [-2, 1]], "zsq": [[0, 0]] * 3,
          "raised": False, "kf": ""}
    try:
        p3 = Fraction(*case["p3"])
        Pd = 4.0
        P0d = Pd * {Fraction(2): 8.0, Fraction(1): 1.0, Fraction(1, 2): 1 / 8.0}[p3]      # (P/P0)^(-1/3) = p3  <=>  P0 = P p3^3
        r = Fraction(*case["r"])
        e = {Fraction(1): 0.0, Fraction(4, 5): 0.6, Fraction(3, 5): 0.8}[r]
        pu, p0u, ku = U(case["punit"]), U(case["p0unit"]), U(case["kunit"])
        kms = u.km / u.s
        with pm.Model():
            P = xu.with_unit(pm.Uniform("P", 0.001, 1e5), pu)
            ev = xu.with_unit(pm.Uniform("e", 0.0, 0.99), u.one)
            mku = U(case.get("maxkunit", case["kunit"]))
            kw = {}
            if not (case.get("default_maxk") and Fraction(*case["maxK"]) == 500):
                kw["max_K"] = np.float64((float(Fraction(*case["maxK"])) * kms).to_value(mku)) * mku     # the cap in ITS OWN unit
            mu_kms = float(Fraction(*tr["mu"]))
            if mu_kms != 0.0 or case.get("explicit_mu"):
                kw["mu"] = np.float64((mu_kms * kms).to_value(ku))          # the declared mean, a bare number in K's unit
            K = FixedCompanionMass("K", P=P, e=ev, sigma_K0=np.float64((float(Fraction(*case["sK0"])) * kms).to_value(ku)) * ku,
                                   P0=np.float64((P0d * u.day).to_value(p0u)) * p0u, **kw)
            muv, sigma = K.owner.op.dist_params(K.owner)[:2]
            f = pytensor.function([P, ev], [sigma, muv], on_unused_input="ignore")
            Pv, evv = np.float64((Pd * u.day).to_value(pu)), np.float64(e)
            val, muval = [float(x) for x in f(Pv, evv)]
            # the log-density about the declared mean: -2 (ln p(mu + z sigma) - ln p(mu)) = z^2
            x = pytensor.tensor.dscalar("x")
            g = pytensor.function([x, P, ev], pm.logp(K, x), on_unused_input="ignore")
            mu_decl = float((mu_kms * kms).to_value(ku))
            lp0 = float(g(np.float64(mu_decl), Pv, evv))
            tr["zsq"] = [rat(-2.0 * (float(g(np.float64(mu_decl + float(Fraction(*z)) * val), Pv, evv)) - lp0), tol=1e-7) for z in tr["zs"]]
        tr["obs"] = rat((val * ku).to_value(kms))
        tr["muobs"] = rat((muval * ku).to_value(kms), tol=1e-7)
    except Exception as ex:
        tr["raised"] = True
        tr["exc"] = "%s: %s" % (type(ex).__name__, str(ex)[:160])
    return tr


def kipping_case(case):
    from thejoker.distributions import Kipping13Global, Kipping13Long, Kipping13Short
    cls = {"global": Kipping13Global, "short": Kipping13Short, "long": Kipping13Long}[case["which"]]
    tr = {"id": case["id"], "kind": "kipping", "which": case["which"], "alpha": [0, 0], "beta": [0, 0], "raised": False, "kf": ""}
    try:
        d = cls.dist()
        pars = d.owner.op.dist_params(d.owner)
        tr["alpha"], tr["beta"] = rat(float(pars[0].eval())), rat(float(pars[1].eval()))
        # the default prior wires the global one to e
        if case["which"] == "global":
            import astropy.units as u
            from thejoker import JokerPrior
            pr = JokerPrior.default(P_min=2 * u.day, P_max=32 * u.day, sigma_K0=30 * u.km / u.s, sigma_v=100 * u.km / u.s)
            pe = pr.pars["e"].owner.op.dist_params(pr.pars["e"].owner)
            if rat(float(pe[0].eval())) != tr["alpha"] or rat(float(pe[1].eval())) != tr["beta"]:
                tr["alpha"] = [0, 0]
    except Exception as ex:
        tr["raised"] = True
        tr["exc"] = "%s: %s" % (type(ex).__name__, str(ex)[:160])
    return tr


def lnprior_case(case):
    import astropy.units as u
    import pymc as pm
    import pytensor
    import thejoker.units as xu
    from thejoker import JokerPrior
    gl, poly, noff = case["gl"], case["poly"], case["noff"]
    skind, vu = case.get("skind", "uniform"), case.get("vunits", 1)
    tr = {"id": case["id"], "kind": "lnprior", "gl": gl, "poly": poly, "noff": noff, "sampledS": True, "cols": [], "constok": False,
          "hascol": False, "insupport": False, "kcondok": True, "raised": False, "kf": "", "skind": skind, "vunits": vu,
          "vdecl": [[30, 1]] * poly, "vobs": [[0, 0]] * poly,
          "offdecl": [[rat(0.5 * j), [2 + j, 1]] for j in range(noff)], "offobs": []}
    try:
        with pm.Model():
            offs = [xu.with_unit(pm.Normal("dv0_%d" % (j + 1), 0.5 * j, 2.0 + j), u.km / u.s) for j in range(noff)]
            if skind == "uniform":
                s = xu.with_unit(pm.Uniform("s", 0.0, 3.0), u.km / u.s)
            else:       # a non-flat jitter density (a flat one only shifts ln_prior by a constant and would hide a missing term)
                s = xu.with_unit(pm.Lognormal("s", 5.0, 0.8), u.m / u.s)
            # the same physical widths (30 km/s/d^i) declared in km/s/d^i, m/s/d^i or km/s/yr^i
            vunit = [u.km / u.s / u.day ** i for i in range(poly)] if vu == 1 else \
                    [u.m / u.s / u.day ** i for i in range(poly)] if vu == 2 else [u.km / u.s / u.yr ** i for i in range(poly)]
            sv = [np.float64((30 * u.km / u.s / u.day ** i).to_value(vunit[i])) * vunit[i] for i in range(poly)]
            prior = JokerPrior.default(P_min=case["Pmin"] * u.day, P_max=case["Pmax"] * u.day, sigma_K0=case["sK0"] * u.km / u.s,
                                       P0=case["P0"] * u.day, sigma_v=sv if poly > 1 else sv[0], poly_trend=poly, v0_offsets=offs, s=s)
        n = case["n"]
        smp = prior.sample(size=n, generate_linear=gl, return_logprobs=True, rng=np.random.default_rng(case["seed"]))
        tr["cols"] = list(smp.par_names)
        tr["hascol"] = "ln_prior" in smp.par_names
        names = [c for c in smp.par_names if c != "ln_prior"]
        # support of every drawn value
        P = smp["P"].to_value(u.day); e = np.asarray(smp["e"]); sv_ = smp["s"].to_value(u.km / u.s)
        ok = bool(np.all((P >= case["Pmin"]) & (P <= case["Pmax"])) and np.all((e >= 0) & (e <= 1))
                  and np.all((sv_ >= 0) & ((sv_ <= 3) | (skind != "uniform"))))
        # the scales that reached the model, in km/s/d^i
        for i in range(poly):
            par = prior.pars["v%d" % i]
            sd = float(par.owner.op.dist_params(par.owner)[1].eval())
            tr["vobs"][i] = rat((sd * getattr(par, xu.UNIT_ATTR_NAME)).to_value(u.km / u.s / u.day ** i), tol=1e-6)
        for j in range(noff):
            par = prior.pars["dv0_%d" % (j + 1)]
            m_, sd = [float(x.eval()) for x in par.owner.op.dist_params(par.owner)[:2]]
            un = getattr(par, xu.UNIT_ATTR_NAME)
            tr["offobs"].append([rat((m_ * un).to_value(u.km / u.s), tol=1e-6), rat((sd * un).to_value(u.km / u.s), tol=1e-6)])
        tr["insupport"] = ok
        # joint log-density of each row, every term evaluated at the row's own values (parents substituted)
        pars = prior.pars
        # build one function of all values: substitute the RVs by inputs
        inputs = [pytensor.tensor.dscalar(nm + "_val") for nm in names]
        terms = []
        for nm in names:
            try:
                lp = pm.logp(pars[nm], inputs[names.index(nm)])
            except NotImplementedError:
                continue        # uniform angle of pymc_ext: no log-density available, a constant on its support
            terms.append(lp)
        total = sum(terms)
        # parents appear in the graph as the RVs themselves: replace them by the corresponding inputs
        total = pytensor.graph.replace.graph_replace(total, {pars[nm]: inputs[names.index(nm)] for nm in names}, strict=False)
        f = pytensor.function(inputs, total, on_unused_input="ignore")
        resid = []
        for r_ in range(n):
            args = []
            for nm in names:
                col = smp[nm]
                unit = getattr(pars[nm], xu.UNIT_ATTR_NAME)
                v = col.to_value(unit)[r_] if hasattr(col, "to_value") else np.asarray(col)[r_]
                args.append(np.float64(v))
            resid.append(float(np.asarray(smp["ln_prior"])[r_]) - float(f(*args)))
        resid = np.array(resid)
        tr["constok"] = bool(np.all(np.isfinite(resid)) and np.ptp(resid) < 1e-7)
        if gl:
            # K must be a draw from N(0, sigma_K(P_row, e_row)): z = K / sigma_K(row) has unit variance for joint draws, while
            # a K conditioned on other (P, e) gives var(z) = E[sigma'^2 / sigma^2] >> 1 for a period prior spanning decades.
            big = prior.sample(size=3000, generate_linear=True, rng=np.random.default_rng(case["seed"] + 1))
            Pb = big["P"].to_value(u.day); eb = np.asarray(big["e"]); Kb = big["K"].to_value(u.km / u.s)
            sig = np.minimum(case["sK0"] * (Pb / case["P0"]) ** (-1.0 / 3.0) / np.sqrt(1 - eb**2), 500.0)
            vz = float(np.var(Kb / sig))
            tr["kcondok"] = bool(0.7 < vz < 1.4)
            tr["var_z"] = vz
        tr["resid_ptp"] = float(np.ptp(resid)) if np.all(np.isfinite(resid)) else -1.0
    except Exception as ex:
        tr["raised"] = True
        tr["exc"] = "%s: %s" % (type(ex).__name__, str(ex)[:200])
    return tr


def _exec(case):
    return {"loguniform": loguniform_case, "sigmak": sigmak_case, "kipping": kipping_case, "lnprior": lnprior_case}[case["kind"]](case)


def run(ctx, selftest=False):
    from .. import jk
    jk.load()
    quick = ctx.tier == "quick"
    ctx.rule = ("cases = every lattice case TLC enumerates: log-uniform (a = 2^i, b = a 16^k; 5 draw points, 9 evaluation points inside, on "
                "and outside the support), K-scale rule (54 points x unit variants), ln_prior composition (generate_linear x poly_trend "
                "x offsets; quick: a subset) + Kipping parameters; distinct = distinct cases; trivial = none")
    ctx.assumptions = ["TLC/SANY", "pymc/pytensor graph evaluation", "NOT decided: that numpy / pytensor Beta, Normal and uniform samplers "
                       "produce the distribution whose parameters they are given; absolute normalisation of Beta / Normal densities"]
    ctx.model_check("PriorMC", "MC_Prior.cfg", coverage=True)
    r = ctx.model_check("PriorMC", "MC_Prior_export.cfg", workers=1)
    rnd = random.Random(ctx.seed * 33331 + 9)
    cases = []
    for n_, v in enumerate(r.tagged("CASE")):
        kind, c = v[1], v[2]
        if kind == "loguniform":
            i, k = c["i"], c["k"]
            a, b = 2 ** i, 2 ** (i + 4 * k)
            xs = [[a, 1], [b, 1], [a * 2, 1], [a * 3, 1], [b, 2], [a, 2], [b * 2, 1], [a * 2 ** (2 * k), 1], [1, 3], [b + 1, 1]]
            cases.append({"id": "lu-%d" % n_, "kind": kind, "i": i, "k": k, "u4s": [0, 1, 2, 3, 4], "xs": xs})
        elif kind == "sigmak":
            if quick and (n_ + n_ // 3 + n_ // 9) % 3 != ctx.seed % 3:   # quick: a third of the (scale x cap x mean) lattice, every value of every factor
                continue
            variants = [("d", "d", "km/s", "km/s"), ("d", "yr", "m/s", "km/s"), ("oct", "d", "km/s", "m/s"), ("yr", "oct", "m/s", "m/s")]
            for j, (pu, p0u, ku, mku) in enumerate(variants if not quick else [variants[n_ % 4], variants[(n_ + 1) % 4]]):
                cases.append({"id": "sk-%d-%d" % (n_, j), "kind": kind, "sK0": list(c["sK0"]), "p3": list(c["p3"]), "r": list(c["r"]),
                              "maxK": list(c["maxK"]), "mu": list(c["mu"]), "explicit_mu": bool(n_ % 2),
                              "punit": pu, "p0unit": p0u, "kunit": ku, "maxkunit": mku,
                              "default_maxk": bool((n_ + j) % 2)})
        else:
            if quick and (c["poly"] + c["noff"] + int(c["gl"]) + c["vunits"] + int(c["skind"] == "uniform")) % 3 != 0:
                continue
            if not c["sampledS"]:
                continue
            cases.append({"id": "lp-%d" % n_, "kind": kind, "gl": c["gl"], "poly": c["poly"], "noff": c["noff"], "n": 6, "seed": n_,
                          "skind": c["skind"], "vunits": c["vunits"],
                          "Pmin": rnd.choice([1.0, 2.0]), "Pmax": rnd.choice([4096.0, 65536.0]), "sK0": rnd.choice([5.0, 30.0]),
                          "P0": rnd.choice([8.0, 365.25])})
    for w in ("global", "short", "long"):
        cases.append({"id": "kip-" + w, "kind": "kipping", "which": w})
    ctx.exhaustive = not quick
    traces = core.pmap(_exec, cases, procs=12, chunksize=1)
    for t in traces:
        ctx.count()
        ctx.nontrivial(str({k: v for k, v in t.items() if k not in ("id",)})[:400])
    ctx.sample(traces[0]); ctx.sample([t for t in traces if t["kind"] == "lnprior"][0]); ctx.sample([t for t in traces if t["kind"] == "sigmak"][0])
    verdicts = ctx.validate("PriorTrace", traces)
    ctx.judge(traces, verdicts)
    # prior.sample under every short HISTORY of calls on one prior object (spec/History.tla): the draws and the ln_prior column of a
    # call may not depend on which other combinations of generate_linear / return_logprobs were asked for before
    from .. import history
    history.check(ctx, "prior", {"C09"}, ("C09.", "H."), selftest=selftest, cap=24 if ctx.tier == "quick" else None)
    if selftest or not quick:
        import copy
        a = copy.deepcopy([t for t in traces if t["kind"] == "loguniform" and not t["raised"]][0]); a["id"] = "st-1"
        a["draws"][1] = a["draws"][2]
        v = ctx.validate("PriorTrace", [a])
        ctx.traces_validated -= 1
        if v["st-1"]["clause"] != "C09.LogUniformDrawMap":
            raise core.MachineryError("selftest: corrupted draw not rejected")
        ctx.notes["selftest_corruptions_rejected"] = 1


def replay(ctx, path):
    import json
    from .. import jk
    jk.load()
    rec = json.load(open(path))
    t = rec["case"]
    v = ctx.validate("PriorTrace", [t])
    print("recorded trace re-validated:", v[t["id"]])
    return 0 if v[t["id"]]["ok"] else 1
