"""C18 - only priors and data that satisfy the sampler's assumptions are accepted.

spec: Validation (decision tables for prior parameters and data sources, parameter order), ValidationMC (enumerates every
prior case with <=1 / <=2 defective parameters for poly_trend 1..3 x n_offsets 0..2 and every data case), ValidationTrace.
binding: each enumerated case is built with real pymc variables (status ok / const / missing / nounit / badunit /
nonnormal per parameter) and passed to JokerPrior(...); accepted priors must list parameters as nonlinear, linear,
offsets and run the kernel; data cases go through TheJoker(prior).marginal_ln_likelihood with single / list / dict /
non-iterable inputs, a non-RVData element or a covariance source; JokerPrior.default argument tables are covered too."""
import random

import numpy as np

from .. import core

LEVEL = "model_checking"
T0 = 55000
CANON = {"P": "d", "e": "", "omega": "rad", "M0": "rad", "s": "m/s", "K": "km/s", "v0": "km/s", "v1": "km/(s d)", "v2": "km/(s d2)",
         "dv0_1": "km/s", "dv0_2": "km/s"}
ALT = {"P": "yr", "omega": "deg", "M0": "deg", "s": "km/s", "K": "m/s", "v0": "m/s", "v1": "m/(s yr)", "v2": "m/(s yr2)", "dv0_1": "m/s", "dv0_2": "pc/Myr"}


def _data(n=5, seed=0, cov=False, shift=0.0):
    import astropy.units as u
    from astropy.time import Time
    from thejoker import RVData
    rng = np.random.default_rng(seed)
    t = Time(T0 + shift + np.sort(rng.uniform(0, 100, n)), format="mjd", scale="tcb")
    rv = rng.normal(0, 10, n) * u.km / u.s
    err = (np.diag(np.full(n, 1.0)) * (u.km / u.s) ** 2) if cov else np.full(n, 1.0) * u.km / u.s
    return RVData(t, rv, err)


def _samples(poly, noff, n=3):
    import astropy.units as u
    from thejoker import JokerSamples
    s = JokerSamples(poly_trend=poly, n_offsets=noff)
    s["P"] = np.array([10.0, 20.0, 33.0][:n]) * u.day
    s["e"] = np.array([0.1, 0.2, 0.3][:n])
    s["omega"] = np.array([0.5, 1.0, 2.0][:n]) * u.rad
    s["M0"] = np.array([0.1, 2.0, 4.0][:n]) * u.rad
    s["s"] = np.zeros(n) * u.km / u.s
    return s


NONNORMAL = [
    lambda pm, n: pm.Uniform(n, -5.0, 5.0), lambda pm, n: pm.HalfNormal(n, 3.0), lambda pm, n: pm.LogNormal(n, 0.0, 1.0),
    lambda pm, n: pm.TruncatedNormal(n, mu=0.0, sigma=3.0, lower=-1.0, upper=5.0), lambda pm, n: pm.SkewNormal(n, mu=0.0, sigma=3.0, alpha=2.0),
    lambda pm, n: pm.StudentT(n, nu=3.0, mu=0.0, sigma=3.0), lambda pm, n: pm.Laplace(n, 0.0, 3.0), lambda pm, n: pm.Cauchy(n, 0.0, 3.0),
]


def build_prior(poly, noff, status, alt_units=False, variant=None):
    """returns JokerPrior built through the plain constructor with the given per-parameter statuses"""
    import astropy.units as u
    import pymc as pm
    import pytensor.tensor as pt
    import thejoker.units as xu
    from thejoker import JokerPrior

    def unit_of(name):
        s = (ALT if alt_units and name in ALT else CANON)[name]
        return u.one if s == "" else u.Unit(s)
    pars = {}
    offsets = []
    with pm.Model() as model:
        for name, st in status.items():
            if st == "missing" and name.startswith("dv0"):
                # an offset cannot be "omitted" (n_offsets is the length of the list): it is present under a wrong name,
                # so the required parameter dv0_k has no prior
                offsets.append(xu.with_unit(pm.Normal("offset_" + name[-1], 0.0, 1.0), unit_of(name)))
                continue
            if st == "missing":
                continue
            linear = name in ("K", "v0", "v1", "v2") or name.startswith("dv0")
            if st == "const":
                var = pm.Deterministic(name, pt.constant(1.5))
            elif st == "nonnormal":
                fam = NONNORMAL[(len(name) + poly + noff + sum(map(ord, name))) % len(NONNORMAL)] if variant is None else NONNORMAL[variant % len(NONNORMAL)]
                var = fam(pm, name)
            elif linear:
                var = pm.Normal(name, 0.5, 3.0)
            elif name == "e":
                var = pm.Uniform(name, 0.0, 0.9)
            elif name == "P":
                var = pm.Uniform(name, 2.0, 200.0)
            else:
                var = pm.Uniform(name, 0.0, 6.0)
            if st == "nounit":
                pass
            elif st == "badunit":
                # far misses and near misses: a unit of another dimension, the canonical unit times / over an angle, a velocity
                # for a slope (1/d forgotten), an angle for the eccentricity, no angle for an angle
                can = unit_of(name)
                bads = [u.kg if name != "e" else u.m, can * u.rad, can / u.deg if name not in ("omega", "M0") else u.one,
                        can * u.day if name not in ("P",) else u.km / u.s, u.deg if name == "e" else can * u.rad ** 2]
                k = (sum(map(ord, name)) + poly + 3 * noff + (variant or 0)) % len(bads)
                bad = bads[k]
                if bad.is_equivalent(can):            # never hand over a unit that IS acceptable
                    bad = u.kg
                var = xu.with_unit(var, bad)
            else:
                var = xu.with_unit(var, unit_of(name))
            if name.startswith("dv0"):
                offsets.append(var)
            else:
                pars[name] = var
        prior = JokerPrior(pars=pars, poly_trend=poly, v0_offsets=offsets, model=model)
    return prior


def exec_prior(case):
    from thejoker import TheJoker
    tr = {"id": case["id"], "kind": "prior", "poly": case["poly"], "noff": case["noff"], "status": case["status"], "via": "JokerPrior",
          "raised": False, "names": [], "kernelok": True, "exc": ""}
    try:
        prior = build_prior(case["poly"], case["noff"], case["status"], alt_units=case.get("alt", False), variant=case.get("variant"))
        tr["names"] = list(prior.par_names)
    except Exception as ex:
        tr["raised"] = True
        tr["exc"] = "%s: %s" % (type(ex).__name__, str(ex)[:120])
        return tr
    if case.get("run_kernel"):
        try:
            data = [_data(4, seed=k, shift=10.0 * k) for k in range(case["noff"] + 1)]
            data = data[0] if case["noff"] == 0 else data
            ll = TheJoker(prior).marginal_ln_likelihood(data, _samples(case["poly"], case["noff"]), in_memory=bool(case["id"].__hash__() % 2))
            tr["kernelok"] = bool(len(ll) == 3 and np.all(np.isfinite(ll)))
        except Exception as ex:
            tr["kernelok"] = False
            tr["exc"] = "%s: %s" % (type(ex).__name__, str(ex)[:120])
    return tr


def exec_data(case):
    from thejoker import TheJoker
    noff, nsrc = case["noff"], case["nsrc"]
    status = {p: "ok" for p in ["P", "e", "omega", "M0", "s", "K", "v0"] + ["dv0_%d" % i for i in range(1, noff + 1)]}
    prior = build_prior(1, noff, status)
    srcs = [_data(4, seed=k, cov=(case["cov"] and k == nsrc - 1), shift=7.0 * k) for k in range(nsrc)]
    if case["bad"]:
        srcs[-1] = "not an RVData"
    if case["dkind"] == "single":
        data = srcs[0] if not case["cov"] else _data(4, seed=0, cov=False)
    elif case["dkind"] == "list":
        data = srcs
    elif case["dkind"] == "dict":
        data = {"s%d" % k: d for k, d in enumerate(srcs)}
    else:
        data = 5
    tr = {"id": case["id"], "kind": "data", "dkind": case["dkind"], "nsrc": nsrc, "bad": case["bad"],
          "cov": bool(case["cov"] and case["dkind"] in ("list", "dict")), "noff": noff, "raised": False, "exc": ""}
    try:
        ll = TheJoker(prior).marginal_ln_likelihood(data, _samples(1, noff), in_memory=case.get("inmem", False))
        if len(ll) != 3:
            tr["raised"] = True
    except Exception as ex:
        tr["raised"] = True
        tr["exc"] = "%s: %s" % (type(ex).__name__, str(ex)[:120])
    return tr


def exec_data_history(case):
    """two calls on ONE TheJoker with the SAME list / dict object, mutated in place in between: the second call must be
    validated like a first call (second state given by the case)"""
    from thejoker import TheJoker
    noff = case["noff"]
    status = {p: "ok" for p in ["P", "e", "omega", "M0", "s", "K", "v0"] + ["dv0_%d" % i for i in range(1, noff + 1)]}
    prior = build_prior(1, noff, status)
    joker = TheJoker(prior)
    good = [_data(4, seed=k, shift=7.0 * k) for k in range(noff + 1)]
    container = list(good) if case["dkind"] == "list" else {"s%d" % k: d for k, d in enumerate(good)}
    smp = _samples(1, noff)
    ll1 = joker.marginal_ln_likelihood(container, smp, in_memory=True)
    nsrc = noff + 1
    if case["mut"] == "grow":
        extra = _data(4, seed=9, shift=50.0)
        container.append(extra) if case["dkind"] == "list" else container.__setitem__("zz", extra)
        nsrc += 1
    elif case["mut"] == "shrink":
        container.pop() if case["dkind"] == "list" else container.pop("s%d" % noff)
        nsrc -= 1
    elif case["mut"] == "cov":
        c = _data(4, seed=8, cov=True, shift=60.0)
        if case["dkind"] == "list":
            container[-1] = c
        else:
            container["s%d" % noff] = c
    tr = {"id": case["id"], "kind": "data", "dkind": case["dkind"], "nsrc": nsrc, "bad": False, "cov": case["mut"] == "cov", "noff": noff,
          "raised": False, "exc": "", "history": case["mut"]}
    try:
        joker.marginal_ln_likelihood(container, smp, in_memory=True)
    except Exception as ex:
        tr["raised"] = True
        tr["exc"] = "%s: %s" % (type(ex).__name__, str(ex)[:120])
    return tr


def exec_default(case):
    """JokerPrior.default argument table; `accept` is what the specification's rules say for these arguments"""
    import astropy.units as u
    import pymc as pm
    import thejoker.units as xu
    from thejoker import JokerPrior
    a = case["args"]
    poly = a["poly"]
    kw = {"poly_trend": poly}
    if a["P"] == "both":
        kw.update(P_min=2 * u.day, P_max=(1 * u.yr if a.get("alt") else 300 * u.day))
    elif a["P"] == "min_only":
        kw.update(P_min=2 * u.day)
    if a["sigma_K0"]:
        kw["sigma_K0"] = 30 * u.km / u.s
    sv = a["sigma_v"]
    if sv == "scalar":
        kw["sigma_v"] = 100 * u.km / u.s
    elif sv == "list_ok":
        kw["sigma_v"] = [100 * u.km / u.s / u.day ** i for i in range(poly)]
    elif sv == "list_short":
        kw["sigma_v"] = [100 * u.km / u.s / u.day ** i for i in range(poly - 1)] if poly > 1 else []
    elif sv == "dict_ok":
        kw["sigma_v"] = {"v%d" % i: 100 * u.km / u.s / u.day ** i for i in range(poly)}
    elif sv == "dict_missing":
        kw["sigma_v"] = {"v%d" % i: 100 * u.km / u.s / u.day ** i for i in range(poly - 1)}
    elif sv == "list_badunit":
        kw["sigma_v"] = [100 * u.kg for i in range(poly)]
    tr = {"id": case["id"], "kind": "default", "accept": case["accept"], "raised": False, "exc": "", "args": a}
    try:
        with pm.Model():
            offs = []
            for i in range(a["noff"]):
                if a["off"] == "nonnormal" and i == a["noff"] - 1:
                    offs.append(xu.with_unit(pm.Uniform("dv0_%d" % (i + 1), -1, 1), u.km / u.s))
                elif a["off"] == "nounit" and i == a["noff"] - 1:
                    offs.append(pm.Normal("dv0_%d" % (i + 1), 0, 1))
                else:
                    offs.append(xu.with_unit(pm.Normal("dv0_%d" % (i + 1), 0, 1), u.km / u.s))
            if a["s"] == "badunit":
                kw["s"] = 1 * u.kg
            elif a["s"] == "quantity":
                kw["s"] = 2 * u.m / u.s
            prior = JokerPrior.default(v0_offsets=offs, **kw)
            exp_names = ["P", "e", "omega", "M0", "s", "K"] + ["v%d" % i for i in range(poly)] + ["dv0_%d" % (i + 1) for i in range(a["noff"])]
            if list(prior.par_names) != exp_names:
                tr["raised"] = True
                tr["exc"] = "order: %s" % prior.par_names
    except Exception as ex:
        tr["raised"] = True
        tr["exc"] = "%s: %s" % (type(ex).__name__, str(ex)[:120])
    return tr


def default_cases(rnd):
    out = []
    k = 0
    for poly in (1, 2, 3):
        for P in ("both", "min_only", "none"):
            for sk in (True, False):
                for sv in ("scalar", "list_ok", "list_short", "dict_ok", "dict_missing", "none", "list_badunit"):
                    for noff, off in ((0, "ok"), (1, "ok"), (2, "nonnormal"), (1, "nounit")):
                        for s in ("none", "quantity", "badunit"):
                            if rnd.random() > 0.12:
                                continue
                            sv_ok = sv in ("list_ok", "dict_ok") or (sv == "scalar" and poly == 1)
                            accept = P == "both" and sk and sv_ok and off == "ok" and s != "badunit"
                            out.append({"id": "def-%d" % k, "accept": accept,
                                        "args": {"poly": poly, "P": P, "sigma_K0": sk, "sigma_v": sv, "noff": noff, "off": off, "s": s,
                                                 "alt": bool(k % 2)}})
                            k += 1
    return out


def _exec(case):
    return {"prior": exec_prior, "data": exec_data, "default": exec_default, "datahist": exec_data_history}[case["kindx"]](case)


def run(ctx, selftest=False):
    from .. import jk
    jk.load()
    quick = ctx.tier == "quick"
    ctx.rule = ("cases = every prior case with <=1 defective parameter (thorough: <=2) for poly_trend 1..3 x n_offsets 0..2 and every data case "
                "TLC enumerates + a seeded 12% sample of the JokerPrior.default argument table; distinct = distinct cases; trivial = "
                "the all-ok cases")
    ctx.assumptions = ["TLC/SANY", "pymc variable construction", "any exception counts as 'raises'"]
    ctx.model_check("ValidationMC", "MC_Validation.cfg" if quick else "MC_Validation_thorough.cfg", coverage=True)
    r = ctx.model_check("ValidationMC", "MC_Validation_export1.cfg" if quick else "MC_Validation_export2.cfg", workers=1)
    rnd = random.Random(ctx.seed * 22801 + 18)
    cases = []
    for k, v in enumerate(r.tagged("CASE")):
        c = v[1]
        if c["kind"] == "prior":
            st = dict(c["status"])
            ndef = sum(1 for x in st.values() if x != "ok")
            if not quick and ndef == 2 and rnd.random() > 0.35:
                continue
            cases.append({"id": "p-%d" % k, "kindx": "prior", "poly": c["poly"], "noff": c["noff"], "status": st, "alt": bool(k % 2),
                          "run_kernel": bool(c["accept"]), "spec_accept": c["accept"]})
            if ndef == 1 and "nonnormal" in st.values() and c["poly"] + c["noff"] <= (3 if quick else 9):
                for var_ in range(len(NONNORMAL)):
                    cases.append({"id": "p-%d-f%d" % (k, var_), "kindx": "prior", "poly": c["poly"], "noff": c["noff"], "status": st,
                                  "alt": bool(var_ % 2), "run_kernel": False, "variant": var_})
        else:
            for inmem in ((False,) if quick else (False, True)):
                cases.append({"id": "d-%d-%d" % (k, inmem), "kindx": "data", "dkind": c["dkind"], "nsrc": c["nsrc"], "bad": c["bad"], "cov": c["cov"],
                              "noff": c["noff"], "inmem": inmem})
    ctx.notes["cases_enumerated_by_tlc"] = len(cases)
    ctx.exhaustive = True
    for c in default_cases(rnd):
        c["kindx"] = "default"
        cases.append(c)
    kk = 0
    for noff in (1, 2):
        for dk in ("list", "dict"):
            for mut in ("grow", "shrink", "cov"):
                cases.append({"id": "dh-%d" % kk, "kindx": "datahist", "noff": noff, "dkind": dk, "mut": mut})
                kk += 1
    traces = core.pmap(_exec, cases, chunksize=4)
    for c, t in zip(cases, traces):
        ctx.count()
        if c["kindx"] != "prior" or any(x != "ok" for x in c.get("status", {}).values()):
            ctx.nontrivial((c["kindx"], str(sorted((k, str(v)) for k, v in c.items() if k not in ("id",)))))
    ctx.sample(traces[0]); ctx.sample(traces[-1]); ctx.sample([t for t in traces if t["kind"] == "data"][0])
    verdicts = ctx.validate("ValidationTrace", traces, timeout=3000)
    ctx.judge(traces, verdicts)
    # what was validated at construction stays what it was (spec/History.tla, prior kind): the parameter names and the number of
    # offsets a prior declares may not change because the caller goes on using the list of offset priors it passed in, nor
    # because of the sampling calls made on the prior
    from .. import history
    history.check(ctx, "prior", {"C18"}, ("C18.", "H."), selftest=selftest, cap=16 if ctx.tier == "quick" else None)
    # ... and a call the sampler must refuse is refused whatever the same TheJoker accepted before, and leaves it as it was
    history.check(ctx, "sampler", {"C18"}, ("C18.", "H."), cap=30 if ctx.tier == "quick" else None)
    if selftest or not quick:
        import copy
        a = copy.deepcopy([t for t in traces if t["kind"] == "prior" and t["raised"]][0]); a["id"] = "st-1"; a["raised"] = False
        v = ctx.validate("ValidationTrace", [a])
        ctx.traces_validated -= 1
        if v["st-1"]["clause"] != "C18.InvalidPriorRejected":
            raise core.MachineryError("selftest: corrupted validation trace not rejected")
        ctx.notes["selftest_corruptions_rejected"] = 1


def replay(ctx, path):
    import json
    from .. import jk
    jk.load()
    rec = json.load(open(path))
    t = rec["case"]
    v = ctx.validate("ValidationTrace", [t])
    print("recorded trace re-validated:", v[t["id"]])
    return 0 if v[t["id"]]["ok"] else 1
