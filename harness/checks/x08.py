"""X08 (extension, not a listed property) - answers depend on the content of an object, never on the history of calls made on it.

spec: History (the law, the alphabets of the three kinds of object, the property that owns each read), HistoryMC (every history of
<= MaxLen calls against an implementation that may remember; theorem ReadsAreIdeal under the invalidation discipline, violated by
the two memo mutants), HistoryProof (the same theorem for histories of any length, proved with TLAPS), HistoryTrace (total monitor).
binding: spec -> code: every history TLC enumerates (quick: every history of <= 2 calls, every read / change / read triple, a seeded
sample of the rest; thorough: every history of <= 3 calls and seeded walks to 7 calls) is replayed on a real JokerSamples / RVData /
JokerPrior; at every read a fresh twin is built from pristine inputs, the content-changing calls are replayed on it and the two
answers are compared (exceptions included).  code -> spec: the monitor recomputes the content from the calls seen and rejects an
answer that differs under the family of the property that owns the read.
The listed properties' own checks (C04, C09, C15, C17, C19) replay the histories that end in one of their reads; this extension
replays all of them."""
from .. import core, history

LEVEL = "model_checking"


def run(ctx, selftest=False):
    from .. import jk
    jk.load()
    ctx.rule = ("cases = histories of calls exported by TLC from HistoryMC (samples: 14 reads, 4 mutations, 5 derivations; data: 10 reads, "
                "5 derivations; prior: 6 reads; sampler: 5 reads, 4 draws), each replayed on a real object of 6 (thorough 12) seeded configurations; distinct = distinct "
                "(kind, history, configuration); trivial = histories of one call")
    ctx.assumptions = ["TLC/SANY", "a fresh twin built through the public constructors from regenerated inputs is a valid oracle for the "
                       "content (the constructors themselves are the subject of C15 / C17 / C09)", "answers compared to rtol 1e-11"]
    history.prove(ctx)
    n = 0
    for kind in ("samples", "data", "prior", "sampler"):
        n += history.check(ctx, kind, None, None, selftest=selftest and kind == "samples",
                           cap={"prior": 40, "sampler": 120}.get(kind, 900) if ctx.tier == "quick" else None)
    ctx.notes["histories_total"] = n


def replay(ctx, path):
    import json
    return history.replay(ctx, json.load(open(path))["case"])
