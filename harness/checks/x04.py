"""X04 (extension) - the repository's own sampler tests, validated as traces.

The tests in thejoker/tests/test_sampler.py (marginal likelihood, rejection sampling, iterative rejection sampling; 9 prior
configurations incl. offsets and trends; SerialPool and MultiPool) only assert shapes and a loose recovery of the true period.
Here every sampler call they make is recorded (harness/repotests.py) and the SamplerTrace monitor applies the clauses of C02, C05,
C06 and C14 to it.  Violations found this way are reported under the owning property by that property's thorough tier (which
validates the same traces); this check reports the whole picture."""
from .. import core, repotests

LEVEL = "model_checking"


def run(ctx, selftest=False):
    ctx.rule = ("cases = every call of TheJoker.marginal_ln_likelihood / rejection_sample / iterative_rejection_sample made by the "
                "repository's test_sampler.py (run with warnings relaxed) with a prior-samples object or file; distinct = distinct "
                "(api, path, options, returned rows); trivial = none")
    ctx.assumptions = ["TLC/SANY", "pytest run in-process with -W default -o filterwarnings=", "rows identified by distinct periods"]
    ctx.model_check("SamplerMC", "MC_Sampler.cfg")
    traces, info = repotests.collect(ctx.workdir)
    ctx.notes["repository_tests"] = info
    if len(traces) < 10:
        raise core.MachineryError("too few sampler calls recorded from the repository's tests: %r" % info)
    for t in traces:
        ctx.count()
        ctx.nontrivial([(e.get("api"), e.get("path"), e.get("nprior"), e.get("maxpost"), e.get("nlinear"), e.get("randomize"))
                        for e in t["events"] if e["ev"] == "Call"] + [tuple(e["rows"]) for e in t["events"] if e["ev"] == "Return"])
    by = {}
    for t in traces:
        c = [e for e in t["events"] if e["ev"] == "Call"][0]
        k = "%s/%s%s" % (c["api"], c["path"], "" if c["observed"] else "/worker-processes")
        by[k] = by.get(k, 0) + 1
    ctx.notes["calls_by_kind"] = by
    from .c02 import _brief
    ctx.sample(_brief(traces[0])); ctx.sample(_brief(traces[-1]))
    verdicts = ctx.validate("SamplerTrace", traces, timeout=3000)
    ctx.judge(traces, verdicts)


def replay(ctx, path):
    import json
    rec = json.load(open(path))
    v = ctx.validate("SamplerTrace", [rec["case"]])
    print("recorded trace re-validated:", v[rec["case"]["id"]]["fails"] or "accepted")
    return 0 if v[rec["case"]["id"]]["ok"] else 1
