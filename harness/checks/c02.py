"""C02 - rejection step keeps a prior sample iff exp(ll_i - max) > u_i; rows unaltered, in order; truncation at the front.

spec: Sampler (the rule, once), SamplerMC (exhaustive on likelihood / uniform classes, exports behaviours)
binding: (a) replay - behaviours exported by TLC (likelihood classes incl. ties and -inf, evaluation-order permutation,
uniform classes just below / equal / just above each ratio, max_posterior_samples, n_prior_samples, n_linear_samples) are
realised on the real sampler with an injecting kernel helper, a scripted shuffle and scripted uniforms (nextafter), on the
in-memory, object-cache and file paths; the returned rows must equal the specification's; (b) trace validation - those
runs and seeded random pass-through runs (natural likelihoods, the generator's own uniforms, libraries to 2000 rows,
random batching through a recording pool) are checked event by event by the SamplerTrace monitor."""
import os
import random
import shutil

import numpy as np

from .. import core

LEVEL = "model_checking"
FAMILIES = ("C02.",)
LLVAL = {0: -np.inf, 1: -40.0, 2: -2.0, 3: -0.5}

_G = {}


def _setup():
    from .. import fixture, jk
    jk.load()
    if "prior" not in _G:
        _G["prior"] = fixture.make_prior("default")
        _G["data"] = fixture.make_data()
        _G["libs"] = {}
    return _G


def _lib(n, lnprior=True, svar=0):
    """svar=1: a non-zero jitter column stored in m/s (the data are in km/s), so that a path that forgets to convert it shows"""
    from .. import fixture
    g = _setup()
    if (n, lnprior, svar) not in g["libs"]:
        g["libs"][(n, lnprior, svar)] = (fixture.Library(n, seed=n, lnprior=lnprior) if not svar else
                                         fixture.Library(n, seed=n, lnprior=lnprior, s_unit="m/s", s_value=2500.0))
    return g["libs"][(n, lnprior, svar)]


def run_replay_case(case):
    """one behaviour exported by TLC, realised on the real sampler"""
    from .. import sampler_driver as sd
    g = _setup()
    lib = _lib(case["n"])
    wd = os.path.join(case["workdir"], case["id"])
    os.makedirs(wd, exist_ok=True)
    inject = {r: LLVAL[c] for r, c in case["lib"].items()}
    s = sd.Session(lib, g["data"], g["prior"], seed=case["seed"], pool="rec", pool_size=2, order_seed=case["seed"],
                   inject=inject, uclasses=case["ucls"], workdir=wd)
    order = case["order"]
    ident = order == list(range(1, case["n"] + 1))
    if not ident:
        s.rec.choice_script = lambda a, size: [order[k] - 1 for k in range(int(size))]
    s.header()
    s.call("rejection", path=case["path"], nprior=case["nprior"], maxpost=case["maxpost"], nlinear=case["nlinear"],
           randomize=not ident, logprobs=True, all=True, nbatches=case["nbatches"])
    t = s.trace(case["id"])
    # the behaviour is only reproduced when the scripted order and uniforms reached the sampler through the generator calls the
    # harness can script; a sampler that draws them differently is judged by the monitor alone (expected_rows = None)
    applied = (ident or s.rec.choice_script_used) and s.rec.uscript_used
    t["expected_rows"] = case["rows"] if applied else None
    shutil.rmtree(wd, ignore_errors=True)
    return t


def run_random_case(case):
    from .. import sampler_driver as sd
    g = _setup()
    lib = _lib(case["n"], svar=case.get("svar", 0))
    wd = os.path.join(case["workdir"], case["id"])
    os.makedirs(wd, exist_ok=True)
    s = sd.Session(lib, g["data"], g["prior"], seed=case["seed"], pool=case["pool"], pool_size=case["pool_size"],
                   order_seed=case["seed"], inject=case.get("inject"), uclasses=case.get("ucls"), workdir=wd)
    s.header()
    for c in case["calls"]:
        s.call(**c)
    t = s.trace(case["id"])
    shutil.rmtree(wd, ignore_errors=True)
    return t


def _tla_fn(v, n):
    """TLC prints a function with domain 1..n as a tuple"""
    if isinstance(v, dict):
        return {int(k): x for k, x in v.items()}
    return {i + 1: x for i, x in enumerate(v)}


def replay_cases(ctx, r, rnd, limit):
    cases = []
    allc = r.tagged("CASE")
    idx = list(range(len(allc)))
    rnd.shuffle(idx)
    for k in idx:
        c = allc[k][1]
        n = len(c["lib"])
        order = list(c["order"]) if not isinstance(c["order"], dict) else [c["order"][i] for i in sorted(c["order"])]
        ident = order == list(range(1, n + 1))
        path = ["object", "file", "inmem"][k % 3]
        if path == "inmem" and not ident:
            path = "object"     # the in-memory path has no shuffle: permuted orders go through the cache paths
        cases.append({"id": "mc-%d" % k, "n": n, "lib": _tla_fn(c["lib"], n), "order": order,
                      "ucls": _tla_fn(c["ucls"], n), "nprior": c["opts"]["nPrior"], "maxpost": c["opts"]["maxPost"],
                      "nlinear": c["opts"]["nLinear"], "rows": list(c["rows"]), "path": path, "seed": k,
                      "nbatches": [0, 1, 2, 3][k % 4], "workdir": ctx.workdir})
        if len(cases) >= limit:
            break
    return cases, len(allc)


def random_cases(ctx, rnd, count, maxn):
    cases = []
    for j in range(count):
        n = rnd.choice([1, 2, 3, 5, 8, 13, 30, rnd.randint(2, maxn)])
        calls = []
        for _ in range(rnd.choice([1, 1, 2])):
            path = rnd.choice(["inmem", "object", "file"])
            nprior = rnd.choice([0, 0, rnd.randint(1, n)])
            calls.append(dict(api="rejection", path=path, nprior=nprior,
                              maxpost=rnd.choice([0, 0, 1, 2, rnd.randint(1, n)]), nlinear=rnd.choice([1, 1, 2, 3]),
                              randomize=rnd.random() < 0.4, logprobs=rnd.random() < 0.5, all=rnd.random() < 0.5,
                              nbatches=rnd.choice([0, 0, 1, 2, 3, n, n + 2])))
        case = {"id": "rnd-%d" % j, "n": n, "seed": rnd.randint(0, 10**6), "pool": rnd.choice(["rec", "rec", "serial"]),
                "pool_size": rnd.choice([1, 2, 3, 5]), "calls": calls, "workdir": ctx.workdir, "svar": int(j % 3 == 1)}
        if rnd.random() < 0.35:   # sprinkle scripted edge uniforms and -inf likelihoods on natural profiles
            case["ucls"] = {rnd.randint(1, n): rnd.choice(["zero", "below", "equal", "above", "hi"]) for _ in range(min(n, 4))}
        if rnd.random() < 0.25 and n > 1:
            case["inject"] = {i: -np.inf for i in rnd.sample(range(1, n + 1), rnd.randint(1, n - 1))}
        cases.append(case)
    return cases


def _profile_key(t):
    """distinct non-trivial case: (ll-profile class, accepted pattern, option vector)"""
    evs = t["events"]
    key = []
    for e in evs:
        if e["ev"] == "Call":
            key.append((e["api"], e["path"], e["nprior"], e["maxpost"], e["nlinear"], e["randomize"]))
        if e["ev"] == "Return":
            key.append(tuple(e["rows"]))
    return key


def run(ctx, selftest=False, families=FAMILIES, quick_replay=700, quick_random=250):
    _setup()
    quick = ctx.tier == "quick"
    ctx.rule = ("cases = behaviours exported by TLC from SamplerMC (<=3 rows, ll classes {-inf, low, high} incl. ties, every evaluation "
                "order, uniforms just below / equal / just above each ratio, max_posterior_samples in {None,1}, n_prior_samples in "
                "{None,2}, n_linear_samples in {1,2}) realised on the real sampler (quick: a seeded subset) + seeded random histories "
                "(libraries to 200 / 2000 rows, all options, three paths, recording pool with shuffled task execution); distinct = "
                "distinct (option vector, returned row ids); trivial = one-row library")
    ctx.assumptions = ["TLC/SANY", "numpy exp/nextafter and IEEE comparison (ratio tokens are computed by the harness from the recorded "
                       "likelihoods; the monitor checks them for sanity)", "library rows are identified by their (distinct) periods",
                       "likelihood classes are injected through a Python subclass of the real kernel helper"]
    ctx.model_check("SamplerMC", "MC_Sampler.cfg", coverage=True)
    r = ctx.model_check("SamplerMC", "MC_Sampler_export.cfg", workers=1)
    rnd = random.Random(ctx.seed * 2654435761 % (2**31) + 2)
    cases, total = replay_cases(ctx, r, rnd, quick_replay if quick else 12000)
    ctx.notes["behaviours_exported_by_tlc"] = total
    ctx.notes["behaviours_replayed"] = len(cases)
    ctx.exhaustive = False
    traces = core.pmap(run_replay_case, cases, chunksize=8)
    mism = napp = 0
    for t in traces:
        ctx.count()
        ret = [e for e in t["events"] if e["ev"] == "Return"][-1]
        exp = t.pop("expected_rows")
        if exp is None:
            napp += 1
            continue
        if ret["raised"] or ret["rows"] != exp:
            mism += 1
            t2 = dict(t); t2["spec_rows"] = exp
            ctx.fail("C02.ReplayMatchesSpecBehaviour", t2, kf=None, pos=len(t["events"]))
        if len(exp) > 0 and t["events"][0]["N"] > 1:
            ctx.nontrivial(_profile_key(t))
    ctx.notes["replay_mismatches"] = mism
    ctx.notes["replays_not_applicable_scripts_did_not_reach_the_sampler"] = napp
    rc = random_cases(ctx, rnd, quick_random if quick else 2500, 200 if quick else 2000)
    rtraces = core.pmap(run_random_case, rc, chunksize=4)
    for t in rtraces:
        ctx.count()
        if t["events"][0]["N"] > 1:
            ctx.nontrivial(_profile_key(t))
    traces += rtraces
    if not quick:
        # thorough: the sampler calls made by the repository's own tests, recorded and validated like every other trace
        from .. import repotests
        rt, rinfo = repotests.collect(ctx.workdir)
        ctx.notes["repository_test_traces"] = rinfo
        traces = traces + rt
    ctx.sample(_brief(traces[0])); ctx.sample(_brief(rtraces[0]))
    verdicts = ctx.validate("SamplerTrace", traces, timeout=3000)
    ctx.judge(traces, verdicts, families=families)
    if selftest or not quick:
        _selftest(ctx, traces)
    return traces, verdicts


def _brief(t):
    out = []
    for e in t["events"]:
        e2 = {}
        for k, v in e.items():
            if isinstance(v, list) and len(v) > 6:
                e2[k] = v[:6] + ["... %d more" % (len(v) - 6)]
            else:
                e2[k] = v
        out.append(e2)
    return {"id": t["id"], "events": out[:12]}


def _selftest(ctx, traces):
    import copy
    muts = []
    pool = []
    for t in traces:
        rets = [e for e in t["events"] if e["ev"] == "Return"]
        calls = [e for e in t["events"] if e["ev"] == "Call"]
        if len(rets) == 1 and calls[0]["api"] == "rejection" and not rets[0]["raised"] and len(set(rets[0]["rows"])) >= 2 \
                and calls[0]["logprobs"] and rets[0]["scalars"]:
            pool.append(t)
        if len(pool) >= 4:
            break
    for i, t in enumerate(pool):
        a = copy.deepcopy(t); a["id"] = "st-rows-%d" % i
        ra = [e for e in a["events"] if e["ev"] == "Return"][0]
        ra["rows"] = ra["rows"][::-1]; ra["th"] = ra["th"][::-1]
        muts.append((a, "C02.RowsInEvaluationOrderEachRepeatedNLinear"))
        b = copy.deepcopy(t); b["id"] = "st-u-%d" % i
        for e in b["events"]:
            if e["ev"] == "Draw" and e["method"] == "uniform":
                e["u"] = [[0, 0, 0] for _ in e["u"]]     # uniforms of 0: everything with positive ratio is accepted
        muts.append((b, "C02."))
        d = copy.deepcopy(t); d["id"] = "st-th-%d" % i
        rd = [e for e in d["events"] if e["ev"] == "Return"][0]
        rd["th"][0] = "0" * 16
        muts.append((d, "C02.RowsUnaltered"))
    v = ctx.validate("SamplerTrace", [m for m, _ in muts])
    ctx.traces_validated -= len(muts)
    bad = []
    for m, exp in muts:
        cl = [f[0] for f in v[m["id"]]["fails"] if f[0].startswith("C02.")]
        if not cl or not cl[0].startswith(exp):
            # the all-zero uniform corruption may coincide with the real outcome when every row was accepted anyway
            if exp == "C02." and not cl:
                rm = [e for e in m["events"] if e["ev"] == "Return"][0]
                ev = [e for e in m["events"] if e["ev"] == "Eval"]
                if len(set(rm["rows"])) == sum(len(e["rows"]) for e in ev):
                    continue
            bad.append((m["id"], exp, v[m["id"]]["fails"]))
    if bad or not muts:
        raise core.MachineryError("selftest: corrupted traces not rejected as expected: %r" % bad[:3])
    ctx.notes["selftest_corruptions_rejected"] = len(muts)


def replay(ctx, path):
    import json
    _setup()
    rec = json.load(open(path))
    t = rec["case"]
    t.pop("spec_rows", None)
    v = ctx.validate("SamplerTrace", [t])
    print("recorded trace re-validated:", v[t["id"]]["fails"] or "accepted")
    return 0 if v[t["id"]]["ok"] else 1
