"""C10 - seeded runs are reproducible; randomness is confined to the given generator.

spec: Streams (parent position, spawn counter, one child stream per task; TLC: no segment of any stream is handed out
twice over histories of calls), StreamsTrace (monitor).
binding: each scenario - a history of API calls on one TheJoker (rejection / iterative / marginal on the three paths,
prior samples requested by count, prior.sample) - is executed three times: seed s, seed s again, and seed s with numpy's
and Python's global generators seeded differently.  The recording Generator and pool log every parent draw (bit-generator
state before/after), every child generator handed to a task (entropy, spawn key) and its draws; global generator states
are hashed around every call; everything returned is hashed.  thorough: real schwimmbad.MultiPool with equal batching."""
import hashlib
import os
import random
import shutil

import numpy as np

from .. import core
from . import c02

LEVEL = "model_checking"
FAMILIES = ("C10.",)


def _hash_result(res):
    from thejoker import JokerSamples
    h = hashlib.sha256()
    lin = []

    def add_samples(s):
        for name in s.par_names:
            col = s.tbl[name]
            h.update(name.encode())
            h.update(np.ascontiguousarray(np.asarray(getattr(col, "value", col))).tobytes())
        if "K" in s.par_names and "v0" in s.par_names and len(s) > 0:
            K = np.atleast_1d(s["K"].value)
            v0 = np.atleast_1d(s["v0"].value)
            for a, b in zip(K, v0):
                lin.append(hashlib.sha256(np.array([a, b]).tobytes()).hexdigest()[:12])
    if isinstance(res, tuple):
        for r in res:
            if isinstance(r, JokerSamples):
                add_samples(r)
            else:
                h.update(np.ascontiguousarray(np.asarray(r, dtype=float)).tobytes())
    elif isinstance(res, JokerSamples):
        add_samples(res)
    elif res is None:
        h.update(b"none")
    else:
        h.update(np.ascontiguousarray(np.asarray(res, dtype=float)).tobytes())
    return h.hexdigest()[:20], lin


def _gstate():
    import random as pyr
    a = hashlib.sha256(repr(np.random.get_state()).encode()).hexdigest()[:12]
    b = hashlib.sha256(repr(pyr.getstate()).encode()).hexdigest()[:12]
    return a + b


def run_scenario(case):
    import random as pyr
    from .. import collab, sampler_driver as sd
    g = c02._setup()
    lib = c02._lib(case["n"])
    events = []
    hashes = {}
    lins = {}
    for run in ("A", "B", "G", "D"):
        gs = 424242 if run != "G" else 99 + case["seed"]
        np.random.seed(gs % (2**31))
        pyr.seed(gs)
        wd = os.path.join(case["workdir"], case["id"] + run)
        os.makedirs(wd, exist_ok=True)
        real_pool = None
        if case.get("multipool"):
            import schwimmbad
            real_pool = schwimmbad.MultiPool(processes=case["multipool"])
        try:
            s = sd.Session(lib, g["data"], g["prior"], seed=case["seed"] + (1 if run == "D" else 0), pool=case.get("pool", "rec"), pool_size=case.get("pool_size", 2),
                           order_seed=case["seed"], workdir=wd, real_pool=real_pool)
            events.append({"ev": "Run", "run": run})
            parent_sid = collab.stream_id(s.gen)
            for ci, c in enumerate(case["calls"]):
                c = dict(c)
                kind = c.pop("kind", "api")
                g0 = _gstate()
                n0 = len(s.events)
                s.rec.events = []
                if kind == "prior_sample":
                    try:
                        res = g["prior"].sample(size=c["size"], rng=s.gen, return_logprobs=c.get("logprobs", False))
                    except Exception as ex:
                        res = None
                    new = [dict(e) for e in s.rec.events if e["ev"] == "Draw"]
                    for e in new:
                        e.setdefault("n", 0); e.setdefault("before", ""); e.setdefault("after", "")
                        e["sid"] = e.get("sid") or parent_sid
                else:
                    res = s.call(**c)
                    new = s.events[n0:]
                g1 = _gstate()
                for e in new:
                    if e["ev"] == "Draw":
                        events.append({"ev": "Draw", "stream": e["stream"], "sid": e["sid"], "before": e["before"], "after": e["after"],
                                       "n": e["n"], "method": e["method"]})
                    elif e["ev"] == "Map":
                        kids = [t["child"] for t in e["tasks"] if t.get("child")]
                        if kids:
                            events.append({"ev": "Children", "sids": kids, "parent": parent_sid})
                events.append({"ev": "Globals", "same": g0 == g1})
                hh, lin = _hash_result(res)
                key = ci
                if run == "A":
                    hashes[key] = hh
                    lins[key] = lin
                events.append({"ev": "Output", "hash": hh, "hashA": hashes[key], "lin": lin, "linA": lins[key], "call": ci,
                               "what": "%s/%s" % (c.get("api", kind), c.get("path", "")),
                               "raised": bool(s.events and s.events[-1].get("raised", False)) if kind != "prior_sample" else res is None})
        finally:
            if real_pool is not None:
                real_pool.close()
            shutil.rmtree(wd, ignore_errors=True)
    return {"id": case["id"], "events": events}


XPROC_SCRIPT = r"""
import hashlib, sys, warnings
warnings.filterwarnings("ignore")
sys.path.insert(0, %(verif)r)
from harness import jk
jk.load()
import numpy as np
from harness.checks import c02, c10
g = c02._setup()
import thejoker as tj
seed = %(seed)d
out = []
smp = g["prior"].sample(size=7, rng=np.random.default_rng(seed), return_logprobs=True)
out.append(c10._hash_result(smp)[0])
smp2 = g["prior"].sample(size=5, rng=np.random.default_rng(seed), generate_linear=True)
out.append(c10._hash_result(smp2)[0])
jk_ = tj.TheJoker(g["prior"], rng=np.random.default_rng(seed))
res = jk_.rejection_sample(g["data"], 40, n_linear_samples=2)
out.append(c10._hash_result(res)[0])
print("XPROC " + " ".join(out))
"""


def cross_process_trace(ctx, seed):
    """equal seed and inputs in SEPARATE interpreter processes whose string hashing differs (PYTHONHASHSEED 0, 1, 2): prior.sample,
    prior.sample(generate_linear=True) and rejection_sample with prior samples requested by count must be bit-identical"""
    import subprocess
    import sys
    procs = []
    for hs in (0, 1, 2):
        env = dict(os.environ, PYTHONHASHSEED=str(hs))
        procs.append(subprocess.Popen([sys.executable, "-c", XPROC_SCRIPT % {"verif": core.VERIF, "seed": seed}], env=env,
                                      stdout=subprocess.PIPE, stderr=subprocess.PIPE, text=True))
    outs = []
    for p in procs:
        o, e = p.communicate(timeout=1200)
        line = [l for l in o.splitlines() if l.startswith("XPROC ")]
        if p.returncode != 0 or not line:
            raise core.MachineryError("cross-process run failed: %s" % (e[-600:],))
        outs.append(line[0].split()[1:])
    events = []
    for k, (run, hs) in enumerate(zip(("A", "H", "H"), outs)):
        events.append({"ev": "Run", "run": run})
        for ci, h in enumerate(hs):
            events.append({"ev": "Output", "hash": h, "hashA": outs[0][ci], "lin": [], "linA": [], "call": ci,
                           "what": ["prior.sample", "prior.sample+linear", "rejection/count"][ci], "raised": False})
    return {"id": "xproc-%d" % seed, "events": events}


def gen_cases(ctx, rnd, count, maxn, multipool=0):
    cases = []
    for j in range(count):
        n = rnd.choice([3, 5, 8, 20, rnd.randint(3, maxn)])
        calls = []
        for _ in range(rnd.randint(1, 4)):
            k = rnd.random()
            paths = ["object", "file"] if multipool else ["inmem", "object", "file"]
            if k < 0.45:
                calls.append(dict(api="rejection", path=rnd.choice(paths), nprior=rnd.choice([0, 0, rnd.randint(1, n)]),
                                  maxpost=rnd.choice([0, 0, 2]), nlinear=rnd.choice([1, 2]), randomize=rnd.random() < 0.4,
                                  logprobs=rnd.random() < 0.3, all=rnd.random() < 0.3, nbatches=rnd.choice([0, 1, 2, 3])))
            elif k < 0.6:
                calls.append(dict(api="iterative", path=rnd.choice(paths), nreq=rnd.randint(1, 2), initb=rnd.randint(1, n),
                                  nlinear=rnd.choice([1, 2]), randomize=rnd.random() < 0.4, nbatches=rnd.choice([0, 2])))
            elif k < 0.7:
                calls.append(dict(api="marginal", path=rnd.choice(paths), nbatches=rnd.choice([0, 2])))
            elif k < 0.88:
                calls.append(dict(api="rejection", path="count" if (multipool or rnd.random() < 0.5) else "count_inmem",
                                  nlinear=rnd.choice([1, 2]), logprobs=rnd.random() < 0.3, nbatches=rnd.choice([0, 2])))
            else:
                calls.append(dict(kind="prior_sample", size=rnd.randint(1, 6), logprobs=rnd.random() < 0.3))
        cases.append({"id": "c10-%s%d" % ("mp-" if multipool else "", j), "n": n, "seed": rnd.randint(0, 10**6),
                      "pool": rnd.choice(["rec", "rec", "serial"]), "pool_size": rnd.choice([1, 2, 3]), "calls": calls,
                      "workdir": ctx.workdir, "multipool": multipool})
    return cases


def run(ctx, selftest=False):
    c02._setup()
    quick = ctx.tier == "quick"
    ctx.rule = ("cases = seeded random scenarios (1-4 calls: rejection / iterative / marginal on the three paths, prior samples by count, "
                "prior.sample), each executed 4 times (seed s, seed s, seed s with different global generator seeds, seed s+1); thorough adds "
                "schwimmbad.MultiPool; distinct = distinct call sequences; trivial = scenario without any random draw")
    ctx.assumptions = ["TLC/SANY", "numpy bit-generator state repr identifies the stream position", "SHA-256 of returned arrays"]
    ctx.model_check("Streams", "MC_Streams.cfg" if quick else "MC_Streams_thorough.cfg", coverage=True)
    rnd = random.Random(ctx.seed * 48271 + 10)
    cases = gen_cases(ctx, rnd, 64 if quick else 600, 40 if quick else 300)
    traces = core.pmap(run_scenario, cases, chunksize=1)
    xp = [cross_process_trace(ctx, 1000 + ctx.seed)] + ([] if quick else [cross_process_trace(ctx, 2000 + ctx.seed)])
    ctx.notes["cross_process_scenarios"] = len(xp)
    for t in xp:
        ctx.count()
        ctx.nontrivial(t["id"])
    if not quick:
        traces += [run_scenario(c) for c in gen_cases(ctx, rnd, 10, 40, multipool=2)]
    for c, t in zip(cases, traces):
        ctx.count()
        if any(e["ev"] == "Draw" for e in t["events"]):
            ctx.nontrivial([sorted(x.items()) for x in c["calls"]])
    traces += xp
    ctx.sample({"id": traces[0]["id"], "events": traces[0]["events"][:10]})
    verdicts = ctx.validate("StreamsTrace", traces, timeout=3000)
    ctx.judge(traces, verdicts, families=FAMILIES)
    # one TheJoker under every short HISTORY of calls (spec/History.tla): what a sampling call returns is a function of the seed and
    # of the sampling calls made before it, in order - never of the marginal-likelihood calls in between
    from .. import history
    history.check(ctx, "sampler", {"C10"}, ("C10.", "H."), selftest=selftest, cap=90 if ctx.tier == "quick" else None)
    if selftest or not quick:
        _selftest(ctx, traces)


def _selftest(ctx, traces):
    import copy
    muts = []
    for t in traces:
        # two pool calls INSIDE ONE RUN (the monitor starts afresh at every Run event): the second re-uses a stream of the first
        pair, first = None, None
        for k, e in enumerate(t["events"]):
            if e["ev"] == "Run":
                first = None
            elif e["ev"] == "Children" and e["sids"]:
                if first is None:
                    first = k
                else:
                    pair = (first, k)
                    break
        if pair:
            a = copy.deepcopy(t); a["id"] = "st-kid-%d" % len(muts)
            a["events"][pair[1]]["sids"][0] = a["events"][pair[0]]["sids"][0]
            muts.append((a, "C10.NoStreamReuseAcrossTasksAndCalls"))
        run, gout, dout = None, None, None
        for k, e in enumerate(t["events"]):
            if e["ev"] == "Run":
                run = e["run"]
            elif e["ev"] == "Output" and run == "G":
                gout = k
            elif e["ev"] == "Output" and run == "D" and e["linA"]:
                dout = k
        if gout is not None:
            b = copy.deepcopy(t); b["id"] = "st-out-%d" % len(muts)
            b["events"][gout]["hash"] = "0" * 20
            muts.append((b, "C10.OutputIndependentOfGlobalState"))
        if dout is not None:
            d = copy.deepcopy(t); d["id"] = "st-seed-%d" % len(muts)
            d["events"][dout]["lin"] = list(d["events"][dout]["linA"])       # the other seed reproduced run A's draws
            muts.append((d, "C10.DrawsComeFromTheGivenGenerator"))
        if len(muts) >= 9:
            break
    v = ctx.validate("StreamsTrace", [m for m, _ in muts])
    ctx.traces_validated -= len(muts)
    bad = [(m["id"], exp, v[m["id"]]["fails"]) for m, exp in muts if exp not in [f[0] for f in v[m["id"]]["fails"]]]
    if bad or not muts:
        raise core.MachineryError("selftest: corrupted traces not rejected as expected: %r" % bad[:3])
    ctx.notes["selftest_corruptions_rejected"] = len(muts)


def replay(ctx, path):
    import json
    c02._setup()
    rec = json.load(open(path))
    t = rec["case"]
    v = ctx.validate("StreamsTrace", [t])
    print("recorded trace re-validated:", v[t["id"]]["fails"] or "accepted")
    return 0 if v[t["id"]]["ok"] else 1
