SPECIFICATION Spec
CONSTANTS MaxDefects = 3
          Export = FALSE
INVARIANT AcceptedMeansAllLinearNormal
INVARIANT AcceptedMeansNothingMissing
INVARIANT DataCountsMatch
INVARIANT OrderIsNonlinearLinearOffsets
