SPECIFICATION Spec
CONSTANTS Ks <- KsFull
          Ws <- WsFull
          Ms <- MsFull
          Ps = {1, 2, 3}
          MaxRows = 2
          Export = FALSE
INVARIANT WrapSameCurve
INVARIANT WrapNonNegative
INVARIANT WrapOnlyNegative
INVARIANT WrapIdempotent
INVARIANT WrapOmegaInTurn
INVARIANT PhaseTheorem
INVARIANT PhaseDistinguishes
