--------------------------- MODULE DiagnosticsExtMC ---------------------------
EXTENDS DiagnosticsExt
CONSTANTS T, Periods, Refs, Export
RefsDef == {-2, 0, 1, 4}
VARIABLES times, P, r, pc
vars == <<times, P, r, pc>>
Init == /\ times \in (SUBSET (0..(T - 1))) \ {{}} /\ P \in Periods /\ r \in Refs /\ r <= Max(times) /\ pc = "new"
Done == /\ pc = "new" /\ pc' = "exported"
        /\ (Export => PrintT(<<"CASE", [times |-> times, P |-> P, r |-> r]>>))
        /\ UNCHANGED <<times, P, r>>
Next == Done
Spec == Init /\ [][Next]_vars
\* at least one observation is at or after the reference epoch here, so some window holds one; no window holds more than all
PerPeriodBounds == PerPeriod(SeqOfSet(times), r, P) >= 1 /\ PerPeriod(SeqOfSet(times), r, P) <= Cardinality(times)
\* observations closer together than half a period always share a window of one of the two families
CloseOnesShareAWindow == \A a, b \in times : (a < b /\ 2 * (b - a) <= P /\ D2(a, r) >= 0) => PerPeriod(SeqOfSet(times), r, P) >= 2
\* adding an observation never lowers the statistic
Monotone == \A k \in 0..(T - 1) : PerPeriod(SeqOfSet(times) \o <<k>>, r, P) >= PerPeriod(SeqOfSet(times), r, P)
\* the two verdicts of the unimodality rule exclude each other, and a single period value is always unimodal
RuleConsistent == \A p1, p2 \in Periods : LET Ps == {p1, p2} B == Baseline(times) IN
                     /\ ~(UnimodalSure(Ps, B) /\ MultimodalSure(Ps, B))
                     /\ (p1 = p2 => UnimodalSure(Ps, B))
=============================================================================
