-------------------------------- MODULE Entry --------------------------------
(***************************************************************************)
(* Beyond the listed properties: the entry points' argument handling.      *)
(*  (1) TheJoker(prior, pool, rng, tempfile_path) (thejoker.py:44-86):     *)
(*      raises TypeError iff the prior is not a JokerPrior, the pool lacks  *)
(*      .map or .close, or rng is a legacy RandomState; rng = None and a    *)
(*      Generator are accepted (other rng values: left open); the temp     *)
(*      directory is created when - and only when - tempfile_path is read. *)
(*  (2) Deprecated argument names are pure renames: the call with the old  *)
(*      name returns what the call with the new name returns, and warns.   *)
(***************************************************************************)
EXTENDS Naturals, FiniteSets, TLC
PriorKinds == {"jokerprior", "dict", "none"}
PoolKinds == {"default", "serial", "nomap", "noclose"}
RngKinds == {"default", "generator", "randomstate", "int"}
MustRaise(prior, pool, rng) == prior # "jokerprior" \/ pool \in {"nomap", "noclose"} \/ rng = "randomstate"
MustAccept(prior, pool, rng) == prior = "jokerprior" /\ pool \in {"default", "serial"} /\ rng \in {"default", "generator"}
\* outcome "raised" is allowed iff not MustAccept; outcome "accepted" is allowed iff not MustRaise
InitOK(prior, pool, rng, raised) == (raised => ~MustAccept(prior, pool, rng)) /\ (~raised => ~MustRaise(prior, pool, rng))
\* the directory of tempfile_path: exists after the property was read, not created by the constructor alone
DirOK(existedBefore, afterInit, afterRead) == (afterInit = existedBefore) /\ afterRead
\* a deprecated name: same result, a DeprecationWarning, and giving both names is refused
RenameOK(sameResult, warned, bothRefused) == sameResult /\ warned /\ bothRefused
=============================================================================
