------------------------------ MODULE HistoryMC ------------------------------
(* Every history of at most MaxLen calls on one object of the given kind, against an implementation that is allowed to REMEMBER.   *)
(* The implementation model: reads in Memoised store what they computed (here: the content they computed it from) and answer from  *)
(* the store when it is filled; a mutation clears the store iff Invalidate; a derived object starts with an empty store unless      *)
(* CarryMemo.  Theorem (ReadsAreIdeal): with Invalidate and ~CarryMemo every read of every history returns the ideal value of       *)
(* History.Ideal - whatever is memoised.  The two mutant configurations (MC_History_noinval.cfg, MC_History_carry.cfg) violate it:  *)
(* the counterexamples are the shortest stale-answer histories (read, mutate, read / read, derive, mutate, read), which is why the  *)
(* replay driver needs every history of length >= 3 and not only pairs.                                                            *)
(* With Export the complete histories that end in a read of LastReads are printed for the replay driver.                           *)
EXTENDS History, TLC
CONSTANTS Kind, MaxLen, Export, Memoised, Invalidate, CarryMemo, LastReads
VARIABLES script, memo, ret
vars == <<script, memo, ret>>
NoRet == <<"none", <<>>>>
Content == ContentOf(Kind, script)

Init == script = <<>> /\ memo = <<>> /\ ret = NoRet
\* memo is a function from a subset of Memoised to the content each entry was computed from
Read(r) ==
  /\ r \in ReadsOf(Kind)
  /\ ret' = IF r \in DOMAIN memo THEN <<r, memo[r]>> ELSE <<r, Content>>
  /\ memo' = IF r \in Memoised /\ r \notin DOMAIN memo THEN memo @@ (r :> Content) ELSE memo
  /\ script' = Append(script, r)
Mut(m) ==
  /\ m \in MutsOf(Kind)
  /\ memo' = IF Invalidate THEN <<>> ELSE memo
  /\ script' = Append(script, m) /\ ret' = NoRet
Deriv(d) ==
  /\ d \in DerivsOf(Kind)
  /\ memo' = IF CarryMemo THEN memo ELSE <<>>
  /\ script' = Append(script, d) /\ ret' = NoRet
\* a draw answers from the content as it is (it is never memoised) and then belongs to it
Draw(d) ==
  /\ d \in DrawsOf(Kind)
  /\ ret' = <<d, Content>>
  /\ memo' = IF Invalidate THEN <<>> ELSE memo
  /\ script' = Append(script, d)
Next == /\ Len(script) < MaxLen
        /\ \E o \in ReadsOf(Kind) \cup MutsOf(Kind) \cup DerivsOf(Kind) \cup DrawsOf(Kind) : Read(o) \/ Mut(o) \/ Deriv(o) \/ Draw(o)
Spec == Init /\ [][Next]_vars

\* a read that has just returned returned the ideal value
ReadsAreIdeal == (ret # NoRet) => ret = Ideal(Kind, ret[1], SubSeq(script, 1, Len(script) - 1))
\* the store never holds anything computed from another content than the present one (the inductive reason for the theorem)
StoreIsCurrent == \A r \in DOMAIN memo : memo[r] = Content
\* reads change nothing (action property): the content before and after a read is the same
ReadsLeaveTheContent == [][(ret' # NoRet /\ ret'[1] \in ReadsOf(Kind)) => ContentOf(Kind, script') = ContentOf(Kind, script)]_vars
\* the classes partition the alphabet
AlphabetIsPartitioned == /\ ReadsOf(Kind) \cap MutsOf(Kind) = {} /\ ReadsOf(Kind) \cap DerivsOf(Kind) = {} /\ MutsOf(Kind) \cap DerivsOf(Kind) = {}
                         /\ DrawsOf(Kind) \cap (ReadsOf(Kind) \cup MutsOf(Kind) \cup DerivsOf(Kind)) = {}
                         /\ \A r \in ReadsOf(Kind) \cup DrawsOf(Kind) : Owner(Kind, r) \in {"C04", "C05", "C09", "C10", "C15", "C17", "C18", "C19"}

ExportCase == (Export /\ script # <<>> /\ script[Len(script)] \in LastReads \cup DrawsOf(Kind)) => PrintT(<<"CASE", script>>)
=============================================================================
