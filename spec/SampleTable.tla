------------------------------ MODULE SampleTable ------------------------------
(***************************************************************************)
(* Sample-table operations (samples.py:167-174, 199-237, 365-478,          *)
(* 607-609) on a lattice: a row is [id, K, w, m, p]                        *)
(*   K  semi-amplitude (integer, any sign)                                 *)
(*   w  omega in units of pi/4 (integer, NOT reduced to a turn)            *)
(*   m  M0 in units of pi/4                                                *)
(*   p  period / 8 days  (so P (M0 + phi) / 2pi = p (m + q) days exactly)  *)
(* A table is [rows, units, meta]; units = sequence of unit names parallel *)
(* to the column names; meta = [tref, poly, noff].                         *)
(***************************************************************************)
EXTENDS Integers, Sequences, FiniteSets, TLC

\* 200 cos(k pi/4), with 141 standing for 100 sqrt 2 (only the symmetries of the table are used)
Cos8(k) == <<200, 141, 0, -141, -200, -141, 0, 141>>[(k % 8) + 1]
\* K cos(omega + f) + e K cos(omega): the shape of the RV curve is fixed by the pair (K, omega mod 2pi)
CurveAt(K, w, f) == K * Cos8(w + f)

WrapRow(r) == IF r.K < 0 THEN [r EXCEPT !.K = -r.K, !.w = (r.w + 4) % 8] ELSE r
WrapK(rows) == [k \in DOMAIN rows |-> WrapRow(rows[k])]

\* time (days after t_ref) at which the mean anomaly equals q pi/4:  t_ref + P (M0 + phi) / 2pi
TimeWithPhase(r, q) == r.p * (r.m + q)
\* mean anomaly (in pi/4) at time t days after t_ref, for a row:  2pi t / P - M0   (defined when p divides t)
HasPhaseAt(r, t, q) == (t - r.p * (r.m + q)) % (8 * r.p) = 0

Selected(rows, sel) == [k \in 1..Len(sel) |-> rows[sel[k]]]
IsMedianMember(rows, rid) ==
  \E k \in DOMAIN rows :
     /\ rows[k].id = rid
     /\ 2 * Cardinality({j \in DOMAIN rows : rows[j].p < rows[k].p}) <= Len(rows)
     /\ 2 * Cardinality({j \in DOMAIN rows : rows[j].p > rows[k].p}) <= Len(rows)
=============================================================================
