------------------------------ MODULE SampleFile ------------------------------
(***************************************************************************)
(* Sample files (samples.py:480-605, samples_helpers.py:35-270,            *)
(* utils.py:106-245).  A table is                                          *)
(*   [cols, units, meta, rows, ids]                                        *)
(* cols/units: parallel sequences of names, meta = [tref, poly, noff],     *)
(* rows: one content hash per row (bit-exact identity of the row's values),*)
(* ids: the row identities (the harness encodes id and column in values).  *)
(* A file is Absent or a table.  Write / Read / ReadBatch are total        *)
(* functions of (file, arguments) giving the new file and whether the call *)
(* must raise: the outcome table of the property.                          *)
(***************************************************************************)
EXTENDS Naturals, Integers, Sequences, FiniteSets, TLC

Absent == [absent |-> TRUE]
IsAbsent(f) == "absent" \in DOMAIN f

\* A missing reference epoch (tref = -1) on one side only is a conflict like any other: rows written without a reference epoch may
\* not come back with the file's (nor the other way round).  (First modelled as "may be accepted or refused" because astropy's
\* metadata merge takes a None for "unspecified"; tightened after a table without epoch was seen to be accepted into a file with one
\* while the opposite order was refused - repaired in /repo, DESIGN 9.8.)
SameShape(a, b) == a.cols = b.cols /\ a.units = b.units /\ a.meta.poly = b.meta.poly /\ a.meta.noff = b.meta.noff
Compatible(a, b) == SameShape(a, b) /\ a.meta.tref = b.meta.tref
Ambiguous(a, b) == SameShape(a, b) /\ a.meta.tref # b.meta.tref /\ (a.meta.tref = -1 \/ b.meta.tref = -1)

Appended(f, t) == [f EXCEPT !.rows = f.rows \o t.rows, !.ids = f.ids \o t.ids]
\* Write(table, overwrite, append) on file f  ->  the SET of allowed outcomes [file, raised]
WriteOutcomes(f, t, ow, ap) ==
  IF IsAbsent(f) THEN {[file |-> t, raised |-> FALSE]}                        \* nothing there: create (whatever the flags)
  ELSE IF ~ow /\ ~ap THEN {[file |-> f, raised |-> TRUE]}                     \* exists: refuse, unchanged
  ELSE IF ow THEN {[file |-> t, raised |-> FALSE]}                            \* overwrite (with or without append): replaced
  ELSE IF Compatible(f, t) THEN {[file |-> Appended(f, t), raised |-> FALSE]}
  ELSE {[file |-> f, raised |-> TRUE]}                                        \* incompatible append: refuse, unchanged
\* the outcome when there is exactly one
Write(f, t, ow, ap) == CHOOSE r \in WriteOutcomes(f, t, ow, ap) : TRUE

\* rows (1-based positions) selected by a batch read
SelRange(f, lo, hi) == [k \in 1..(hi - lo) |-> lo + k]                      \* 0-based half-open (lo, hi) -> positions lo+1..hi
BatchOK(f, pos, outids) ==                                                    \* explicit positions, order kept, repeats as given
  /\ Len(outids) = Len(pos)
  /\ \A k \in DOMAIN pos : pos[k] \in DOMAIN f.ids /\ outids[k] = f.ids[pos[k]]
RandomOK(f, n, outids) ==                                                     \* n distinct rows of the file
  /\ Len(outids) = n
  /\ Cardinality({outids[k] : k \in DOMAIN outids}) = n
  /\ \A k \in DOMAIN outids : \E p \in DOMAIN f.ids : f.ids[p] = outids[k]
=============================================================================
