---------------------------- MODULE RVDataTrace ----------------------------
(***************************************************************************)
(* Total monitor for recorded RVData executions.  A trace is a sequence of *)
(* events on one object:                                                   *)
(*  Construct [obs, clean, trefmode, trefin, unit, hascov, out]            *)
(*  Copy [out]      Slice [sel, out]      Ivar [cov, ivar] (lattice)       *)
(*  RoundTrip [out]  (extension X05: through an astropy TimeSeries file)   *)
(* out = [rows: <<[t, rvid, errid]>>, tref, trefnone, unit, errunit,       *)
(*        cov: matrix of <<rowid, colid>> (hascov only), ivnum, ivden,     *)
(*        ernum, erden (1-D errors: ivar and err as exact rationals)]      *)
(***************************************************************************)
EXTENDS RVData, Json, IOUtils

Tr == JsonDeserialize(IOEnv.TRACE_FILE)

VARIABLES tid, l, cur, ok, clause, pos
vars == <<tid, l, cur, ok, clause, pos>>

Ev == Tr[tid].events

UnitsClause(e, o) ==
  IF o.unit # e.unit \/ o.errunit # e.errunit THEN "C15.UnitsAsSupplied" ELSE ""

IvarClause(o) ==
  IF \E k \in DOMAIN o.ivnum : o.ivnum[k] * o.ernum[k] * o.ernum[k] # o.ivden[k] * o.erden[k] * o.erden[k]
  THEN "C15.IvarIsReciprocalVariance" ELSE ""

CovClause(e, o) ==
  IF e.hascov /\ ~CovPaired(o.rows, o.cov) THEN "C15.CovarianceRowAndColumn" ELSE ""

TRefClause(e, o) ==
  IF e.trefmode = "false" THEN (IF o.trefnone THEN "" ELSE "C15.TRefDisabled")
  ELSE IF o.trefnone THEN "C15.TRefPresent"
  ELSE IF e.trefmode = "explicit" THEN (IF o.tref = e.trefin THEN "" ELSE "C15.ExplicitTRefKept")
  ELSE IF o.rows # <<>> /\ o.tref = MinTime(o.rows) THEN "" ELSE "C15.DefaultTRefIsEarliest"

First(cs) == IF \E k \in DOMAIN cs : cs[k] # "" THEN cs[CHOOSE k \in DOMAIN cs : cs[k] # "" /\ \A j \in 1..(k - 1) : cs[j] = ""] ELSE ""

OnConstruct(e) ==
  First(<<IF e.raised THEN "C15.ConstructRaises" ELSE "", ConstructClause(e.obs, e.clean, e.out.rows), CovClause(e, e.out), UnitsClause(e, e.out),
          IF e.hascov THEN "" ELSE IvarClause(e.out), TRefClause(e, e.out)>>)

OnCopy(e) ==
  First(<<IF e.raised THEN "C15.CopyRaises" ELSE "", IF SameObservations(cur.rows, e.out.rows) THEN "" ELSE "C15.CopySameObservations",
          IF cur.hascov /\ ~CovPaired(e.out.rows, e.out.cov) THEN "C15.CovarianceRowAndColumn" ELSE "",
          IF e.out.unit = cur.unit /\ e.out.errunit = cur.errunit THEN "" ELSE "C15.UnitsAsSupplied",
          IF e.out.trefnone = cur.trefnone /\ (cur.trefnone \/ e.out.tref = cur.tref) THEN "" ELSE "C15.CopyKeepsTRef">>)

OnSlice(e) ==
  First(<<IF e.raised THEN "C15.SliceRaises" ELSE "", IF SameObservations(Selected(cur.rows, e.sel), e.out.rows) THEN "" ELSE "C15.SliceSelectsObservations",
          IF cur.hascov /\ ~CovPaired(e.out.rows, e.out.cov) THEN "C15.CovarianceRowAndColumn" ELSE "",
          IF e.out.unit = cur.unit /\ e.out.errunit = cur.errunit THEN "" ELSE "C15.UnitsAsSupplied">>)

\* extension X05 (not a listed property): to_timeseries -> TimeSeries written to HDF5 -> from_timeseries gives the same object
OnRoundTrip(e) ==
  First(<<IF e.raised THEN "X05.TimeSeriesRoundTripRaises" ELSE "",
          IF SameObservations(cur.rows, e.out.rows) THEN "" ELSE "X05.TimeSeriesKeepsTheObservations",
          IF e.out.unit = cur.unit /\ e.out.errunit = cur.errunit THEN "" ELSE "X05.TimeSeriesKeepsUnits",
          \* a DISABLED reference epoch (t_ref=False) cannot be told from "not given" in the TimeSeries meta (both None): the
          \* object that comes back has the default epoch (its earliest time) - behaviour of the current code, allowed here
          IF cur.trefnone THEN (IF e.out.trefnone \/ (e.out.rows # <<>> /\ e.out.tref = MinTime(e.out.rows)) THEN "" ELSE "X05.TimeSeriesKeepsTRef")
          ELSE IF ~e.out.trefnone /\ e.out.tref = cur.tref THEN "" ELSE "X05.TimeSeriesKeepsTRef">>)

\* lattice covariance: ivar * cov = identity (integers)
OnIvar(e) ==
  LET n == Len(e.cov)
      Prod(a, b) == LET RECURSIVE S(_) S(k) == IF k = 0 THEN 0 ELSE e.ivar[a][k] * e.cov[k][b] + S(k - 1) IN S(n)
  IN IF ~e.exact THEN "C15.IvarIsInverseCovariance"
     ELSE IF \A a \in 1..n : \A b \in 1..n : Prod(a, b) = (IF a = b THEN 1 ELSE 0) THEN ""
     ELSE "C15.IvarIsInverseCovariance"

Init == tid \in 1..Len(Tr) /\ l = 1 /\ cur = [rows |-> <<>>] /\ ok = TRUE /\ clause = "" /\ pos = 0

Step ==
  /\ l <= Len(Ev)
  /\ LET e == Ev[l]
         c == IF ~ok THEN clause
              ELSE IF e.ev = "Construct" THEN OnConstruct(e)
              ELSE IF e.ev = "Copy" THEN OnCopy(e)
              ELSE IF e.ev = "Slice" THEN OnSlice(e)
              ELSE IF e.ev = "Ivar" THEN OnIvar(e)
              ELSE IF e.ev = "RoundTrip" THEN OnRoundTrip(e)
              ELSE "unknown event"
     IN /\ ok' = (ok /\ c = "")
        /\ clause' = c
        /\ pos' = IF ok /\ c # "" THEN l ELSE pos
        /\ cur' = IF e.ev = "Construct"
                  THEN [rows |-> e.out.rows, tref |-> e.out.tref, trefnone |-> e.out.trefnone, unit |-> e.out.unit,
                        errunit |-> e.out.errunit, hascov |-> e.hascov]
                  ELSE cur
  /\ l' = l + 1 /\ tid' = tid
  /\ (l' > Len(Ev) => PrintT(<<"VERDICT", Tr[tid].id, ok', clause', pos', "">>))

Next == Step
=============================================================================
