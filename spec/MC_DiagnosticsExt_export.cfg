SPECIFICATION Spec
CONSTANTS T = 7
          Periods = {2, 4, 6, 8}
          Refs <- RefsDef
          Export = TRUE
INVARIANT PerPeriodBounds
