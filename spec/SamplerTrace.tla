---------------------------- MODULE SamplerTrace ----------------------------
(***************************************************************************)
(* Total monitor for recorded sampler executions (C02, C05, C06, C14).     *)
(* A trace is a history of API calls on one TheJoker object:               *)
(*   Header [N, lnp, th, ref]            library: ln_prior tags, row       *)
(*                                       hashes, reference ll token per row*)
(*   Call   [api, path, nprior, maxpost, nlinear, randomize, logprobs,     *)
(*           all, nreq, budget, initb, group]                              *)
(*   Eval   [rows, ll]                   kernel evaluation (recording      *)
(*                                       helper): library ids + ll tokens  *)
(*   Draw   [stream, method, n, u, ratio, result, a, replace]              *)
(*   Map    [worker, tasks: [sel, start, kind]]                            *)
(*   DrawLinear [rows, nlinear]                                            *)
(*   Return [raised, exc, type, rows, th, haslp, scalars, lnlike, lnprior, *)
(*           hasall, allll]                                                *)
(* Every event is consumed; the first failing clause of each property      *)
(* family is kept; one verdict per trace.                                  *)
(***************************************************************************)
EXTENDS Sampler, Partition, TLC, Json, IOUtils

Tr == JsonDeserialize(IOEnv.TRACE_FILE)

VARIABLES tid, l, lib, c, fails, acc
vars == <<tid, l, lib, c, fails, acc>>

Ev == Tr[tid].events

NoCall == [api |-> "none"]
FreshCall(e) == [api |-> e.api, path |-> e.path, nprior |-> e.nprior, maxpost |-> e.maxpost, nlinear |-> e.nlinear,
                 randomize |-> e.randomize, logprobs |-> e.logprobs, all |-> e.all, nreq |-> e.nreq, budget |-> e.budget,
                 initb |-> e.initb, group |-> e.group, observed |-> e.observed,
                 choice |-> <<>>, nchoice |-> 0, evald |-> <<>>, lls |-> <<>>, nuni |-> 0, u |-> <<>>, ratio |-> <<>>,
                 tk |-> <<>>, drawsel |-> <<>>, llsel |-> <<>>]

\* Evaluations made inside pool tasks arrive in EXECUTION order; what the sampler sees is their concatenation in
\* TASK order.  They are parked in c.tk and flushed (a silent step) before the next non-evaluation event.
TaskEntry(cc, k) == cc.tk[CHOOSE j \in DOMAIN cc.tk : cc.tk[j].task = k]
TasksComplete(cc) == \A k \in 1..Len(cc.tk) : Cardinality({j \in DOMAIN cc.tk : cc.tk[j].task = k}) = 1
RECURSIVE CatRows(_, _) 
CatRows(cc, k) == IF k > Len(cc.tk) THEN <<>> ELSE TaskEntry(cc, k).rows \o CatRows(cc, k + 1)
RECURSIVE CatLL(_, _)
CatLL(cc, k) == IF k > Len(cc.tk) THEN <<>> ELSE TaskEntry(cc, k).ll \o CatLL(cc, k + 1)
Flushed(cc) == [cc EXCEPT !.evald = @ \o CatRows(cc, 1), !.lls = @ \o CatLL(cc, 1), !.tk = <<>>]

Family(cl) == SubSeq(cl, 1, 3)
HasFamily(fs, f) == \E k \in DOMAIN fs : Family(fs[k][1]) = f
\* keep only the first failure of each family
Add(fs, cl, pos) == IF cl = "" \/ HasFamily(fs, Family(cl)) THEN fs ELSE Append(fs, <<cl, pos>>)
RECURSIVE AddAll(_, _, _)
AddAll(fs, cls, pos) == IF cls = <<>> THEN fs ELSE AddAll(Add(fs, Head(cls), pos), Tail(cls), pos)

RECURSIVE FlattenSel(_)
FlattenSel(T) == IF T = <<>> THEN <<>> ELSE Head(T).sel \o FlattenSel(Tail(T))

OrderOf(cc) == IF cc.choice # <<>> THEN cc.choice ELSE Identity(lib.N)
ValidIds(s) == \A k \in DOMAIN s : s[k] \in 1..lib.N

(* ------------------------------ per-event clauses ------------------------------ *)
OnEval(e) ==
  <<IF ~ValidIds(e.rows) THEN "C02.EvaluatesOnlyLibraryRows" ELSE "",
    IF ValidIds(e.rows) /\ \E j \in DOMAIN e.rows : e.ll[j] # lib.ref[e.rows[j]] THEN "C05.SameValueOnEveryPath" ELSE "">>

\* How a randomized evaluation order is drawn (one choice() call, a permutation, several calls) is not part of C02 / C14: what
\* counts is which rows were evaluated, in which order (EvaldOK below).  The recorded choice is only used to reconstruct the
\* order of calls whose evaluations cannot be observed (real worker processes).
OnChoice(e) == <<>>

\* One uniform variate per evaluated sample.  A draw may cover every sample evaluated so far (fresh variates for all of them) or
\* only the samples that have none yet (each sample keeps its variate): both are "an independent uniform draw from the sampler's
\* generator" per sample; how many calls deliver them is not part of the property.
CoversAll(e) == e.n = Len(c.lls)
CoversNew(e) == e.n + Len(c.u) = Len(c.lls) /\ Len(c.u) > 0
UAfter(e) == IF CoversAll(e) THEN e.u ELSE IF CoversNew(e) THEN c.u \o e.u ELSE e.u
OnUniform(e) ==
  <<IF ~CoversAll(e) /\ ~CoversNew(e) THEN (IF c.api = "iterative" THEN "C14.OneUniformPerEvaluatedSampleEachRound" ELSE "C02.OneUniformPerEvaluatedSample") ELSE "",
    IF Len(e.ratio) = Len(c.lls) /\ ~RatioSane(c.lls, e.ratio) THEN "H.RatioSane" ELSE "">>

OnMap(e) ==
  <<IF \E k \in DOMAIN e.tasks : Len(e.tasks[k].sel) = 0 THEN "C05.TasksNonEmpty" ELSE "">>

(* ------------------------------ Return: rejection_sample ------------------------------ *)
NPriorEff == IF c.nprior = 0 THEN lib.N ELSE c.nprior
ExpectedEvald == Prefix(OrderOf(c), NPriorEff)
\* the first NPriorEff rows of the evaluation order: library order, or - with randomize_prior_order - any order of distinct rows
EvaldOK == IF c.randomize /\ c.observed
           THEN Len(c.evald) = NPriorEff /\ Distinct(c.evald) /\ ValidIds(c.evald)
           ELSE c.evald = ExpectedEvald
GoodAll == Accept(c.ratio, c.u)
GoodT == Truncate(GoodAll, c.maxpost)
Full == MapRows(c.evald, GoodT)
SuffixTrunc == IF c.maxpost = 0 \/ Len(GoodAll) <= c.maxpost THEN GoodAll
               ELSE SubSeq(GoodAll, Len(GoodAll) - c.maxpost + 1, Len(GoodAll))
GeAccept == SelectPos(Len(c.ratio), LAMBDA p : Ge(c.ratio[p], c.u[p]), 1)

RowsClause(e, full, nl) ==
  IF e.rows = Expand(full, nl) THEN ""
  ELSE IF c.api = "rejection" /\ c.maxpost # 0 /\ e.rows = Expand(MapRows(c.evald, SuffixTrunc), nl) THEN "C02.TruncationKeepsFirstAccepted"
  ELSE IF Range(e.rows) = Range(full) /\ Len(e.rows) = Len(full) * nl THEN "C02.RowsInEvaluationOrderEachRepeatedNLinear"
  ELSE IF c.api = "rejection" /\ e.rows = Expand(MapRows(c.evald, Truncate(GeAccept, c.maxpost)), nl) THEN "C02.StrictInequality"
  ELSE "C02.AcceptedExactlyByRule"

UnalteredClause(e) ==
  IF Len(e.th) # Len(e.rows) \/ \E k \in DOMAIN e.rows : e.rows[k] \notin 1..lib.N \/ e.th[k] # lib.th[e.rows[k]]
  THEN "C02.RowsUnaltered" ELSE ""

LogprobClauses(e, good, full, nl) ==
  IF ~c.logprobs THEN <<>>
  ELSE IF ~e.haslp THEN <<"C06.HasLogprobColumns">>
  ELSE IF ~e.scalars THEN <<"C06.PlainScalars">>
  ELSE IF Len(e.lnlike) # Len(good) * nl \/ Len(e.lnprior) # Len(good) * nl THEN <<"C06.OneValuePerReturnedRow">>
  ELSE <<IF \E k \in DOMAIN e.lnlike : e.lnlike[k] # c.lls[good[GoodOf(k, nl)]] THEN "C06.LnLikelihoodOfOwnRow" ELSE "",
         IF \E k \in DOMAIN e.lnprior : e.lnprior[k] # lib.lnp[full[GoodOf(k, nl)]] THEN "C06.LnPriorOfOwnRow" ELSE "">>

AllClause(e) ==
  IF ~c.all THEN "" ELSE IF ~e.hasall \/ e.allll # c.lls THEN "C06.AllLogprobsInEvaluationOrder" ELSE ""

GroupClause(full) ==
  IF c.group = 0 \/ c.group \notin DOMAIN acc THEN ""
  ELSE IF acc[c.group] # full THEN "C05.SameAcceptedSetAcrossPaths" ELSE ""

\* a call whose inside could not be observed (worker processes without return_all_logprobs, or pool tasks the harness cannot read)
\* is judged from what it returned only
Blind == ~c.observed /\ c.evald = <<>>
OnReturnRejection(e) ==
  IF Blind THEN (IF e.raised THEN <<"C02.AcceptedInputRaises">> ELSE IF e.type # "JokerSamples" THEN <<"C02.ReturnsSamples">>
                 ELSE <<UnalteredClause(e), IF Len(e.rows) % c.nlinear # 0 THEN "C02.RowsInEvaluationOrderEachRepeatedNLinear" ELSE "">>)
  ELSE IF Len(c.lls) > 0 /\ ~InScope(c.lls) THEN <<>>      \* no finite likelihood among the evaluated samples: outside C02's quantifier
  ELSE IF e.raised THEN <<"C02.AcceptedInputRaises">>
  ELSE IF e.type # "JokerSamples" THEN <<"C02.ReturnsSamples">>
  ELSE IF ~EvaldOK THEN <<"C02.EvaluatesFirstNPriorInOrder">>
  ELSE IF c.nuni < 1 \/ Len(c.u) # Len(c.lls) \/ Len(c.ratio) # Len(c.lls) THEN <<"C02.OneUniformPerEvaluatedSample">>
  ELSE <<RowsClause(e, Full, c.nlinear), UnalteredClause(e), AllClause(e), GroupClause(Full),
         IF c.drawsel # <<>> /\ c.drawsel # Full THEN "C05.DrawTasksCoverAcceptedRowsInOrder" ELSE "">>
       \o LogprobClauses(e, GoodT, Full, c.nlinear)

(* ------------------------------ Return: marginal_ln_likelihood ------------------------------ *)
OnReturnMarginal(e) ==
  IF e.raised THEN <<"C05.AcceptedInputRaises">>
  ELSE <<IF Len(e.allll) # lib.N THEN "C05.OneValuePerSample" ELSE "",
         IF Len(e.allll) = lib.N /\ \E p \in 1..lib.N : e.allll[p] # lib.ref[p] THEN "C05.ValuesInInputOrder" ELSE "",
         IF c.observed /\ c.evald # Identity(lib.N) THEN "C05.EverySampleEvaluatedOnceInOrder" ELSE "">>

(* ------------------------------ Return: iterative_rejection_sample ------------------------------ *)
Budget == IF c.budget = 0 THEN lib.N ELSE (IF c.budget < lib.N THEN c.budget ELSE lib.N)
LastGood == Accept(c.ratio, c.u)
IterGood == Prefix(LastGood, c.nreq)
IterFull == MapRows(c.evald, IterGood)
OnReturnIterative(e) ==
  IF c.initb > Budget THEN
     \* a library (or budget) too small for the first batch: the call must raise (it may not return anything)
     <<IF ~e.raised THEN "C14.TooSmallLibraryRaises" ELSE "">>
  ELSE IF ~e.raised /\ e.type # "JokerSamples" THEN <<"C14.ReturnsSamplesOrRaises">>
  ELSE IF Blind THEN (IF e.raised THEN <<>> ELSE <<IF Len(e.rows) > c.nreq * c.nlinear THEN "C14.AtMostRequested" ELSE "", UnalteredClause(e)>>)
  ELSE IF e.raised THEN
     \* raising although at least n_requested evaluated samples passed the last test breaks "exactly that many whenever ..."
     <<IF c.nuni > 0 /\ Len(c.u) = Len(c.lls) /\ Len(LastGood) >= c.nreq /\ (\A p \in DOMAIN c.lls : IsFinite(c.lls[p]))
          THEN "C14.ExactlyRequestedWhenEnoughPass" ELSE "",
       IF Len(c.evald) > Budget THEN "C14.BudgetRespected" ELSE "",
       IF ~Distinct(c.evald) THEN "C14.NoRowTwice" ELSE "">>
  ELSE
     <<IF Len(c.evald) > Budget THEN "C14.BudgetRespected" ELSE "",
       IF ~Distinct(c.evald) THEN "C14.NoRowTwice" ELSE "",
       IF (IF c.randomize THEN ~(Distinct(c.evald) /\ ValidIds(c.evald)) ELSE c.evald # Prefix(Identity(lib.N), Len(c.evald)))
          THEN "C14.EvaluatesInOrder" ELSE "",
       IF Len(c.u) # Len(c.lls) THEN "C14.OneUniformPerEvaluatedSampleEachRound" ELSE "",
       IF Len(e.rows) > c.nreq * c.nlinear THEN "C14.AtMostRequested" ELSE "",
       IF Len(c.u) = Len(c.lls) /\ Len(LastGood) >= c.nreq /\ Len(e.rows) # c.nreq * c.nlinear THEN "C14.ExactlyRequestedWhenEnoughPass" ELSE "",
       IF Len(c.u) = Len(c.lls) /\ e.rows # Expand(IterFull, c.nlinear) THEN "C14.AcceptedByRuleAgainstAllEvaluated" ELSE "",
       UnalteredClause(e)>>
     \o (IF Len(c.u) = Len(c.lls) THEN LogprobClauses(e, IterGood, IterFull, c.nlinear) ELSE <<>>)

OnReturn(e) ==
  IF c.api = "kernel" THEN <<>>
  ELSE IF c.api = "rejection" THEN OnReturnRejection(e)
  ELSE IF c.api = "marginal" THEN OnReturnMarginal(e)
  ELSE IF c.api = "iterative" THEN OnReturnIterative(e)
  ELSE <<"H.ReturnWithoutCall">>

(* ------------------------------ the monitor ------------------------------ *)
Init == /\ tid \in 1..Len(Tr) /\ l = 1 /\ lib = [N |-> 0] /\ c = NoCall /\ fails = <<>> /\ acc = <<>>

NeedFlush == l <= Len(Ev) /\ c.api # "none" /\ c.tk # <<>> /\ Ev[l].ev \in {"Draw", "Map", "Return", "Call", "DrawLinear"}

FlushStep ==
  /\ NeedFlush
  /\ c' = IF TasksComplete(c) THEN Flushed(c) ELSE [c EXCEPT !.tk = <<>>]
  /\ fails' = IF ~TasksComplete(c) THEN Add(fails, "H.TaskEvaluationsIncomplete", l)
               \* each task evaluates exactly the rows it was given, in the order given (cache reads return the requested rows)
               ELSE IF c.llsel # <<>> /\ CatRows(c, 1) # c.llsel THEN Add(fails, "C05.TaskEvaluatesItsOwnRowsInOrder", l)
               ELSE fails
  /\ UNCHANGED <<tid, l, lib, acc>>

\* calls executed by real worker processes cannot be observed through the recording helper: the evaluated rows are
\* taken to be the expected ones and their likelihoods are the returned all-logprobs array (return_all_logprobs=True),
\* which must equal the reference values position by position (checked here); the rule is then applied as usual.
NeedAdopt == l <= Len(Ev) /\ c.api = "rejection" /\ ~c.observed /\ c.evald = <<>> /\ Ev[l].ev = "Return" /\ ~Ev[l].raised
             /\ Ev[l].hasall /\ Len(Ev[l].allll) = Len(ExpectedEvald)
AdoptStep ==
  /\ NeedAdopt
  /\ c' = [c EXCEPT !.evald = ExpectedEvald, !.lls = Ev[l].allll]
  /\ fails' = IF \E p \in DOMAIN ExpectedEvald : Ev[l].allll[p] # lib.ref[ExpectedEvald[p]]
               THEN Add(fails, "C05.SameValueOnEveryPath", l) ELSE fails
  /\ UNCHANGED <<tid, l, lib, acc>>

Step ==
  /\ l <= Len(Ev) /\ ~NeedFlush /\ ~NeedAdopt
  /\ LET e == Ev[l] IN
     /\ lib' = IF e.ev = "Header" THEN [N |-> e.N, lnp |-> e.lnp, th |-> e.th, ref |-> e.ref] ELSE lib
     /\ c' = CASE e.ev = "Call" -> FreshCall(e)
               [] e.ev = "Eval" /\ c.api # "none" /\ e.task = 0 -> [c EXCEPT !.evald = @ \o e.rows, !.lls = @ \o e.ll]
               [] e.ev = "Eval" /\ c.api # "none" /\ e.task # 0 -> [c EXCEPT !.tk = Append(@, [task |-> e.task, rows |-> e.rows, ll |-> e.ll])]
               [] e.ev = "Draw" /\ c.api # "none" /\ e.stream = "parent" /\ e.method = "choice" ->
                      [c EXCEPT !.choice = [k \in DOMAIN e.result |-> e.result[k]], !.nchoice = @ + 1]
               [] e.ev = "Draw" /\ c.api # "none" /\ e.stream = "parent" /\ e.method = "uniform" ->
                      [c EXCEPT !.nuni = @ + 1, !.u = UAfter(e), !.ratio = e.ratio]
               [] e.ev = "Map" /\ c.api # "none" /\ e.worker = "make_full_samples_worker" -> [c EXCEPT !.drawsel = FlattenSel(e.tasks)]
               [] e.ev = "Map" /\ c.api # "none" /\ e.worker = "marginal_ln_likelihood_worker" -> [c EXCEPT !.llsel = FlattenSel(e.tasks)]
               [] OTHER -> c
     /\ fails' = CASE e.ev = "Eval" /\ c.api # "none" -> AddAll(fails, OnEval(e), l)
                   [] e.ev = "Draw" /\ c.api # "none" /\ e.stream = "parent" /\ e.method = "choice" -> AddAll(fails, OnChoice(e), l)
                   [] e.ev = "Draw" /\ c.api # "none" /\ e.stream = "parent" /\ e.method = "uniform" -> AddAll(fails, OnUniform(e), l)
                   [] e.ev = "Map" /\ c.api # "none" -> AddAll(fails, OnMap(e), l)
                   [] e.ev = "Return" -> AddAll(fails, OnReturn(e), l)
                   [] OTHER -> fails
     /\ acc' = IF e.ev = "Return" /\ c.api = "rejection" /\ c.group # 0 /\ ~e.raised /\ c.group \notin DOMAIN acc
                  /\ c.group = Len(acc) + 1 /\ Len(c.u) = Len(c.lls) /\ c.nuni >= 1
               THEN Append(acc, Full) ELSE acc
  /\ l' = l + 1 /\ tid' = tid
  /\ (l' > Len(Ev) => PrintT(<<"VERDICT", Tr[tid].id, fails' = <<>>, fails'>>))

Next == Step \/ FlushStep \/ AdoptStep
=============================================================================
