----------------------------- MODULE ValidationMC -----------------------------
(* Enumerates all prior cases with at most MaxDefects non-ok parameters, and all data cases; checks the table's theorems. *)
EXTENDS Validation
CONSTANTS MaxDefects, Export
VARIABLES kindv, poly, noff, status, dkind, nsrc, bad, cov, pc
vars == <<kindv, poly, noff, status, dkind, nsrc, bad, cov, pc>>

Init ==
  /\ poly \in 1..3 /\ noff \in 0..2
  /\ kindv \in {"prior", "data"}
  /\ \E D \in {S \in SUBSET Range(Required(poly, noff)) : Cardinality(S) <= (IF kindv = "prior" THEN MaxDefects ELSE 0)} :
        \E f \in [D -> Statuses \ {"ok"}] :
           status = [p \in Range(Required(poly, noff)) |-> IF p \in D THEN f[p] ELSE "ok"]
  /\ \A p \in Range(Required(poly, noff)) : (status[p] = "nonnormal" => IsLinear(p, poly, noff))
  /\ dkind \in (IF kindv = "data" THEN {"single", "list", "dict", "notiterable"} ELSE {"single"})
  /\ nsrc \in (IF kindv = "data" THEN 1..3 ELSE {1})
  /\ bad \in (IF kindv = "data" THEN BOOLEAN ELSE {FALSE}) /\ cov \in (IF kindv = "data" THEN BOOLEAN ELSE {FALSE})
  /\ (dkind \in {"single", "notiterable"} => nsrc = 1 /\ ~bad)
  /\ pc = "new"
Done == /\ pc = "new" /\ pc' = "exported"
        /\ (Export => PrintT(<<"CASE", [kind |-> kindv, poly |-> poly, noff |-> noff, status |-> status, dkind |-> dkind, nsrc |-> nsrc,
                                       bad |-> bad, cov |-> cov,
                                       accept |-> IF kindv = "prior" THEN PriorAccepted(status, poly, noff)
                                                  ELSE DataAccepted(dkind, nsrc, bad, cov, noff)]>>))
        /\ UNCHANGED <<kindv, poly, noff, status, dkind, nsrc, bad, cov>>
Next == Done
Spec == Init /\ [][Next]_vars
\* marginalisation is never run on a model it is not exact for
AcceptedMeansAllLinearNormal ==
  (kindv = "prior" /\ PriorAccepted(status, poly, noff)) => \A p \in Range(Linear(poly)) \cup Range(Offsets(noff)) : status[p] = "ok"
AcceptedMeansNothingMissing ==
  (kindv = "prior" /\ PriorAccepted(status, poly, noff)) => \A p \in Range(Required(poly, noff)) : status[p] \notin {"missing", "nounit", "badunit"}
DataCountsMatch == (kindv = "data" /\ DataAccepted(dkind, nsrc, bad, cov, noff)) => nsrc - 1 = noff
OrderIsNonlinearLinearOffsets == SubSeq(Required(poly, noff), 1, 5) = Nonlinear /\ Required(poly, noff)[6] = "K"
=============================================================================
