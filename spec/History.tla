------------------------------- MODULE History -------------------------------
(***************************************************************************)
(* One object of the library (a sample table, a data set, a prior) under   *)
(* a HISTORY of calls.  Calls are of four classes:                         *)
(*   Read   returns a value and must leave the object as it is             *)
(*   Mut    a documented in-place change of the object's content           *)
(*   Deriv  returns a new object (copy, slice, mask, pickle, file round    *)
(*          trip, a second construction from the caller's own arrays);     *)
(*          the history goes on with the new object                        *)
(*   Draw   returns a value AND advances the random generator the object   *)
(*          holds (a sampling call on a TheJoker): it is compared like a   *)
(*          read and belongs to the content like a mutation                *)
(* THE LAW.  What a read returns is a function of the CONTENT only - of    *)
(* the construction inputs and of the Mut / Deriv calls made since, in     *)
(* order - never of the reads made before, nor of how often or in which    *)
(* order they were made.  Equivalently: the used object is observationally *)
(* equal to a fresh twin built from pristine inputs on which only the      *)
(* content-changing calls were replayed.                                   *)
(* The alphabets of the three kinds of object are defined here once; the   *)
(* model (HistoryMC), the replay driver (harness/history.py) and the trace *)
(* monitor (HistoryTrace) all take them from this module.                  *)
(***************************************************************************)
EXTENDS Naturals, Sequences, FiniteSets

(* ---- sample table (JokerSamples) ---- *)
SamplesReads == {"orbit", "t0", "phase1", "pack", "packU", "median", "mean", "map", "gapA", "gapB", "coverA", "spanA", "unimodal", "unmarg"}
SamplesMuts == {"wrapK", "setK", "setLL", "setP"}
SamplesDerivs == {"copy", "slice2", "mask", "pickle", "roundtrip"}
(* ---- data set (RVData) ---- *)
DataReads == {"t", "rv", "ivar", "tref", "phase", "trend", "merge", "series", "plot", "plotrel"}
DataMuts == {}
DataDerivs == {"copy", "slice", "mask", "pickle", "rebuild"}
(* ---- prior (JokerPrior): sample(generate_linear, return_logprobs) with an equally seeded generator ---- *)
\*      "shape": the parameter names / number of offsets the prior declares; "touch": the CALLER appends to the list of offset priors it
\*      passed at construction - not a call on the object at all, so it must leave the object as it is (class read, no answer)
PriorReads == {"s00", "s01", "s10", "s11", "shape", "touch"}
PriorMuts == {}
PriorDerivs == {}
(* ---- sampler (TheJoker over one prior and one generator): marginal likelihoods of data set A / B through the in-memory and  *)
(*      the cache-file path are reads; rejection / iterative sampling draw from the generator                                   *)
\*      "bad": a call the sampler must refuse (two surveys for a prior without offsets) - refused whatever was accepted before, and
\*      leaving the sampler as it was
SamplerReads == {"mA", "mAf", "mB", "mBm", "bad"}
SamplerDraws == {"rA", "rAm", "rB", "iA"}

ReadsOf(kind) == CASE kind = "samples" -> SamplesReads [] kind = "data" -> DataReads [] kind = "prior" -> PriorReads [] kind = "sampler" -> SamplerReads
MutsOf(kind) == CASE kind = "samples" -> SamplesMuts [] kind = "data" -> DataMuts [] kind = "prior" -> PriorMuts [] kind = "sampler" -> {}
DerivsOf(kind) == CASE kind = "samples" -> SamplesDerivs [] kind = "data" -> DataDerivs [] kind = "prior" -> PriorDerivs [] kind = "sampler" -> {}
DrawsOf(kind) == IF kind = "sampler" THEN SamplerDraws ELSE {}
Kinds == {"samples", "data", "prior", "sampler"}

\* the listed property a read belongs to (its clause is reported under that property's family)
Owner(kind, r) ==
  CASE kind = "samples" /\ r \in {"map", "gapA", "gapB", "coverA", "spanA", "unimodal"} -> "C19"
    [] kind = "samples" /\ r = "unmarg" -> "C04"
    [] kind = "samples" -> "C17"
    [] kind = "data" -> "C15"
    [] kind = "prior" /\ r \in {"shape", "touch"} -> "C18"
    [] kind = "prior" -> "C09"
    [] kind = "sampler" /\ r = "bad" -> "C18"
    [] kind = "sampler" /\ r \in SamplerReads -> "C05"
    [] kind = "sampler" -> "C10"

ClassOf(kind, op) == IF op \in ReadsOf(kind) THEN "read" ELSE IF op \in MutsOf(kind) THEN "mut" ELSE IF op \in DerivsOf(kind) THEN "deriv"
                     ELSE IF op \in DrawsOf(kind) THEN "draw" ELSE "unknown"

\* derivations that hand back the SAME content in a new object: a copy, a pickle, a file round trip, a second construction from the
\* caller's arrays answer every read exactly like the object they were made from
TransparentOf(kind) == CASE kind = "samples" -> {"copy", "pickle", "roundtrip"} [] kind = "data" -> {"copy", "pickle"} [] OTHER -> {}
\* ... and a second construction from the arrays the caller still holds starts over: whatever was sliced or masked before is forgotten
ResetsOf(kind) == IF kind = "data" THEN {"rebuild"} ELSE {}
LastReset(kind, script) == LET S == {k \in DOMAIN script : script[k] \in ResetsOf(kind)} IN IF S = {} THEN 0 ELSE CHOOSE k \in S : \A j \in S : j <= k
\* the content after a script: the content-changing calls since the last reset, in order
ContentOf(kind, script) ==
  SelectSeq(SubSeq(script, LastReset(kind, script) + 1, Len(script)),
            LAMBDA o : o \in (MutsOf(kind) \cup DerivsOf(kind) \cup DrawsOf(kind)) \ (TransparentOf(kind) \cup ResetsOf(kind)))
\* the ideal object: a read's value is an (uninterpreted) function of the read and the content
Ideal(kind, r, script) == <<r, ContentOf(kind, script)>>
=============================================================================
