SPECIFICATION Spec
CONSTANTS MaxN = 60
          MaxB = 64
          MaxS = 4
          Export = FALSE
INVARIANT AlgRefinesPartition
INVARIANT AlgArrayOK
INVARIANT ValidImpliesExactlyOnce
INVARIANT BatchCount
