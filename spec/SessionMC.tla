------------------------------ MODULE SessionMC ------------------------------
(***************************************************************************)
(* The session state machine: one action per public call, explored by TLC  *)
(* (exhaustively for short sessions on a 3-row library, by simulation for  *)
(* long ones), and the source of the operation scripts the driver replays  *)
(* on the real code.  `ops` is a history variable (the script so far).     *)
(***************************************************************************)
EXTENDS Session

CONSTANTS N, Classes, MaxOps, Export, NPriorSet, MaxPostSet, NReqSet

VARIABLES lib, post, pmeta, whole, file, ops, last
vars == <<lib, post, pmeta, whole, file, ops, last>>
\* `last`: what the latest call handed back besides the table ([kind, ...]); checked by the invariants, then forgotten

Row(i, lp) == [id |-> i, haslp |-> lp]
Table(ids, lp) == [k \in DOMAIN ids |-> Row(ids[k], lp)]
NoRet == [kind |-> "none"]

\* when scripts are exported by simulation only the operations matter: one representative outcome keeps the random walk from
\* being dominated by the many outcomes of the sampling calls
Pick(S) == IF Export THEN {RandomElement(S)} ELSE S

Init == /\ lib \in [1..N -> Classes] /\ (\E p \in 1..N : lib[p] # 0)
        /\ post = <<>> /\ pmeta = "none" /\ whole = FALSE /\ file = Absent /\ ops = <<>> /\ last = NoRet

Log(op) == ops' = Append(ops, op)

Rejection(nPrior, maxPost, nLin, lp) ==
  /\ (nPrior = 0 \/ \E p \in 1..nPrior : lib[p] # 0)                 \* at least one finite likelihood among the evaluated rows
  /\ \E out \in Pick(RejectionOutcomes(lib, nPrior, maxPost, nLin)) :
       /\ post' = Table(out, lp) /\ pmeta' = "data" /\ whole' = (maxPost = 0 /\ nPrior = 0)
  /\ Log(<<"rej", nPrior, maxPost, nLin, lp>>) /\ last' = [kind |-> "table"] /\ UNCHANGED <<lib, file>>

Iterative(nReq, nLin) ==
  /\ IterativeOutcomes(lib, nReq, nLin) # {}
  /\ \E out \in Pick(IterativeOutcomes(lib, nReq, nLin)) :
       /\ post' = Table(out, FALSE) /\ pmeta' = "data" /\ whole' = FALSE
  /\ Log(<<"iter", nReq, nLin>>) /\ last' = [kind |-> "table"] /\ UNCHANGED <<lib, file>>

Select(name, sel) ==
  /\ pmeta = "data" /\ post' = Selected(post, sel) /\ whole' = (whole /\ Len(sel) = Len(post))
  /\ Log(<<name>>) /\ last' = [kind |-> "table"] /\ UNCHANGED <<lib, pmeta, file>>
SliceFront == Select("front", SliceSel(Len(post), 0, (Len(post) + 1) \div 2))          \* tbl[:ceil(n/2)]
SliceBack == Select("back", SliceSel(Len(post), Len(post) \div 2, Len(post)))         \* tbl[n//2:]
Second == Select("second", EverySecond(Len(post)))                                    \* tbl[::2]
MaskOdd == Select("maskodd", MaskSel(Len(post), LAMBDA p : post[p].id % 2 = 1))       \* boolean mask on the row's identity
LastRow == /\ Len(post) > 0 /\ Select("lastrow", <<Len(post)>>)                       \* tbl[-1] (a one-row table)
Same(name) == /\ pmeta = "data" /\ Log(<<name>>) /\ last' = [kind |-> "table"] /\ UNCHANGED <<lib, post, pmeta, whole, file>>
Copy == Same("copy")
WrapK == Same("wrapk")
Pickle == Same("pickle")

WriteOp(ow, ap) ==
  /\ pmeta = "data" /\ Len(post) > 0
  /\ LET r == Write(file, post, pmeta, post[1].haslp, ow, ap) IN
       /\ file' = r.file /\ last' = [kind |-> "write", raised |-> r.raised]
  /\ Log(<<"write", ow, ap>>) /\ UNCHANGED <<lib, post, pmeta, whole>>
ReadOp ==
  /\ ~IsAbsent(file)
  /\ post' = Table(file.ids, file.haslp) /\ pmeta' = file.meta /\ whole' = FALSE
  /\ Log(<<"read">>) /\ last' = [kind |-> "table"] /\ UNCHANGED <<lib, file>>

MAPOp ==
  /\ pmeta = "data" /\ Len(post) > 0 /\ post[1].haslp
  /\ \E i \in MAPIds(lib, post) : last' = [kind |-> "row", id |-> i]
  /\ Log(<<"map">>) /\ UNCHANGED <<lib, post, pmeta, whole, file>>
MedianOp ==
  /\ pmeta = "data" /\ Len(post) > 0
  /\ \E k \in DOMAIN post : last' = [kind |-> "row", id |-> post[k].id]
  /\ Log(<<"median">>) /\ UNCHANGED <<lib, post, pmeta, whole, file>>
\* marginal_ln_likelihood of the held table: one value per row, the library value of the row it descends from
MarginalOp ==
  /\ pmeta = "data" /\ Len(post) > 0
  /\ last' = [kind |-> "values", ids |-> Ids(post)]
  /\ Log(<<"marginal">>) /\ UNCHANGED <<lib, post, pmeta, whole, file>>
\* the orbit of every held row (get_orbit + radial_velocity): the curve its own columns describe NOW - whatever was read, wrapped,
\* copied or pickled before; reading it changes nothing
OrbitsOp ==
  /\ pmeta = "data" /\ Len(post) > 0
  /\ last' = [kind |-> "values", ids |-> Ids(post)]
  /\ Log(<<"orbits">>) /\ UNCHANGED <<lib, post, pmeta, whole, file>>

Next ==
  /\ Len(ops) < MaxOps
  /\ \/ \E nPrior \in Pick(NPriorSet) : \E maxPost \in Pick(MaxPostSet) : \E nLin \in Pick({1, 2}) : \E lp \in Pick(BOOLEAN) : Rejection(nPrior, maxPost, nLin, lp)
     \/ \E nReq \in Pick(NReqSet) : \E nLin \in Pick({1, 2}) : Iterative(nReq, nLin)
     \/ SliceFront \/ SliceBack \/ Second \/ MaskOdd \/ LastRow \/ Copy \/ WrapK \/ Pickle
     \/ \E ow \in Pick(BOOLEAN) : \E ap \in Pick(BOOLEAN) : WriteOp(ow, ap)
     \/ ReadOp \/ MAPOp \/ MedianOp \/ MarginalOp \/ OrbitsOp
Done == Len(ops) = MaxOps /\ UNCHANGED vars
Spec == Init /\ [][Next \/ Done]_vars

(* ---- the composition theorem, as invariants ---- *)
\* every row the user holds or has stored descends from a library row ...
RowsTraceBack == (\A k \in DOMAIN post : post[k].id \in 1..N) /\ (~IsAbsent(file) => \A k \in DOMAIN file.ids : file.ids[k] \in 1..N)
\* ... that could have been accepted: no row with likelihood -inf is ever held or stored
NoImpossibleRow == (\A k \in DOMAIN post : lib[post[k].id] # 0) /\ (~IsAbsent(file) => \A k \in DOMAIN file.ids : lib[file.ids[k]] # 0)
\* the best library row is in an untruncated, unsliced result of a rejection over the whole library
BestRowHeld == whole => \E k \in DOMAIN post : \A p \in 1..N : lib[p] <= lib[post[k].id]
\* the metadata orbit reconstruction needs never changes: a table is the data's, so is every stored file
MetaIsTheDatas == pmeta \in {"none", "data"} /\ (~IsAbsent(file) => file.meta = "data")
\* log-probability columns are all-or-nothing per table
LogprobsUniform == \A j, k \in DOMAIN post : post[j].haslp = post[k].haslp
\* a diagnostic row is a member of the table it was computed from
DiagnosticIsMember == last.kind = "row" => \E k \in DOMAIN post : post[k].id = last.id
\* MAP never prefers a worse row
MAPIsBest == (last.kind = "row" /\ ops # <<>> /\ ops[Len(ops)][1] = "map") => \A k \in DOMAIN post : lib[post[k].id] <= lib[last.id]
\* a refused write leaves the file as it was (action property)
RefusedWriteKeepsFile == [][(last'.kind = "write" /\ last'.raised) => file' = file]_vars
\* files only grow by whole tables, or are replaced
FileAppendOnly == [][(~IsAbsent(file) /\ ~IsAbsent(file') /\ file' # file) =>
                       (\/ (Len(file'.ids) >= Len(file.ids) /\ SubSeq(file'.ids, 1, Len(file.ids)) = file.ids)
                        \/ file'.ids = Ids(post))]_vars

\* the membership predicates the trace monitor uses denote exactly the outcome sets (checked over every sequence of <= 4 ids)
SmallSeqs == UNION {[1..n -> 1..N] : n \in 0..4}
PredicatesDenoteTheSets ==
  ops = <<>> =>
    /\ \A nPrior \in NPriorSet : \A maxPost \in MaxPostSet : \A nLin \in {1, 2} : \A ids \in SmallSeqs :
          (nPrior = 0 \/ \E p \in 1..nPrior : lib[p] # 0) =>
             (InRejection(ids, lib, nPrior, maxPost, nLin) <=> ids \in RejectionOutcomes(lib, nPrior, maxPost, nLin))
    /\ \A nReq \in NReqSet : \A nLin \in {1, 2} : \A ids \in SmallSeqs :
          (InIterative(ids, lib, nReq, nLin) <=> ids \in IterativeOutcomes(lib, nReq, nLin))

ExportCase == (Export /\ Len(ops) = MaxOps) => PrintT(<<"CASE", ops>>)
View == <<lib, post, pmeta, whole, file, last, Len(ops)>>
=============================================================================
