SPECIFICATION Spec
CONSTANTS Kind = "data"
          MaxLen = 3
          Export = FALSE
          Memoised <- DataReads
          Invalidate = TRUE
          CarryMemo = FALSE
          LastReads <- DataReads
INVARIANT ReadsAreIdeal
INVARIANT StoreIsCurrent
INVARIANT AlphabetIsPartitioned
PROPERTY ReadsLeaveTheContent
