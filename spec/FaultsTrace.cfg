INIT Init
NEXT Next
