INIT Init
NEXT Next
