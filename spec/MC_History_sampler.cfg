SPECIFICATION Spec
CONSTANTS Kind = "sampler"
          MaxLen = 3
          Export = FALSE
          Memoised <- SamplerReads
          Invalidate = TRUE
          CarryMemo = FALSE
          LastReads <- SamplerReads
INVARIANT ReadsAreIdeal
INVARIANT StoreIsCurrent
INVARIANT AlphabetIsPartitioned
PROPERTY ReadsLeaveTheContent
