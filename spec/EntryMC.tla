------------------------------- MODULE EntryMC -------------------------------
EXTENDS Entry
CONSTANTS Export
VARIABLES c, pc
vars == <<c, pc>>
Init == /\ \E p \in PriorKinds : \E q \in PoolKinds : \E r \in RngKinds : c = [prior |-> p, pool |-> q, rng |-> r]
        /\ pc = "new"
Done == pc = "new" /\ pc' = "done" /\ (Export => PrintT(<<"CASE", c>>)) /\ UNCHANGED c
Next == Done
Spec == Init /\ [][Next]_vars
\* the two obligations never contradict each other, and every case has at least one allowed outcome
Consistent == ~(MustRaise(c.prior, c.pool, c.rng) /\ MustAccept(c.prior, c.pool, c.rng))
SomeOutcome == \E raised \in BOOLEAN : InitOK(c.prior, c.pool, c.rng, raised)
=============================================================================
