SPECIFICATION Spec
CONSTANTS N = 5
          NProc = 3
          MaxCalls = 3
INVARIANT TasksValid
INVARIANT PureLL
INVARIANT InputOrder
