--------------------------------- MODULE Tok ---------------------------------
(***************************************************************************)
(* Order tokens (DESIGN 2.4): an IEEE-754 double is sent to TLC as the     *)
(* order-preserving 64-bit key of its bit pattern, split into three limbs  *)
(* <<20 bits, 22 bits, 22 bits>>; NaN is <<-2, 0, 0>>.  Comparisons are    *)
(* exact, including ties, and follow IEEE (anything compared with NaN is   *)
(* false).                                                                 *)
(***************************************************************************)
EXTENDS Integers, Sequences

NaNTok == <<-2, 0, 0>>
One  == <<786176, 0, 0>>      \* 1.0
Zero == <<524288, 0, 0>>      \* 0.0
IsNaN(a) == a[1] = -2
RawLt(a, b) == \/ a[1] < b[1]
               \/ a[1] = b[1] /\ a[2] < b[2]
               \/ a[1] = b[1] /\ a[2] = b[2] /\ a[3] < b[3]
Lt(a, b) == ~IsNaN(a) /\ ~IsNaN(b) /\ RawLt(a, b)
Gt(a, b) == Lt(b, a)
Le(a, b) == ~IsNaN(a) /\ ~IsNaN(b) /\ (a = b \/ RawLt(a, b))
Ge(a, b) == Le(b, a)
\* -inf and +inf in this encoding
NegInf == <<255, 4194303, 4194303>>
PosInf == <<1048320, 0, 0>>
IsFinite(a) == ~IsNaN(a) /\ RawLt(NegInf, a) /\ RawLt(a, PosInf)
\* index of a maximal element of a non-empty sequence without NaN
\* (linear scan; the CHOOSE form is quadratic and libraries have thousands of rows)
RECURSIVE ArgMaxFrom(_, _, _)
ArgMaxFrom(s, k, best) == IF k > Len(s) THEN best ELSE ArgMaxFrom(s, k + 1, IF RawLt(s[best], s[k]) THEN k ELSE best)
ArgMax(s) == ArgMaxFrom(s, 2, 1)
=============================================================================
