------------------------------ MODULE TableGuess ------------------------------
(***************************************************************************)
(* Beyond the listed properties: RVData.guess_from_table and               *)
(* guess_time_format (data.py:157-330, data_helpers.py:10-53) as decision  *)
(* tables - which column is taken for time / velocity / uncertainty, which *)
(* time format and scale is assumed, and when the call must raise.  This   *)
(* module documents what the code does (there is no listed property); the  *)
(* conformance check replays every column subset TLC enumerates.           *)
(*  cols   : set of lower-cased column names present in the table          *)
(*  tclass : what the values of a bare "t"/"time" column look like         *)
(*           "jd" | "mjd" | "other" (neither within 50 yr of 2010)         *)
(***************************************************************************)
EXTENDS Naturals, Sequences, FiniteSets, TLC

RVNames == <<"rv", "vr", "radial_velocity", "vhelio", "vrad", "vlos">>
ErrNames(rv) == <<rv \o "err", rv \o "_err", rv \o "_e", "e_" \o rv>>
FirstIn(seq, cols) == IF \E k \in DOMAIN seq : seq[k] \in cols
                      THEN seq[CHOOSE k \in DOMAIN seq : seq[k] \in cols /\ \A j \in 1..(k - 1) : seq[j] \notin cols] ELSE "none"

\* time column: a bare t / time column wins over the format-named ones; among those jd, bjd, mjd, bmjd in this order
FmtCol(cols) == FirstIn(<<"jd", "bjd", "mjd", "bmjd">>, cols)
TimeCol(cols) == IF "t" \in cols THEN "t" ELSE IF "time" \in cols THEN "time" ELSE FmtCol(cols)
\* format: explicit > the format-named column present (even when t / time supplies the data) > guessed from the values
FmtOfCol(c) == IF c \in {"jd", "bjd"} THEN "jd" ELSE IF c \in {"mjd", "bmjd"} THEN "mjd" ELSE "none"
Format(cols, tclass) ==
  IF FmtCol(cols) # "none" THEN FmtOfCol(FmtCol(cols))
  ELSE IF TimeCol(cols) \in {"t", "time"} THEN (IF tclass \in {"jd", "mjd"} THEN tclass ELSE "raise")
  ELSE "raise"
\* barycentric column names imply the TCB scale (unless the caller said otherwise); default scale is UTC
Scale(cols) == IF FmtCol(cols) \in {"bjd", "bmjd"} THEN "tcb" ELSE "utc"
RVCol(cols) == FirstIn(RVNames, cols)
ErrCol(cols) == IF RVCol(cols) = "none" THEN "none" ELSE FirstIn(ErrNames(RVCol(cols)), cols)
Raises(cols, tclass) == TimeCol(cols) = "none" \/ Format(cols, tclass) = "raise" \/ RVCol(cols) = "none" \/ ErrCol(cols) = "none"

\* guess_time_format on an array of values, each classified "jd" | "mjd" | "other"
GuessFormat(classes) == IF classes = {"jd"} THEN "jd" ELSE IF classes = {"mjd"} THEN "mjd" ELSE "raise"
=============================================================================
