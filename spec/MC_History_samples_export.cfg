SPECIFICATION Spec
CONSTANTS Kind = "samples"
          MaxLen = 3
          Export = TRUE
          Memoised <- SamplesReads
          Invalidate = TRUE
          CarryMemo = FALSE
          LastReads <- SamplesReads
INVARIANT ExportCase
