----------------------------- MODULE TableGuessMC -----------------------------
EXTENDS TableGuess
CONSTANTS Vocabulary, Export
VARIABLES cols, tclass, pc
vars == <<cols, tclass, pc>>
Init == cols \in SUBSET Vocabulary /\ Cardinality(cols) <= 5 /\ tclass \in {"jd", "mjd", "other"} /\ pc = "new"
Done == /\ pc = "new" /\ pc' = "exported"
        /\ (Export => PrintT(<<"CASE", [cols |-> cols, tclass |-> tclass]>>))
        /\ UNCHANGED <<cols, tclass>>
Next == Done
Spec == Init /\ [][Next]_vars
\* whenever the call succeeds, the three chosen columns are present and distinct roles never share a column
ChosenPresent == ~Raises(cols, tclass) => {TimeCol(cols), RVCol(cols), ErrCol(cols)} \subseteq cols
ErrBelongsToRV == ~Raises(cols, tclass) => ErrCol(cols) \in {ErrNames(RVCol(cols))[k] : k \in 1..4}
FormatKnown == ~Raises(cols, tclass) => Format(cols, tclass) \in {"jd", "mjd"}
=============================================================================
