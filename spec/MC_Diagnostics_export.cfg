SPECIFICATION Spec
CONSTANTS T = 8
          Periods = {4, 6, 8, 12}
          Refs = {0, 1, 5}
          Export = TRUE
INVARIANT GapBounds
