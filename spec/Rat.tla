--------------------------------- MODULE Rat ---------------------------------
(* Exact rationals <<num, den>> (den > 0, lowest terms) for the lattice computations; TLC integers are 32-bit, every *)
(* result is normalised so that intermediate products stay small (TLC raises on overflow: never silently wrong).     *)
EXTENDS Integers, Sequences
Abs(x) == IF x < 0 THEN -x ELSE x
RECURSIVE GCD(_, _)
GCD(a, b) == IF b = 0 THEN a ELSE GCD(b, a % b)
Norm(n, d) == LET s == IF d < 0 THEN -1 ELSE 1
                  g == GCD(Abs(n), Abs(d))
              IN IF n = 0 THEN <<0, 1>> ELSE <<(s * n) \div g, (s * d) \div g>>
R(n) == <<n, 1>>
RZero == <<0, 1>>
ROne == <<1, 1>>
RAdd(a, b) == LET g == GCD(a[2], b[2]) IN Norm(a[1] * (b[2] \div g) + b[1] * (a[2] \div g), (a[2] \div g) * b[2])
RNeg(a) == <<-a[1], a[2]>>
RSub(a, b) == RAdd(a, RNeg(b))
RMul(a, b) == LET g1 == GCD(Abs(a[1]), b[2]) g2 == GCD(Abs(b[1]), a[2])
              IN IF a[1] = 0 \/ b[1] = 0 THEN RZero
                 ELSE Norm((a[1] \div g1) * (b[1] \div g2), (a[2] \div g2) * (b[2] \div g1))
RInv(a) == Norm(a[2], a[1])
RDiv(a, b) == RMul(a, RInv(b))
RLe(a, b) == a[1] * b[2] <= b[1] * a[2]
RMin(a, b) == IF RLe(a, b) THEN a ELSE b
RECURSIVE RSum(_)
RSum(s) == IF s = <<>> THEN RZero ELSE RAdd(Head(s), RSum(Tail(s)))
IsRat(x) == x[2] > 0
=============================================================================
