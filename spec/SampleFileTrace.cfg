INIT Init
NEXT Next
