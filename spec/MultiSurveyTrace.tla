-------------------------- MODULE MultiSurveyTrace --------------------------
(* Total monitor: one trace = one validate_prepare_data call.               *)
(* [id, srcs, islist, rows, labels, constc, offc, trendc, raised]           *)
EXTENDS MultiSurvey, Json, IOUtils

Tr == JsonDeserialize(IOEnv.TRACE_FILE)
VARIABLES tid, done
vars == <<tid, done>>

Clause(t) ==
  IF t.raised THEN "C08.AcceptedInputRaises"
  ELSE MergeClause(t.srcs, t.islist, t.rows, t.labels, t.constc, t.offc, t.trendc)

Init == tid \in 1..Len(Tr) /\ done = FALSE
Next ==
  /\ ~done /\ done' = TRUE /\ tid' = tid
  /\ LET t == Tr[tid]
         c == Clause(t)
         kf == IF c # "" /\ ~t.raised /\ KF_IdsNotPermuted(t.srcs, t.rank, t.rows, t.labels, t.constc, t.offc, t.trendc)
               THEN "KF_IdsNotPermuted" ELSE ""
     IN PrintT(<<"VERDICT", t.id, c = "", c, 1, kf>>)
=============================================================================
