INIT Init
NEXT Next
