--------------------------- MODULE PartitionProof ---------------------------
(* What the monitor of C16 checks (Partition.IsValidPartition: non-empty, contiguous, ordered tasks from s to s + n, each with its  *)
(* own start index) gives the user what the property promises - every requested row is in exactly one task and nothing else is -    *)
(* for EVERY number of rows, start index and task list (TLC checks it for small ones).  Proved with TLAPS (tlapm).                 *)
EXTENDS Naturals, Sequences, TLAPS, NaturalsInduction

Task == [lo : Nat, hi : Nat, start : Nat]
IsValidPartition(T, n, s) ==
  /\ Len(T) >= 1
  /\ T[1].lo = s
  /\ T[Len(T)].hi = s + n
  /\ \A k \in 1..Len(T) : T[k].lo < T[k].hi /\ T[k].start = T[k].lo
  /\ \A k \in 1..(Len(T) - 1) : T[k].hi = T[k + 1].lo

In(T, k, p) == T[k].lo <= p /\ p < T[k].hi

\* tasks later in the list lie to the right
LEMMA Mono ==
  ASSUME NEW T \in Seq(Task), NEW n \in Nat, NEW s \in Nat, IsValidPartition(T, n, s)
  PROVE \A k \in 1..Len(T) : \A j \in 1..Len(T) : j < k => T[j].hi <= T[k].lo
<1> DEFINE P(k) == k \in 1..Len(T) => \A j \in 1..Len(T) : j < k => T[j].hi <= T[k].lo
<1>0. \A k \in 1..Len(T) : T[k] \in Task /\ T[k].lo \in Nat /\ T[k].hi \in Nat
  BY DEF Task
<1>1. P(0)
  OBVIOUS
<1>2. \A k \in Nat : P(k) => P(k + 1)
  <2> SUFFICES ASSUME NEW k \in Nat, P(k), k + 1 \in 1..Len(T), NEW j \in 1..Len(T), j < k + 1
               PROVE T[j].hi <= T[k + 1].lo
    OBVIOUS
  <2>1. CASE j = k
    <3>1. k \in 1..(Len(T) - 1)
      BY <2>1
    <3> QED BY <3>1, <2>1, <1>0 DEF IsValidPartition
  <2>2. CASE j < k
    <3>1. k \in 1..Len(T) /\ k \in 1..(Len(T) - 1)
      BY <2>2
    <3>2. T[j].hi <= T[k].lo
      BY <3>1, <2>2
    <3>3. T[k].lo < T[k].hi /\ T[k].hi = T[k + 1].lo
      BY <3>1 DEF IsValidPartition
    <3> QED BY <3>2, <3>3, <3>1, <1>0
  <2> QED BY <2>1, <2>2
<1>3. \A k \in Nat : P(k)
  <2> HIDE DEF P
  <2> QED BY <1>1, <1>2, NatInduction, Isa
<1> QED BY <1>3

\* every row up to the end of task k is in one of the first k tasks
LEMMA Cover ==
  ASSUME NEW T \in Seq(Task), NEW n \in Nat, NEW s \in Nat, IsValidPartition(T, n, s), NEW p \in Nat, s <= p
  PROVE \A k \in 1..Len(T) : p < T[k].hi => \E j \in 1..k : In(T, j, p)
<1> DEFINE R(k) == (k + 1) \in 1..Len(T) => (p < T[k + 1].hi => \E j \in 1..(k + 1) : In(T, j, p))
<1>0. \A k \in 1..Len(T) : T[k] \in Task /\ T[k].lo \in Nat /\ T[k].hi \in Nat
  BY DEF Task
<1>1. R(0)
  BY <1>0 DEF IsValidPartition, In
<1>2. \A k \in Nat : R(k) => R(k + 1)
  <2> SUFFICES ASSUME NEW k \in Nat, R(k), (k + 2) \in 1..Len(T), p < T[k + 2].hi
               PROVE \E j \in 1..(k + 2) : In(T, j, p)
    OBVIOUS
  <2>1. (k + 1) \in 1..Len(T) /\ (k + 1) \in 1..(Len(T) - 1)
    OBVIOUS
  <2>2. T[k + 1].hi = T[k + 2].lo
    BY <2>1 DEF IsValidPartition
  <2>3. CASE p < T[k + 1].hi
    <3>1. PICK j \in 1..(k + 1) : In(T, j, p)
      BY <2>3, <2>1
    <3> QED BY <3>1
  <2>4. CASE ~(p < T[k + 1].hi)
    <3>1. T[k + 2].lo <= p
      BY <2>4, <2>2, <2>1, <1>0
    <3> QED BY <3>1 DEF In
  <2> QED BY <2>3, <2>4
<1>3. \A k \in Nat : R(k)
  <2> HIDE DEF R
  <2> QED BY <1>1, <1>2, NatInduction, Isa
<1> QED
  <2> SUFFICES ASSUME NEW k \in 1..Len(T), p < T[k].hi PROVE \E j \in 1..k : In(T, j, p)
    OBVIOUS
  <2>1. (k - 1) \in Nat /\ (k - 1) + 1 = k
    OBVIOUS
  <2> QED BY <2>1, <1>3

THEOREM ExactlyOnce ==
  ASSUME NEW T \in Seq(Task), NEW n \in Nat, NEW s \in Nat, IsValidPartition(T, n, s)
  PROVE /\ \A p \in Nat : (s <= p /\ p < s + n) =>
               \E k \in 1..Len(T) : In(T, k, p) /\ \A j \in 1..Len(T) : In(T, j, p) => j = k
        /\ \A k \in 1..Len(T) : \A p \in Nat : In(T, k, p) => (s <= p /\ p < s + n)
<1>0. \A k \in 1..Len(T) : T[k] \in Task /\ T[k].lo \in Nat /\ T[k].hi \in Nat
  BY DEF Task
<1>m. \A k \in 1..Len(T) : \A j \in 1..Len(T) : j < k => T[j].hi <= T[k].lo
  BY Mono
<1>L. Len(T) \in Nat /\ Len(T) >= 1 /\ 1 \in 1..Len(T) /\ Len(T) \in 1..Len(T)
  BY DEF IsValidPartition
<1>1. ASSUME NEW p \in Nat, s <= p, p < s + n
      PROVE \E k \in 1..Len(T) : In(T, k, p) /\ \A j \in 1..Len(T) : In(T, j, p) => j = k
  <2>1. p < T[Len(T)].hi
    BY <1>1 DEF IsValidPartition
  <2>2. PICK k \in 1..Len(T) : In(T, k, p)
    BY <2>1, <1>L, <1>1, Cover
  <2>3. ASSUME NEW j \in 1..Len(T), In(T, j, p) PROVE j = k
    <3>1. CASE j < k
      <4>1. T[j].hi <= T[k].lo
        BY <3>1, <1>m
      <4> QED BY <4>1, <2>2, <2>3, <1>0 DEF In
    <3>2. CASE k < j
      <4>1. T[k].hi <= T[j].lo
        BY <3>2, <1>m
      <4> QED BY <4>1, <2>2, <2>3, <1>0 DEF In
    <3> QED BY <3>1, <3>2
  <2> QED BY <2>2, <2>3
<1>2. ASSUME NEW k \in 1..Len(T), NEW p \in Nat, In(T, k, p) PROVE s <= p /\ p < s + n
  <2>1. T[1].lo <= T[k].lo
    <3>1. CASE k = 1
      BY <3>1, <1>0
    <3>2. CASE k # 1
      <4>1. T[1].hi <= T[k].lo
        BY <3>2, <1>m, <1>L
      <4>2. T[1].lo < T[1].hi
        BY <1>L DEF IsValidPartition
      <4> QED BY <4>1, <4>2, <1>0, <1>L
    <3> QED BY <3>1, <3>2
  <2>2. T[k].hi <= T[Len(T)].hi
    <3>1. CASE k = Len(T)
      BY <3>1, <1>0
    <3>2. CASE k # Len(T)
      <4>1. T[k].hi <= T[Len(T)].lo
        BY <3>2, <1>m, <1>L
      <4>2. T[Len(T)].lo < T[Len(T)].hi
        BY <1>L DEF IsValidPartition
      <4> QED BY <4>1, <4>2, <1>0, <1>L
    <3> QED BY <3>1, <3>2
  <2> QED BY <2>1, <2>2, <1>2, <1>0, <1>L DEF IsValidPartition, In
<1> QED BY <1>1, <1>2
=============================================================================
