---------------------------- MODULE SampleFileTrace ----------------------------
(* Total monitor for histories of operations on one sample file (C12).                                            *)
(*  Write [tbl, ow, ap, raised, after]   Read [raised, after]                                                     *)
(*  Batch [kind ("pos" | "random"), pos, n, outids, colsok, exact, raised]                                        *)
(*  after = [absent, cols, units, meta, rows, ids]: what is in the file after the call, read back by the harness  *)
EXTENDS SampleFile, Json, IOUtils
Tr == JsonDeserialize(IOEnv.TRACE_FILE)
VARIABLES tid, l, file, ok, clause, pos
vars == <<tid, l, file, ok, clause, pos>>
Ev == Tr[tid].events

Tbl(x) == [cols |-> x.cols, units |-> x.units, meta |-> x.meta, rows |-> x.rows, ids |-> x.ids]
Obs(a) == IF a.absent THEN Absent ELSE Tbl(a)

Outs(e) == WriteOutcomes(file, Tbl(e.tbl), e.ow, e.ap)
\* the allowed outcome the observation matches, if any
Matching(e) == {r \in Outs(e) : r.raised = e.raised /\ r.file = Obs(e.after)}
OnWrite(e) ==
  IF Matching(e) # {} THEN ""
  ELSE IF \A r \in Outs(e) : r.raised /\ ~e.raised THEN (IF e.ap THEN "C12.IncompatibleAppendRefused" ELSE "C12.ExistingFileNotClobbered")
  ELSE IF \A r \in Outs(e) : ~r.raised /\ e.raised THEN (IF e.ap /\ ~e.ow THEN "C12.CompatibleAppendAccepted" ELSE "C12.ValidWriteAccepted")
  ELSE IF e.raised THEN "C12.RefusedWriteLeavesFileUnaltered"
  ELSE IF e.ap /\ ~e.ow /\ ~IsAbsent(file) THEN "C12.AppendIsConcatenation" ELSE "C12.RoundTripExact"
NextFile(e) == IF Matching(e) # {} THEN (CHOOSE r \in Matching(e) : TRUE).file
               ELSE IF \E r \in Outs(e) : r.raised = e.raised THEN (CHOOSE r \in Outs(e) : r.raised = e.raised).file
               ELSE (CHOOSE r \in Outs(e) : TRUE).file

OnRead(e) == IF e.raised THEN "C12.ReadRaises" ELSE IF Obs(e.after) # file THEN "C12.RoundTripExact" ELSE ""

OnBatch(e) ==
  IF IsAbsent(file) THEN ""
  ELSE IF e.raised THEN "C12.BatchReadRaises"
  ELSE IF ~e.colsok \/ ~e.exact THEN "C12.BatchColumnsConvertedToRequestedUnits"
  ELSE IF e.kind = "pos" /\ ~BatchOK(file, e.pos, e.outids) THEN "C12.BatchReturnsRequestedRowsInOrder"
  ELSE IF e.kind = "random" /\ ~RandomOK(file, e.n, e.outids) THEN "C12.RandomBatchDistinctRows"
  ELSE ""

Init == tid \in 1..Len(Tr) /\ l = 1 /\ file = Absent /\ ok = TRUE /\ clause = "" /\ pos = 0
Step ==
  /\ l <= Len(Ev)
  /\ LET e == Ev[l]
         c == IF ~ok THEN clause
              ELSE IF e.ev = "Write" THEN OnWrite(e) ELSE IF e.ev = "Read" THEN OnRead(e)
              ELSE IF e.ev = "Batch" THEN OnBatch(e) ELSE "unknown event"
     IN /\ ok' = (ok /\ c = "") /\ clause' = c /\ pos' = IF ok /\ c # "" THEN l ELSE pos
        /\ file' = IF e.ev = "Write" THEN NextFile(e) ELSE file
  /\ l' = l + 1 /\ tid' = tid
  /\ (l' > Len(Ev) => PrintT(<<"VERDICT", Tr[tid].id, ok', clause', pos', "">>))
Next == Step
=============================================================================
