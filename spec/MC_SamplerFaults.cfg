SPECIFICATION Spec
CONSTANTS Export = FALSE
INVARIANT NoLeak
INVARIANT UserFileIntact
INVARIANT InjectedAlwaysRaises
INVARIANT CacheOnlyOnObjectPath
