SPECIFICATION Spec
CONSTANTS MaxN = 11
          MaxReq = 4
          MaxIter = 128
INVARIANT BudgetRespected
INVARIANT NeverMoreThanBudget
INVARIANT NoRowTwice
INVARIANT EveryBatchNonEmpty
INVARIANT AtMostRequested
INVARIANT ExactlyWhenEnough
INVARIANT TooSmallRaises
INVARIANT NothingEvaluatedWhenTooSmall
INVARIANT IndInv
PROPERTY Terminates
