INIT Init
NEXT Next
