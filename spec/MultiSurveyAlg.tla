--------------------------- MODULE MultiSurveyAlg ---------------------------
(***************************************************************************)
(* validate_prepare_data as the code performs it: Concat ; BuildIds ;      *)
(* Construct (time sort, labels carried along) ; DesignMatrix -- checked   *)
(* against MultiSurvey, and used to enumerate inputs for the replay.       *)
(* KeyRank gives the sort rank of each source's key (np.unique sorts the   *)
(* labels): for list input KeyRank is the identity.                        *)
(***************************************************************************)
EXTENDS MultiSurvey

CONSTANTS MaxObs, MaxSrc, Times, Export, Deviations

VARIABLES srcs, islist, krank, rows, labels, offc, pc
vars == <<srcs, islist, krank, rows, labels, offc, pc>>

Perms(S) == {f \in [S -> S] : \A a, b \in S : a # b => f[a] # f[b]}

\* sources built from an assignment of observation ids to surveys and times; ids ascend inside a source
Build(n, k, asg, tm) ==
  [s \in 1..k |->
     [key |-> s,
      obs |-> LET ids == {i \in 1..n : asg[i] = s}
                  RECURSIVE Asc(_) Asc(S) == IF S = {} THEN <<>> ELSE
                      LET m == CHOOSE x \in S : \A y \in S : x <= y IN <<[id |-> m, t |-> tm[m]]>> \o Asc(S \ {m})
              IN Asc(ids)]]

Init ==
  /\ \E n \in 1..MaxObs : \E k \in 1..MaxSrc :
       \E asg \in [1..n -> 1..k] : \E tm \in [1..n -> Times] :
          /\ \A s \in 1..k : \E i \in 1..n : asg[i] = s          \* no empty survey
          /\ srcs = Build(n, k, asg, tm)
  /\ islist \in BOOLEAN
  /\ krank \in Perms(1..Len(srcs))
  /\ (islist => krank = [s \in 1..Len(srcs) |-> s])
  /\ rows = <<>> /\ labels = <<>> /\ offc = <<>> /\ pc = "concat"

RECURSIVE ConcatRows(_, _)
ConcatRows(S, k) == IF k > Len(S) THEN <<>> ELSE
   [j \in DOMAIN S[k].obs |-> [t |-> S[k].obs[j].t, rvid |-> S[k].obs[j].id, errid |-> S[k].obs[j].id, src |-> k]] \o ConcatRows(S, k + 1)

Concat ==
  /\ pc = "concat"
  /\ rows' = ConcatRows(srcs, 1)
  /\ pc' = "sort" /\ UNCHANGED <<srcs, islist, krank, labels, offc>>

\* RVData sorts the merged rows by time; the labels must travel with their rows
SortRows ==
  /\ pc = "sort"
  /\ \E p \in Perms(DOMAIN rows) :
        /\ \A r \in 1..(Len(rows) - 1) : rows[p[r]].t <= rows[p[r + 1]].t
        /\ rows' = [r \in DOMAIN rows |-> rows[p[r]]]
  /\ pc' = "label" /\ UNCHANGED <<srcs, islist, krank, labels, offc>>

Label ==
  /\ pc = "label"
  /\ labels' = [r \in DOMAIN rows |-> srcs[rows[r].src].key]
  /\ pc' = "design" /\ UNCHANGED <<srcs, islist, krank, rows, offc>>

\* named deviation (disabled unless listed in Deviations): labels stay in concatenation order
KF_LabelInConcatOrder ==
  /\ pc = "label" /\ "KF_IdsNotPermuted" \in Deviations
  /\ labels' = [r \in DOMAIN rows |-> srcs[ConcatLabels(srcs, 1)[r]].key]
  /\ pc' = "design_dev" /\ UNCHANGED <<srcs, islist, krank, rows, offc>>
DesignDev ==
  /\ pc = "design_dev"
  /\ offc' = [j \in 1..(Len(srcs) - 1) |->
                 [r \in DOMAIN rows |-> IF krank[ConcatLabels(srcs, 1)[r]] = j + 1 THEN 1 ELSE 0]]
  /\ pc' = "done" /\ UNCHANGED <<srcs, islist, krank, rows, labels>>

\* np.unique(ids) sorts the labels; the smallest is the reference, the j-th next owns column j
Design ==
  /\ pc = "design"
  /\ offc' = [j \in 1..(Len(srcs) - 1) |->
                 [r \in DOMAIN rows |-> IF krank[rows[r].src] = j + 1 THEN 1 ELSE 0]]
  /\ pc' = "done" /\ UNCHANGED <<srcs, islist, krank, rows, labels>>

Done ==
  /\ pc = "done" /\ pc' = "exported"
  /\ (Export => PrintT(<<"CASE", [srcs |-> srcs, islist |-> islist, krank |-> krank]>>))
  /\ UNCHANGED <<srcs, islist, krank, rows, labels, offc>>

Next == Concat \/ SortRows \/ Label \/ KF_LabelInConcatOrder \/ Design \/ DesignDev \/ Done
Spec == Init /\ [][Next]_vars

Plain(rs) == [r \in DOMAIN rs |-> [t |-> rs[r].t, rvid |-> rs[r].rvid, errid |-> rs[r].errid]]
AlgSatisfiesProperty ==
  pc = "done" => MergeClause(srcs, islist, Plain(rows), labels, [r \in DOMAIN rows |-> 1], offc, <<>>) = ""
\* every behaviour - with or without the deviation - is either right or exactly the named finding
RightOrKnownFinding ==
  pc = "done" => \/ MergeClause(srcs, islist, Plain(rows), labels, [r \in DOMAIN rows |-> 1], offc, <<>>) = ""
                 \/ KF_IdsNotPermuted(srcs, krank, Plain(rows), labels, [r \in DOMAIN rows |-> 1], offc, <<>>)
=============================================================================
