SPECIFICATION Spec
CONSTANTS Kind = "prior"
          MaxLen = 3
          Export = FALSE
          Memoised <- PriorReads
          Invalidate = TRUE
          CarryMemo = FALSE
          LastReads <- PriorReads
INVARIANT ReadsAreIdeal
INVARIANT StoreIsCurrent
INVARIANT AlphabetIsPartitioned
PROPERTY ReadsLeaveTheContent
