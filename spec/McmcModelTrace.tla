--------------------------- MODULE McmcModelTrace ---------------------------
(* Total monitor: a trace is the sequence of setup_mcmc calls made on ONE model,                                 *)
(*   events: [data (which data set the call was for), outcome ("answered" | "refused"),                          *)
(*            describes (the data set the model's model_rv reproduces after the call; 0 = none of the known)]    *)
EXTENDS McmcModel, Sequences, TLC, Json, IOUtils
Tr == JsonDeserialize(IOEnv.TRACE_FILE)
VARIABLES tid, l, ok, clause, pos
tvars == <<tid, l, ok, clause, pos>>
Ev == Tr[tid].events
Clause(e, k) ==
  IF e.outcome \notin {"answered", "refused"} THEN "H.UnknownOutcome"
  ELSE IF k = 1 /\ e.outcome = "refused" THEN "C11.FirstSetupIsAnswered"
  ELSE IF ~CallOK(e.data, e.outcome, e.describes) THEN
       (IF k = 1 THEN "C11.ModelPredictsTheSamplersCurve" ELSE "C11.SecondSetupOnTheSameModelDescribesItsOwnData")
  ELSE ""
\* (the monitor judges call by call with McmcModel.CallOK; the model's own variables stay at their initial values)
TInit == tid \in 1..Len(Tr) /\ l = 1 /\ ok = TRUE /\ clause = "" /\ pos = 0 /\ Init
TStep ==
  /\ l <= Len(Ev)
  /\ LET c == IF ~ok THEN clause ELSE Clause(Ev[l], l)
     IN ok' = (ok /\ c = "") /\ clause' = c /\ pos' = IF ok /\ c # "" THEN l ELSE pos
  /\ l' = l + 1 /\ tid' = tid /\ UNCHANGED vars
  /\ (l' > Len(Ev) => PrintT(<<"VERDICT", Tr[tid].id, ok', clause', pos', "">>))
TNext == TStep
=============================================================================
