------------------------------- MODULE PoolMC -------------------------------
(***************************************************************************)
(* The pool side of the sampler (multiproc_helpers.py:17-60, 63-98, 120;   *)
(* fast_likelihood.pyx:100-114, 445-467, 511-524) as a transition system:  *)
(* a call partitions the requested rows into tasks, processes pick tasks   *)
(* in ANY interleaving, each process owns a helper whose scratch buffers   *)
(* (Kepler column of M_T, jitter-folded ivar, Lambda[0]) persist from one  *)
(* sample to the next and across the calls of a history; results are       *)
(* concatenated in task order.  Evaluating row r yields the TAG            *)
(* <<kcol, sivar, lam0>> of the scratch state it was computed from: the    *)
(* value is "the likelihood of row r" iff the tag is <<r, r, r>>.          *)
(***************************************************************************)
EXTENDS Naturals, Sequences, FiniteSets, TLC, Partition

CONSTANTS N, NProc, MaxCalls

VARIABLES tasks, pending, done, scratch, result, lls, ncall, pc
vars == <<tasks, pending, done, scratch, result, lls, ncall, pc>>

Procs == 1..NProc
Fresh == [kcol |-> 0, sivar |-> 0, lam0 |-> 0]

\* all contiguous ordered non-empty covers of rows 1..N (as sequences of [lo, hi, start], 0-based half-open)
Cuts == SUBSET (1..(N - 1))
TasksOf(cuts) ==
  LET bounds == {0} \cup cuts \cup {N}
      Sorted == [k \in 1..Cardinality(bounds) |-> CHOOSE b \in bounds : Cardinality({x \in bounds : x < b}) = k - 1]
  IN [k \in 1..(Cardinality(bounds) - 1) |-> [lo |-> Sorted[k], hi |-> Sorted[k + 1], start |-> Sorted[k]]]

Init ==
  /\ tasks = <<>> /\ pending = {} /\ done = {} /\ scratch = [p \in Procs |-> Fresh]
  /\ result = <<>> /\ lls = <<>> /\ ncall = 0 /\ pc = "idle"

\* batch_tasks: any valid partition (the batch count is the caller's choice)
Call ==
  /\ pc = "idle" /\ ncall < MaxCalls
  /\ \E cuts \in Cuts :
        /\ tasks' = TasksOf(cuts)
        /\ pending' = DOMAIN TasksOf(cuts)
        /\ result' = [k \in DOMAIN TasksOf(cuts) |-> <<>>]
  /\ done' = {} /\ lls' = <<>> /\ ncall' = ncall + 1 /\ pc' = "mapping"
  /\ UNCHANGED scratch

\* evaluating one row on a helper: every per-sample quantity is recomputed before use
EvalRow(s, r) == [kcol |-> r, sivar |-> r, lam0 |-> r]
Tag(s) == <<s.kcol, s.sivar, s.lam0>>
RECURSIVE RunRows(_, _, _)
\* returns <<scratch after, tags>>
RunRows(s, lo, hi) ==
  IF lo >= hi THEN <<s, <<>>>>
  ELSE LET s1 == EvalRow(s, lo + 1)
           rest == RunRows(s1, lo + 1, hi)
       IN <<rest[1], <<Tag(s1)>> \o rest[2]>>

\* a process takes any pending task (any interleaving / completion order)
RunTask(t, p) ==
  /\ pc = "mapping" /\ t \in pending
  /\ LET r == RunRows(scratch[p], tasks[t].lo, tasks[t].hi)
     IN /\ scratch' = [scratch EXCEPT ![p] = r[1]]
        /\ result' = [result EXCEPT ![t] = r[2]]
  /\ pending' = pending \ {t} /\ done' = done \cup {t}
  /\ UNCHANGED <<tasks, lls, ncall, pc>>

\* a posterior draw for row r on process p leaves Lambda[0] in a state that is not the likelihood's (no cap applied)
DrawLinear(r, p) ==
  /\ pc = "idle" /\ ncall > 0
  /\ scratch' = [scratch EXCEPT ![p] = [kcol |-> r, sivar |-> r, lam0 |-> N + r]]
  /\ UNCHANGED <<tasks, pending, done, result, lls, ncall, pc>>

RECURSIVE Cat(_, _)
Cat(res, k) == IF k > Len(res) THEN <<>> ELSE res[k] \o Cat(res, k + 1)

\* pool.map returns results in TASK order whatever the completion order was
Concat ==
  /\ pc = "mapping" /\ pending = {}
  /\ lls' = Cat(result, 1)
  /\ pc' = "idle"
  /\ UNCHANGED <<tasks, pending, done, scratch, result, ncall>>

Next == Call \/ (\E t \in DOMAIN tasks : \E p \in Procs : RunTask(t, p)) \/ (\E r \in 1..N : \E p \in Procs : DrawLinear(r, p)) \/ Concat
Spec == Init /\ [][Next]_vars

(* ---- properties ---- *)
TasksValid == pc = "mapping" => IsValidPartition(tasks, N, 0)
\* every evaluation anywhere is the evaluation of its own row, whatever ran before on that helper
PureLL == \A t \in DOMAIN result : \A j \in DOMAIN result[t] :
             result[t][j] = <<tasks[t].lo + j, tasks[t].lo + j, tasks[t].lo + j>>
\* values come back in input order, for every partition and every schedule
InputOrder == (pc = "idle" /\ ncall > 0 /\ lls # <<>>) => lls = [r \in 1..N |-> <<r, r, r>>]
=============================================================================
