SPECIFICATION Spec
CONSTANT NData = 3
INVARIANT AnsweredCallsDescribeTheirOwnData
INVARIANT TheModelHoldsWhatWasAnsweredLast
PROPERTY ARefusalChangesNothing
