------------------------------ MODULE PriorTrace ------------------------------
(* Total monitor for prior-distribution observations (C09).                                                          *)
(*  kind "loguniform": [i, k, u4s, draws, xs (evaluation points, rats), logpfinite, ratios (exp(logp(x) - logp(a)) as rat),  *)
(*                      normok]                                                                                      *)
(*  kind "sigmak":     [sK0, p3, r, maxK, obs]      kind "kipping": [which, alpha, beta]                            *)
(*  kind "lnprior":    [gl, poly, noff, sampledS, cols (column names of the sample table), constok, hascol]          *)
EXTENDS PriorModel, Json, IOUtils
Tr == JsonDeserialize(IOEnv.TRACE_FILE)
VARIABLES tid, done
vars == <<tid, done>>
ToSet(s) == {s[k] : k \in DOMAIN s}
Clause(t) ==
  IF t.raised THEN "C09.Raises"
  ELSE IF t.kind = "loguniform" THEN
     \* the scripted flat variates are the symmetric lattice u = 0, 1/4, .., 1: ln x must be affine in u and fill [a, b], in either
     \* direction (x = a (b/a)^u and x = b (b/a)^-u have the same density; the property does not fix the direction)
     IF ~(\/ \A j \in DOMAIN t.u4s : t.draws[j] = DrawP(t.i, t.k, t.u4s[j])
          \/ \A j \in DOMAIN t.u4s : t.draws[j] = DrawP(t.i, t.k, 4 - t.u4s[j])) THEN "C09.LogUniformDrawMap"
     ELSE IF \E j \in DOMAIN t.xs : t.logpfinite[j] # InSupport(t.xs[j], t.i, t.k) THEN "C09.LogDensityMinusInfinityOutsideSupport"
     ELSE IF \E j \in DOMAIN t.xs : InSupport(t.xs[j], t.i, t.k) /\ t.ratios[j] # DensRatio(t.xs[j], R(A(t.i))) THEN "C09.LogUniformDensityProportionalToOneOverX"
     ELSE IF ~t.normok THEN "C09.LogUniformDensityNormalised"
     ELSE ""
  ELSE IF t.kind = "sigmak" THEN
     (IF t.obs # SigmaK(t.sK0, t.p3, t.r, t.maxK) THEN "C09.KScaleRuleWithCap"
      ELSE IF t.muobs # KMean(t.mu) THEN "C09.KPriorMeanAsDeclared"
      ELSE IF \E j \in DOMAIN t.zs : t.zsq[j] # ZSq(t.zs[j]) THEN "C09.KLogDensityIsNormalAboutDeclaredMean"
      ELSE "")
  ELSE IF t.kind = "kipping" THEN
     (IF <<t.alpha, t.beta>> # (IF t.which = "global" THEN KippingGlobal ELSE IF t.which = "short" THEN KippingShort ELSE KippingLong)
      THEN "C09.KippingBetaParameters" ELSE "")
  ELSE IF t.kind = "lnprior" THEN
     IF ~t.hascol THEN "C09.LnPriorColumnPresent"
     ELSE IF ToSet(t.cols) # TermSet(t.gl, t.poly, t.noff, TRUE) \cup {"ln_prior"} THEN "C09.SampledColumns"
     ELSE IF \E j \in DOMAIN t.vdecl : t.vobs[j] # TrendScale(t.vdecl[j]) THEN "C09.TrendPriorScaleAsDeclared"
     ELSE IF t.offobs # t.offdecl THEN "C09.OffsetPriorAsDeclared"
     ELSE IF ~t.insupport THEN "C09.DrawsInsideSupport"
     ELSE IF ~t.constok THEN "C09.LnPriorIsJointLogDensityOfTheRow"
     ELSE IF ~t.kcondok THEN "C09.KDrawnGivenTheRowsOwnPeriodAndEccentricity"
     ELSE ""
  ELSE "unknown kind"
Init == tid \in 1..Len(Tr) /\ done = FALSE
Next == /\ ~done /\ done' = TRUE /\ tid' = tid
        /\ LET t == Tr[tid] cl == Clause(t) IN PrintT(<<"VERDICT", t.id, cl = "", cl, 1, t.kf>>)
=============================================================================
