----------------------------- MODULE RVDataAlg -----------------------------
(***************************************************************************)
(* The constructor as the code performs it -- Mask ; Sort ; SetTRef -- one  *)
(* action per step, over every small input; checked against the            *)
(* declarative clauses of RVData.  The Sort step picks ANY time-sorting     *)
(* permutation (numpy's argsort is not stable).  Export = TRUE prints each  *)
(* enumerated input for the replay driver.                                 *)
(***************************************************************************)
EXTENDS RVData

CONSTANTS MaxObs, Times, Export

VARIABLES obs, clean, rows, tref, pc
vars == <<obs, clean, rows, tref, pc>>

ObsOf(i) == [id : {i}, t : Times, tfin : BOOLEAN, rvfin : BOOLEAN, errfin : BOOLEAN]
\* at most one non-finite component per observation keeps the enumeration small without losing a clause
Inputs(n) == {s \in [1..n -> UNION {ObsOf(i) : i \in 1..n}] :
                 /\ \A k \in 1..n : s[k].id = k
                 /\ \A k \in 1..n : Cardinality({f \in {"t", "rv", "err"} :
                        (f = "t" /\ ~s[k].tfin) \/ (f = "rv" /\ ~s[k].rvfin) \/ (f = "err" /\ ~s[k].errfin)}) <= 1}

Init ==
  /\ \E n \in 1..MaxObs : obs \in Inputs(n)
  /\ clean \in BOOLEAN
  /\ (~clean => \A k \in DOMAIN obs : obs[k].tfin)   \* clean=FALSE with a non-finite time: order undefined, not enumerated
  /\ rows = <<>> /\ tref = "unset" /\ pc = "mask"

Row(o) == [t |-> o.t, rvid |-> o.id, errid |-> o.id]

Mask ==
  /\ pc = "mask"
  /\ rows' = [k \in DOMAIN Kept(obs, clean) |-> Row(Kept(obs, clean)[k])]
  /\ pc' = "sort" /\ UNCHANGED <<obs, clean, tref>>

IsSortingPerm(p, r) ==
  /\ \A a, b \in DOMAIN r : a # b => p[a] # p[b]
  /\ \A k \in 1..(Len(r) - 1) : r[p[k]].t <= r[p[k + 1]].t

Sort ==
  /\ pc = "sort"
  /\ \E p \in [DOMAIN rows -> DOMAIN rows] :
        /\ IsSortingPerm(p, rows)
        /\ rows' = [k \in DOMAIN rows |-> rows[p[k]]]
  /\ pc' = "tref" /\ UNCHANGED <<obs, clean, tref>>

SetTRef ==
  /\ pc = "tref"
  /\ tref' = IF rows = <<>> THEN "none" ELSE MinTime(rows)
  /\ pc' = "done" /\ UNCHANGED <<obs, clean, rows>>

Done ==
  /\ pc = "done" /\ pc' = "exported"
  /\ (Export => PrintT(<<"CASE", [obs |-> obs, clean |-> clean]>>))
  /\ UNCHANGED <<obs, clean, rows, tref>>

Next == Mask \/ Sort \/ SetTRef \/ Done
Spec == Init /\ [][Next]_vars

AlgSatisfiesProperty == pc = "done" => ConstructClause(obs, clean, rows) = ""
DefaultTRefIsEarliest == (pc = "done" /\ rows # <<>>) => \A k \in DOMAIN rows : tref <= rows[k].t
\* anything the mask drops is non-finite, anything it keeps under clean is finite
MaskExact == pc \in {"sort", "tref", "done"} =>
    \A k \in DOMAIN obs : (obs[k].id \in RowIds(rows)) <=> (~clean \/ Finite(obs[k]))
=============================================================================
