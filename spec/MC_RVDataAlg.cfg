SPECIFICATION Spec
CONSTANTS MaxObs = 3
          Times = {1, 2, 3}
          Export = FALSE
INVARIANT AlgSatisfiesProperty
INVARIANT DefaultTRefIsEarliest
INVARIANT MaskExact
