SPECIFICATION Spec
CONSTANTS Kind = "data"
          MaxLen = 3
          Export = TRUE
          Memoised <- DataReads
          Invalidate = TRUE
          CarryMemo = FALSE
          LastReads <- DataReads
INVARIANT ExportCase
