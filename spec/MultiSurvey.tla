----------------------------- MODULE MultiSurvey -----------------------------
(***************************************************************************)
(* Merging several RVData sources (data_helpers.py:56-131) and the         *)
(* constant / offset / trend part of the design matrix                     *)
(* (likelihood_helpers.py:8-37).                                           *)
(*  srcs   : sequence of sources [key, obs], obs a sequence of [id, t]     *)
(*           (ids unique over all sources)                                 *)
(*  rows   : merged rows [t, rvid, errid]                                  *)
(*  labels : survey label per merged row (the source key)                  *)
(*  offc   : offc[j][r] in {0,1}: offset column j at row r                 *)
(* The order among equal times is free; for dict input ANY assignment of   *)
(* offset columns to non-reference surveys is allowed, for list input the  *)
(* first source is the reference and the j-th further source owns column j.*)
(***************************************************************************)
EXTENDS Naturals, Integers, Sequences, FiniteSets, TLC

SrcIdx(srcs) == DOMAIN srcs
ObsIds(s) == {s.obs[j].id : j \in DOMAIN s.obs}
AllIds(srcs) == UNION {ObsIds(srcs[k]) : k \in SrcIdx(srcs)}
Total(srcs) == LET RECURSIVE S(_) S(k) == IF k = 0 THEN 0 ELSE Len(srcs[k].obs) + S(k - 1) IN S(Len(srcs))
SourceOf(srcs, i) == CHOOSE k \in SrcIdx(srcs) : i \in ObsIds(srcs[k])
TimeOfId(srcs, i) == LET s == srcs[SourceOf(srcs, i)] IN s.obs[CHOOSE j \in DOMAIN s.obs : s.obs[j].id = i].t

UnionExact(srcs, rows) ==
  /\ Len(rows) = Total(srcs)
  /\ {rows[r].rvid : r \in DOMAIN rows} = AllIds(srcs)
Paired(srcs, rows) ==
  \A r \in DOMAIN rows : /\ rows[r].errid = rows[r].rvid
                         /\ rows[r].rvid \in AllIds(srcs)
                         /\ rows[r].t = TimeOfId(srcs, rows[r].rvid)
Ordered(rows) == \A r \in 1..(Len(rows) - 1) : rows[r].t <= rows[r + 1].t
LabelsFollow(srcs, rows, labels) ==
  /\ Len(labels) = Len(rows)
  /\ \A r \in DOMAIN rows : labels[r] = srcs[SourceOf(srcs, rows[r].rvid)].key

\* column j marks exactly the rows of source f[j]
ColumnMarks(srcs, rows, col, k) == \A r \in DOMAIN rows : col[r] = (IF SourceOf(srcs, rows[r].rvid) = k THEN 1 ELSE 0)

Injective(f) == \A a, b \in DOMAIN f : a # b => f[a] # f[b]

\* exactly one reference survey R; the other surveys own one offset column each
OffsetsOK(srcs, rows, offc) ==
  /\ Len(offc) = Len(srcs) - 1
  /\ \E R \in SrcIdx(srcs) :
       \E f \in [DOMAIN offc -> SrcIdx(srcs) \ {R}] :
          /\ Injective(f)
          /\ \A j \in DOMAIN offc : ColumnMarks(srcs, rows, offc[j], f[j])
ListOffsetsOK(srcs, rows, offc) ==
  /\ Len(offc) = Len(srcs) - 1
  /\ \A j \in DOMAIN offc : ColumnMarks(srcs, rows, offc[j], j + 1)

MinT(rows) == CHOOSE m \in {rows[r].t : r \in DOMAIN rows} : \A r \in DOMAIN rows : m <= rows[r].t
RECURSIVE Pow(_, _)
Pow(x, i) == IF i = 0 THEN 1 ELSE x * Pow(x, i - 1)
\* trend columns v1, v2, ...: (t - t_ref)^i with t_ref the earliest merged epoch
TrendOK(rows, trendc) ==
  \A i \in DOMAIN trendc : \A r \in DOMAIN rows : trendc[i][r] = Pow(rows[r].t - MinT(rows), i)

MergeClause(srcs, islist, rows, labels, constc, offc, trendc) ==
  IF ~UnionExact(srcs, rows) THEN "C08.MergedIsExactlyTheUnion"
  ELSE IF ~Paired(srcs, rows) THEN "C08.ObservationStaysTogether"
  ELSE IF ~Ordered(rows) THEN "C08.MergedOrderedByTime"
  ELSE IF ~LabelsFollow(srcs, rows, labels) THEN "C08.LabelFollowsObservation"
  ELSE IF \E r \in DOMAIN rows : constc[r] # 1 THEN "C08.ConstantColumn"
  ELSE IF ~OffsetsOK(srcs, rows, offc) THEN "C08.OffsetColumnPerSurveyOneReference"
  ELSE IF islist /\ ~ListOffsetsOK(srcs, rows, offc) THEN "C08.ListOrderFixesReferenceAndOffsets"
  ELSE IF ~TrendOK(rows, trendc) THEN "C08.TrendColumnsRelativeToTRef"
  ELSE ""

(***************************************************************************)
(* Named deviation KF_IdsNotPermuted (known finding, see                    *)
(* known_findings.json): the labels are laid out in source-concatenation   *)
(* order -- all epochs of source 1, then source 2, ... -- whatever the     *)
(* time order of the merged rows, and the offset columns are built from    *)
(* those labels (column j marks the rows labelled with the (j+1)-th        *)
(* smallest key; Rank gives the 1-based rank of each source's key).        *)
(***************************************************************************)
RECURSIVE ConcatLabels(_, _)
ConcatLabels(srcs, k) == IF k > Len(srcs) THEN <<>> ELSE [j \in DOMAIN srcs[k].obs |-> k] \o ConcatLabels(srcs, k + 1)

KF_IdsNotPermuted(srcs, rank, rows, labels, constc, offc, trendc) ==
  LET cl == ConcatLabels(srcs, 1) IN
  /\ UnionExact(srcs, rows) /\ Paired(srcs, rows) /\ Ordered(rows)
  /\ Len(labels) = Len(cl)
  /\ \A r \in DOMAIN labels : labels[r] = srcs[cl[r]].key
  /\ \A r \in DOMAIN rows : constc[r] = 1
  /\ Len(offc) = Len(srcs) - 1
  /\ \A j \in DOMAIN offc : \A r \in DOMAIN rows : offc[j][r] = (IF rank[cl[r]] = j + 1 THEN 1 ELSE 0)
  /\ TrendOK(rows, trendc)
=============================================================================
