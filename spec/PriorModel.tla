------------------------------ MODULE PriorModel ------------------------------
(***************************************************************************)
(* The distributions thejoker defines or configures                        *)
(* (distributions.py:19-176, prior.py:297-575), on a lattice.              *)
(*  - log-uniform period on [a, b], a = 2^i, b = a 16^k:                   *)
(*       draw map  DrawP(u) = a (b/a)^u,   u = u4/4  ->  a 2^(k u4)         *)
(*       density   p(x) = 1 / (x ln(b/a)) inside [a, b], 0 outside          *)
(*       hence     p(x1) / p(x2) = x2 / x1                                  *)
(*  - K | P, e ~ Normal(mu, sigma_K): sigma_K = min(sigma_K0 (P/P0)^(-1/3)  *)
(*       (1 - e^2)^(-1/2), max_K), P0 in the period's unit                  *)
(*  - eccentricity: Beta(0.867, 3.03) (Kipping 2013, global)                *)
(*  - ln_prior of a row = sum of the log-densities of the SAMPLED           *)
(*       parameters at the row's own values (K's given the row's P, e)      *)
(***************************************************************************)
EXTENDS Rat, FiniteSets, TLC

RECURSIVE Pow2(_)
Pow2(n) == IF n = 0 THEN 1 ELSE 2 * Pow2(n - 1)
A(i) == Pow2(i)
Bnd(i, k) == Pow2(i + 4 * k)
DrawP(i, k, u4) == R(Pow2(i + k * u4))
InSupport(x, i, k) == RLe(R(A(i)), x) /\ RLe(x, R(Bnd(i, k)))
\* density ratio p(x1)/p(x2) for x1, x2 inside the support
DensRatio(x1, x2) == RDiv(x2, x1)

\* sigma_K on the lattice: p3 = (P/P0)^(-1/3) in {2, 1, 1/2}, r = sqrt(1 - e^2) in {1, 4/5, 3/5}
SigmaK(sK0, p3, r, maxK) == RMin(RDiv(RMul(sK0, p3), r), maxK)

\* K | P, e is Normal about the DECLARED mean: the location parameter is mu and, for x = mu + z sigma_K,
\*   -2 (ln p(x) - ln p(mu)) = z^2
KMean(mu) == mu
ZSq(z) == RMul(z, z)
\* default trend terms v_i ~ Normal(0, sigma_v[i]) and user offsets dv0_j ~ Normal(m_j, s_j): the scale that reaches the model is
\* the declared one, in whatever (equivalent) unit it was declared - compared in km/s/d^i
TrendScale(declared) == declared

KippingGlobal == <<Norm(867, 1000), Norm(303, 100)>>
KippingShort == <<Norm(697, 1000), Norm(327, 100)>>
KippingLong == <<Norm(112, 100), Norm(309, 100)>>

Nonlinear == {"P", "e", "omega", "M0", "s"}
VN == <<"v0", "v1", "v2">>
DN == <<"dv0_1", "dv0_2">>
LinearSet(poly, noff) == {"K"} \cup {VN[i] : i \in 1..poly} \cup {DN[j] : j \in 1..noff}
\* the parameters whose log-density enters ln_prior (a constant jitter has no density)
TermSet(gl, poly, noff, sampledS) ==
  (Nonlinear \ (IF sampledS THEN {} ELSE {"s"})) \cup (IF gl THEN LinearSet(poly, noff) ELSE {})
Parents(p) == IF p = "K" THEN {"P", "e"} ELSE {}
=============================================================================
