INIT Init
NEXT Next
