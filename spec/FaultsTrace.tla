----------------------------- MODULE FaultsTrace -----------------------------
(* Total monitor for crash-point runs (C13).  One trace = one API call with (or without) an injected failure:      *)
(* [api, path, action, occurrence, injected, raised, sameexc, tmpleft, usersame, followok, modelpoint]              *)
EXTENDS Naturals, Sequences, TLC, Json, IOUtils
Tr == JsonDeserialize(IOEnv.TRACE_FILE)
VARIABLES tid, done
vars == <<tid, done>>
\* t.modelpoint says whether (api, path, action) is one of the crash points SamplerFaults enumerates for the CURRENT pipeline; a
\* crash point outside that list (an implementation that opens the cache with another primitive, say) is still "a step that fails":
\* the same obligations apply.  The check reports how many such points it met (a hint that the model's action list is behind).
Clause(t) ==
  IF t.injected /\ ~t.raised THEN "C13.FailurePropagatesToCaller"
  ELSE IF t.injected /\ ~t.sameexc THEN "C13.CallerSeesTheOriginalException"
  ELSE IF ~t.injected /\ t.raised THEN "C13.UnfaultedCallRaises"
  ELSE IF Len(t.tmpleft) # 0 THEN "C13.NoTemporaryFileLeftBehind"
  ELSE IF ~t.usersame THEN "C13.UserFileUnchanged"
  ELSE IF ~t.followok THEN "C13.SamplerUsableAfterFailure"
  ELSE ""
Init == tid \in 1..Len(Tr) /\ done = FALSE
Next == /\ ~done /\ done' = TRUE /\ tid' = tid
        /\ LET t == Tr[tid] c == Clause(t) IN PrintT(<<"VERDICT", t.id, c = "", c, 1, "">>)
=============================================================================
