SPECIFICATION Spec
CONSTANTS Kind = "samples"
          MaxLen = 3
          Export = FALSE
          Memoised <- SamplesReads
          Invalidate = FALSE
          CarryMemo = FALSE
          LastReads <- SamplesReads
INVARIANT ReadsAreIdeal
