INIT Init
NEXT Next
