---------------------------- MODULE SamplerFaults ----------------------------
(***************************************************************************)
(* The sampler pipeline with a failing twin for every action (C13).        *)
(* A program is the sequence of steps one API call performs (Appendix C of *)
(* DESIGN.md); the cached paths wrap everything after CreateTmp in         *)
(* try/finally (utils.py:278-292).  Any step may fail at its k-th          *)
(* occurrence; after a failure the only enabled steps are Unwind (the      *)
(* cleanup the design promises) and Raise.  TLC enumerates the crash-point *)
(* set; the harness injects an exception at the corresponding call of the  *)
(* real code.                                                              *)
(***************************************************************************)
EXTENDS Naturals, Sequences, FiniteSets, TLC

CONSTANTS Export

Apis == {"marginal", "rejection", "iterative"}
Paths == {"object", "file", "inmem"}

\* steps of the likelihood stage with nt tasks
LL(nt) == <<"Count", "Partition", "Map">> \o [k \in 1..nt |-> "RunTask"] \o <<"Concat">>
Draws(nt) == <<"Count", "Partition", "Spawn", "Map">> \o [k \in 1..nt |-> "RunLinearTask"] \o <<"Concat", "Unpack">>
Body(api, nt, rounds) ==
  CASE api = "marginal"  -> LL(nt)
    [] api = "rejection" -> <<"Count", "CheckLnPrior", "ChooseOrder">> \o LL(nt) \o <<"DrawU", "Accept">> \o Draws(nt) \o <<"Attach">>
    [] api = "iterative" -> <<"Count", "CheckLnPrior", "ChooseOrder">>
                            \o (IF rounds = 1 THEN LL(nt) \o <<"DrawU", "Accept">> ELSE LL(nt) \o <<"DrawU", "Accept">> \o LL(nt) \o <<"DrawU", "Accept">>)
                            \o Draws(nt) \o <<"Attach">>
InMem(api) ==
  CASE api = "marginal"  -> <<"Pack", "EvalAll">>
    [] api = "rejection" -> <<"Pack", "EvalAll", "DrawU", "Accept", "DrawLinear", "Unpack", "Attach">>
    [] api = "iterative" -> <<"Pack", "EvalAll", "DrawU", "Accept", "DrawLinear", "Unpack", "Attach">>
Program(api, path, nt, rounds) ==
  IF path = "inmem" THEN <<"MakeHelper">> \o InMem(api)
  ELSE IF path = "object" THEN <<"MakeHelper", "CreateTmp", "WriteCache">> \o Body(api, nt, rounds)
  ELSE <<"MakeHelper">> \o Body(api, nt, rounds)

VARIABLES api, path, prog, i, failAt, tmp, user, exc, pc
vars == <<api, path, prog, i, failAt, tmp, user, exc, pc>>

Init ==
  /\ api \in Apis /\ path \in Paths
  /\ \E nt \in 1..2 : \E rounds \in 1..2 : prog = Program(api, path, nt, rounds)
  /\ failAt \in 0..Len(prog)              \* 0 = no fault
  /\ i = 1 /\ tmp = {} /\ user = "intact" /\ exc = "none" /\ pc = "running"

\* one step of the program; the failing twin fires instead when this is the chosen crash point
StepOK ==
  /\ pc = "running" /\ i <= Len(prog) /\ i # failAt
  /\ tmp' = IF prog[i] = "CreateTmp" THEN tmp \cup {"cache"} ELSE tmp
  /\ i' = i + 1
  /\ UNCHANGED <<api, path, prog, failAt, user, exc, pc>>
StepFail ==
  /\ pc = "running" /\ i <= Len(prog) /\ i = failAt
  /\ exc' = "injected" /\ pc' = "failed"
  /\ UNCHANGED <<api, path, prog, i, failAt, tmp, user>>
\* the finally clause: the cache file is removed on every exit path (it exists only after CreateTmp succeeded)
Unwind ==
  /\ pc \in {"failed", "finished"}
  /\ tmp' = {}
  /\ pc' = IF pc = "failed" THEN "raised" ELSE "returned"
  /\ UNCHANGED <<api, path, prog, i, failAt, user, exc>>
Finish ==
  /\ pc = "running" /\ i > Len(prog)
  /\ pc' = "finished"
  /\ UNCHANGED <<api, path, prog, i, failAt, tmp, user, exc>>
Done ==
  /\ pc \in {"raised", "returned"} /\ pc' = "exported"
  /\ (Export /\ failAt # 0 => PrintT(<<"CRASHPOINT", [api |-> api, path |-> path, action |-> prog[failAt],
          occurrence |-> Cardinality({j \in 1..failAt : prog[j] = prog[failAt]}), len |-> Len(prog)]>>))
  /\ UNCHANGED <<api, path, prog, i, failAt, tmp, user, exc>>
Next == StepOK \/ StepFail \/ Unwind \/ Finish \/ Done
Spec == Init /\ [][Next]_vars

NoLeak == pc \in {"raised", "returned"} => tmp = {}
UserFileIntact == user = "intact"
FailurePropagates == (pc = "raised" <=> (exc = "injected" /\ pc # "returned")) \/ pc \notin {"raised", "returned"}
InjectedAlwaysRaises == (failAt # 0 /\ pc \in {"raised", "returned", "exported"}) => exc = "injected"
CacheOnlyOnObjectPath == tmp # {} => path = "object"
=============================================================================
