----------------------------- MODULE SampleFileMC -----------------------------
(* Histories of write / overwrite / append over a small family of tables; the properties of C12 as action properties; *)
(* Export prints every history of length Depth for the replay driver.                                                  *)
EXTENDS SampleFile
CONSTANTS Depth, Export
VARIABLES file, hist, lastRaised, nextId
vars == <<file, hist, lastRaised, nextId>>

ColSets == {<<"P", "e">>, <<"P", "e", "K">>}
UnitSets(cs) == IF Len(cs) = 2 THEN {<<"d", "">>, <<"h", "">>} ELSE {<<"d", "", "km/s">>, <<"d", "", "m/s">>}
Metas == {[tref |-> 0, poly |-> 1, noff |-> 0], [tref |-> 5, poly |-> 1, noff |-> 0], [tref |-> -1, poly |-> 1, noff |-> 0], [tref |-> 0, poly |-> 2, noff |-> 0]}
\* table shapes (rows are filled in when the table is written: fresh ids)
Shapes == {[cols |-> cs, units |-> us, meta |-> m, n |-> n] : cs \in ColSets, us \in UNION {UnitSets(c) : c \in ColSets}, m \in Metas, n \in 1..2}
ValidShapes == {s \in Shapes : s.units \in UnitSets(s.cols) /\ (s.meta.poly = 2 => "K" \notin {s.cols[k] : k \in DOMAIN s.cols})}
\* keep the family small: 2 column sets x 2 unit sets x 2 metas, one or two rows
Family == {s \in ValidShapes : s.meta.poly = 1}

MkTable(s, id0) == [cols |-> s.cols, units |-> s.units, meta |-> s.meta,
                    rows |-> [k \in 1..s.n |-> id0 + k], ids |-> [k \in 1..s.n |-> id0 + k]]

Init == file = Absent /\ hist = <<>> /\ lastRaised = FALSE /\ nextId = 0

DoWrite(s, ow, ap) ==
  LET t == MkTable(s, nextId)
  IN \E r \in WriteOutcomes(file, t, ow, ap) :
     /\ file' = r.file /\ lastRaised' = r.raised /\ nextId' = nextId + s.n
     /\ hist' = Append(hist, [op |-> "write", shape |-> s, ow |-> ow, ap |-> ap, raises |-> r.raised,
                              after |-> IF IsAbsent(r.file) THEN <<>> ELSE r.file.ids])
Next == /\ Len(hist) < Depth
        /\ \E s \in Family : \E ow, ap \in BOOLEAN : DoWrite(s, ow, ap)
        /\ (Export /\ Len(hist') = Depth => PrintT(<<"CASE", hist'>>))
Spec == Init /\ [][Next]_vars

Last == hist[Len(hist)]
\* appending yields the concatenation of everything written
AppendIsConcat == [][(Last'.op = "write" /\ Last'.ap /\ ~Last'.ow /\ ~lastRaised' /\ ~IsAbsent(file))
                      => (file'.ids = file.ids \o MkTable(Last'.shape, nextId).ids /\ file'.cols = file.cols
                          /\ file'.units = file.units /\ file'.meta = file.meta)]_vars
\* refused operations do not alter the file
RefusedLeavesFile == [][lastRaised' => file' = file]_vars
\* an append is refused exactly when the tables are incompatible
RefusedOnlyWhenIncompatible ==
  [][(Last'.op = "write" /\ Last'.ap /\ ~Last'.ow /\ ~IsAbsent(file))
       => /\ (Compatible(file, MkTable(Last'.shape, nextId)) => ~lastRaised')
          /\ (~Compatible(file, MkTable(Last'.shape, nextId)) => lastRaised')]_vars
NeverEmptyOnceWritten == (~IsAbsent(file)) => Len(file.ids) >= 1
=============================================================================
