---------------------------- MODULE DiagnosticsExt ----------------------------
(***************************************************************************)
(* Beyond the listed properties (samples_analysis.py:35-55, 137-151):      *)
(*   is_P_unimodal              ptp(P) < 4 Pmin^2 / (2 pi T)               *)
(*   phase_coverage_per_period  the largest number of observations inside  *)
(*                              one period-long window [j, j+1) or         *)
(*                              [j-1/2, j+1/2) of (t - t_ref)/P            *)
(* on the discrete circle of Diagnostics (slot k is at t_ref0 + k days,    *)
(* t_ref = t_ref0 + r - 1/2, so 2 (t - t_ref) = 2 (k - r) + 1 is odd).     *)
(* pi is irrational: the rule is stated with a rational bracket and the    *)
(* thin band in between is left open (membership, DESIGN 2.8 rule 1).      *)
(***************************************************************************)
EXTENDS Diagnostics

\* 333/106 < pi < 355/113
UnimodalSure(Ps, T) == 355 * T * (Max(Ps) - Min(Ps)) < 2 * 113 * Min(Ps) * Min(Ps)
MultimodalSure(Ps, T) == 333 * T * (Max(Ps) - Min(Ps)) >= 2 * 106 * Min(Ps) * Min(Ps)
UnimodalAllowed(Ps, T) == IF UnimodalSure(Ps, T) THEN {TRUE} ELSE IF MultimodalSure(Ps, T) THEN {FALSE} ELSE {TRUE, FALSE}

\* twice the time since the reference epoch (odd); window index for windows starting at whole / half periods.
\* P is even, so D2/(2P) is never a whole or half number and no observation sits on a window edge.
D2(k, r) == 2 * (k - r) + 1
FloorDiv(a, b) == IF a >= 0 THEN a \div b ELSE -(((-a) + b - 1) \div b)
WinWhole(k, r, P) == FloorDiv(D2(k, r), 2 * P)           \* only observations at or after t_ref count
WinHalf(k, r, P) == FloorDiv(D2(k, r) + P, 2 * P)        \* only observations later than t_ref - P/2 count
\* ts is a SEQUENCE of slots: repeated epochs count as separate observations
CountWhole(ts, r, P, j) == Cardinality({i \in DOMAIN ts : D2(ts[i], r) >= 0 /\ WinWhole(ts[i], r, P) = j})
CountHalf(ts, r, P, j) == Cardinality({i \in DOMAIN ts : D2(ts[i], r) + P >= 0 /\ WinHalf(ts[i], r, P) = j})
PerPeriod(ts, r, P) ==
  LET js == {WinWhole(ts[i], r, P) : i \in DOMAIN ts} \cup {WinHalf(ts[i], r, P) : i \in DOMAIN ts} \cup {0}
  IN Max({CountWhole(ts, r, P, j) : j \in js} \cup {CountHalf(ts, r, P, j) : j \in js})
SeqOfSet(S) == LET RECURSIVE F(_) F(Q) == IF Q = {} THEN <<>> ELSE LET a == Min(Q) IN <<a>> \o F(Q \ {a}) IN F(S)
=============================================================================
