INIT Init
NEXT Next
