INIT Init
NEXT Next
