INIT Init
NEXT Next
