-------------------------------- MODULE Gauss --------------------------------
(***************************************************************************)
(* The linear-Gaussian model the kernel must use (fast_likelihood.pyx,     *)
(* likelihood_helpers.py:8-37, samples.py:273-351, 611-632), stated in     *)
(* exact rational arithmetic on a lattice of inputs (DESIGN 2.5).          *)
(* Everything is in PHYSICAL units (km/s, days): the unit a user chose for *)
(* data, priors or sample columns does not appear here - that is C07.      *)
(*                                                                         *)
(* A configuration g:                                                      *)
(*   N, poly, noff        epochs, trend terms, survey offsets              *)
(*   kk[n], ph            epoch n is kk[n] half-periods after t_ref;       *)
(*                        ph = P/2 in days (integer), so dt[n] = kk[n]*ph  *)
(*   m0i, wi, e           M0 = m0i*pi, omega = wi*pi, eccentricity (rat)   *)
(*   lab[n]               survey of epoch n (0 = reference, j = dv0_j)     *)
(*   y[n], sig2[n], s2    velocities, variances, jitter^2                  *)
(*   kkind                "default" (FixedCompanionMass) | "custom" Normal *)
(*   sK0sq, r23, maxKsq   sigma_K0^2, (P/P0)^(-2/3), cap^2                 *)
(*   muK, varK            mean of K prior; variance of a custom K prior    *)
(*   mu[i], var[i]        means / variances of v0, dv0_1.., v1.. (slot     *)
(*                        order of the design matrix AFTER K)              *)
(***************************************************************************)
EXTENDS Rat, FiniteSets, TLC

Sign(j) == IF j % 2 = 0 THEN 1 ELSE -1
L(g) == 1 + g.poly + g.noff
\* Keplerian column: cos(omega + f) + e cos(omega); on the lattice the true anomaly f is 0 or pi
KCol(g, n) == RAdd(R(Sign(g.wi + g.kk[n] + g.m0i)), RMul(g.e, R(Sign(g.wi))))
Dt(g, n) == g.kk[n] * g.ph
RECURSIVE IPow(_, _)
IPow(x, i) == IF i = 0 THEN 1 ELSE x * IPow(x, i - 1)
\* THE slot order shared by the design matrix, the prior means and the prior variances: K, v0, dv0_1.., v1, v2..
MEntry(g, n, i) ==
  IF i = 1 THEN KCol(g, n)
  ELSE IF i = 2 THEN ROne
  ELSE IF i <= 2 + g.noff THEN (IF g.lab[n] = i - 2 THEN ROne ELSE RZero)
  ELSE R(IPow(Dt(g, n), i - 2 - g.noff))
OneMinusE2(g) == RSub(ROne, RMul(g.e, g.e))
\* g.r23 = (P/P0)^(-2/3) with P and P0 in the same unit; g.r23dev is what comes out when P0 is expressed in the period
\* prior's unit while P is in days (named deviation KF_P0Unit; equal to r23 when that unit is the day)
UncappedVarKd(g, dev) == RDiv(RMul(R(g.sK0sq), IF "KF_P0Unit" \in dev THEN g.r23dev ELSE g.r23), OneMinusE2(g))
UncappedVarK(g) == UncappedVarKd(g, {})
\* dev: set of named deviations (known findings) switched on; {} is the specification
LamK(g, dev, drawpath) ==
  IF g.kkind = "custom" THEN (IF "KF_CustomKSlot" \in dev /\ g.noff > 0 THEN RZero ELSE g.varK)
  ELSE IF "KF_NoCapOnPosterior" \in dev /\ drawpath THEN UncappedVarKd(g, dev)
  ELSE RMin(UncappedVarKd(g, dev), g.maxKsq)
Lam(g, dev, drawpath, i) ==
  IF i = 1 THEN LamK(g, dev, drawpath)
  ELSE IF "KF_CustomKSlot" \in dev /\ g.kkind = "custom" /\ g.noff >= 2 /\ i = g.noff + 1 THEN g.varK   \* K's variance lands in slot n_offsets (0-based)
  ELSE R(g.var[i - 1])
Mu(g, dev, i) ==
  IF i = 1 THEN (IF "KF_CustomKSlot" \in dev /\ g.kkind = "custom" /\ g.noff > 0 THEN RZero ELSE R(g.muK))
  ELSE IF "KF_CustomKSlot" \in dev /\ g.kkind = "custom" /\ g.noff >= 2 /\ i = g.noff + 1 THEN R(g.muK)
  ELSE R(g.mu[i - 1])
Cs(g, n) == R(g.sig2[n] + g.s2)

B(g, dev, dp) == [n \in 1..g.N |-> [m \in 1..g.N |->
     RAdd(IF n = m THEN Cs(g, n) ELSE RZero,
          RSum([i \in 1..L(g) |-> RMul(RMul(MEntry(g, n, i), Lam(g, dev, dp, i)), MEntry(g, m, i))]))]]
Bvec(g, dev) == [n \in 1..g.N |-> RSum([i \in 1..L(g) |-> RMul(MEntry(g, n, i), Mu(g, dev, i))])]
Ainv(g, dev, dp) == [i \in 1..L(g) |-> [j \in 1..L(g) |->
     RAdd(IF i = j THEN RInv(Lam(g, dev, dp, i)) ELSE RZero,
          RSum([n \in 1..g.N |-> RDiv(RMul(MEntry(g, n, i), MEntry(g, n, j)), Cs(g, n))]))]]
Rhs(g, dev, dp) == [i \in 1..L(g) |->
     RAdd(RDiv(Mu(g, dev, i), Lam(g, dev, dp, i)),
          RSum([n \in 1..g.N |-> RDiv(RMul(MEntry(g, n, i), R(g.y[n])), Cs(g, n))]))]
\* the RV curve a row (theta, x) denotes, at the data epochs: the SAME columns as the kernel's design matrix
Curve(g, x) == [n \in 1..g.N |-> RSum([i \in 1..L(g) |-> RMul(MEntry(g, n, i), x[i])])]
\* all K-prior variances are positive on the lattice, so every inverse above exists
WellFormed(g) == /\ g.N >= 1 /\ g.poly >= 1 /\ g.noff >= 0 /\ Len(g.kk) = g.N /\ Len(g.lab) = g.N /\ Len(g.y) = g.N /\ Len(g.sig2) = g.N
                 /\ Len(g.mu) = L(g) - 1 /\ Len(g.var) = L(g) - 1 /\ \A i \in DOMAIN g.var : g.var[i] > 0
                 /\ \A n \in 1..g.N : g.sig2[n] > 0 /\ g.lab[n] \in 0..g.noff
=============================================================================
