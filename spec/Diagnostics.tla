----------------------------- MODULE Diagnostics -----------------------------
(***************************************************************************)
(* Time-sampling diagnostics (samples_analysis.py:12-32, 96-151;           *)
(* data.py:365-389) on a discrete circle.  An observation at slot k is at  *)
(* time t_ref0 + k days; the reference epoch is t_ref0 + r - 1/2, so that  *)
(* (t - t_ref) = k - r + 1/2 and, for an integer period P, the phase is    *)
(*      X(k, r, P) / (2P)   with X odd in 1..2P-1                          *)
(* -- never on the edge of a bin when the bin width 2P/n is even.          *)
(***************************************************************************)
EXTENDS Naturals, Integers, FiniteSets, Sequences, TLC

X(k, r, P) == (2 * (k - r) + 1) % (2 * P)
PhaseSet(times, r, P) == {X(k, r, P) : k \in times}

Min(S) == CHOOSE m \in S : \A x \in S : m <= x
Max(S) == CHOOSE m \in S : \A x \in S : m >= x

\* largest empty arc between cyclically consecutive distinct phases, in units of 1/(2P); one phase => whole circle
NextOnCircle(S, a, P) == IF \E b \in S : b > a THEN Min({b \in S : b > a}) ELSE Min(S) + 2 * P
MaxGap2P(S, P) == Max({NextOnCircle(S, a, P) - a : a \in S})

\* number of occupied bins out of n (requires 2P/n to be an even integer)
BinsOK(P, n) == (2 * P) % n = 0 /\ ((2 * P) \div n) % 2 = 0
Occupied(S, P, n) == Cardinality({(n * x) \div (2 * P) : x \in S})

\* baseline in days (numerator of periods_spanned; denominator is P)
Baseline(times) == Max(times) - Min(times)

\* maximisers of ln_prior + ln_likelihood (1-based row numbers)
\* NEG stands for -infinity: a row with a -inf term has posterior -inf whatever the other term is
NEG == -1000000
Post(lp, ll, i) == IF lp[i] <= NEG \/ ll[i] <= NEG THEN NEG ELSE lp[i] + ll[i]
MAPSet(lp, ll) == {i \in DOMAIN lp : \A j \in DOMAIN lp : Post(lp, ll, i) >= Post(lp, ll, j)}

Reflect(times, T) == {T - 1 - k : k \in times}
=============================================================================
