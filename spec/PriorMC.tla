------------------------------- MODULE PriorMC -------------------------------
(* Lattice theorems of PriorModel and the enumeration of cases for the replay driver. *)
EXTENDS PriorModel
CONSTANTS Export
VARIABLES kind, c, pc
vars == <<kind, c, pc>>
P3s == {<<2, 1>>, <<1, 1>>, <<1, 2>>}
Rs == {<<1, 1>>, <<4, 5>>, <<3, 5>>}
Init ==
  /\ kind \in {"loguniform", "sigmak", "lnprior"}
  /\ \/ kind = "loguniform" /\ \E i \in 0..3 : \E k \in 1..2 : c = [i |-> i, k |-> k]
     \/ kind = "sigmak" /\ \E s \in {1, 2} : \E p3 \in P3s : \E r \in Rs : \E cap \in {<<1, 1>>, <<3, 2>>, <<500, 1>>} :
          \E mu \in {<<0, 1>>, <<3, 1>>, <<-2, 1>>} :
            c = [sK0 |-> <<s, 1>>, p3 |-> p3, r |-> r, maxK |-> cap, mu |-> mu]
     \/ kind = "lnprior" /\ \E gl \in BOOLEAN : \E poly \in 1..3 : \E noff \in 0..2 : \E ss \in BOOLEAN :
          \E sk \in {"uniform", "lognormal"} : \E vu \in 1..3 :
            c = [gl |-> gl, poly |-> poly, noff |-> noff, sampledS |-> ss, skind |-> sk, vunits |-> vu]
  /\ pc = "new"
Done == /\ pc = "new" /\ pc' = "exported" /\ (Export => PrintT(<<"CASE", kind, c>>)) /\ UNCHANGED <<kind, c>>
Next == Done
Spec == Init /\ [][Next]_vars
\* draws are inside the support, monotone in u, hit both ends
DrawsInSupport == kind = "loguniform" => \A u4 \in 0..4 : InSupport(DrawP(c.i, c.k, u4), c.i, c.k)
DrawEnds == kind = "loguniform" => DrawP(c.i, c.k, 0) = R(A(c.i)) /\ DrawP(c.i, c.k, 4) = R(Bnd(c.i, c.k))
\* equal steps in u multiply x by a constant factor: the density of ln x is flat, i.e. p(x) is proportional to 1/x
LogFlat == kind = "loguniform" => \A u4 \in 0..3 :
    RDiv(DrawP(c.i, c.k, u4 + 1), DrawP(c.i, c.k, u4)) = RDiv(DrawP(c.i, c.k, 1), DrawP(c.i, c.k, 0))
RatioLaw == kind = "loguniform" => \A u, v \in 0..4 :
    RMul(DensRatio(DrawP(c.i, c.k, u), DrawP(c.i, c.k, v)), DrawP(c.i, c.k, u)) = DrawP(c.i, c.k, v)
SigmaCapped == kind = "sigmak" => RLe(SigmaK(c.sK0, c.p3, c.r, c.maxK), c.maxK)
\* the log-density of K about its mean is even in z and zero at the mean
ZSqEven == kind = "sigmak" => \A z \in {<<0, 1>>, <<1, 1>>, <<-1, 1>>, <<2, 1>>} : ZSq(z) = ZSq(RNeg(z)) /\ (ZSq(z) = R(0) <=> z = R(0))
KOnlyWithLinear == kind = "lnprior" => (("K" \in TermSet(c.gl, c.poly, c.noff, c.sampledS)) <=> c.gl)
=============================================================================
