SPECIFICATION Spec
CONSTANTS MaxObs = 4
          MaxSrc = 3
          Times = {1, 2}
          Deviations = {"KF_IdsNotPermuted"}
          Export = FALSE
INVARIANT RightOrKnownFinding
