------------------------------ MODULE SamplerMC ------------------------------
(***************************************************************************)
(* Exhaustive exploration of the rejection pipeline on small classes:      *)
(* library of N rows, likelihood classes (0 = -inf, 1..3 finite), uniform  *)
(* classes relative to each row's ratio, all option combinations.  One     *)
(* action per step of the code; the properties are separate formulas.      *)
(*  ll class c  -> token <<c + 600000, 0, 0>> (c=0: NegInf)                 *)
(*  ratio of class c given max class m: One if c = m, Zero if c = 0,       *)
(*                  else a token strictly between, increasing in c         *)
(*  u classes: "zero", "below" (just below ratio), "equal", "above", "hi"  *)
(***************************************************************************)
EXTENDS Sampler, TLC

CONSTANTS MaxN, LLClasses, UClasses, MaxPostSet, NPriorSet, NLinearSet, Export

VARIABLES lib, order, evald, lls, ucls, good, full, out, opts, pc
vars == <<lib, order, evald, lls, ucls, good, full, out, opts, pc>>

LLTok(c) == IF c = 0 THEN NegInf ELSE <<600000 + c, 0, 0>>
MaxClass(cs) == CHOOSE m \in Range(cs) : \A x \in Range(cs) : x <= m
RatioTok(c, m) == IF c = m THEN One ELSE IF c = 0 THEN Zero ELSE <<700000 + c, 0, 0>>
\* uniform token for class k relative to ratio token r  (uniform draws are in [0, 1))
UTok(k, r) == CASE k = "zero"  -> Zero
                [] k = "below" -> IF r = Zero THEN Zero ELSE <<r[1] - 1, 4194303, 4194303>>
                [] k = "equal" -> IF r = One THEN <<786175, 4194303, 4194303>> ELSE r
                [] k = "above" -> IF r = One THEN <<786175, 4194303, 4194303>> ELSE <<r[1], 0, 1>>
                [] k = "hi"    -> <<786175, 4194303, 4194303>>

Perms(n) == {f \in [1..n -> 1..n] : \A a, b \in 1..n : a # b => f[a] # f[b]}

Init ==
  /\ \E n \in 1..MaxN :
       /\ lib \in [1..n -> LLClasses]
       /\ \E r \in 1..n : lib[r] # 0                \* at least one finite likelihood
       /\ order \in Perms(n)
       /\ ucls \in [1..n -> UClasses]
  /\ opts \in [maxPost : MaxPostSet, nPrior : NPriorSet, nLinear : NLinearSet]
  /\ (opts.nPrior # 0 => opts.nPrior <= Len(lib))
  /\ evald = <<>> /\ lls = <<>> /\ good = <<>> /\ full = <<>> /\ out = <<>> /\ pc = "start"

\* evaluated rows need a finite maximum too (the property's quantifier)
Eval ==
  /\ pc = "start"
  /\ evald' = Evaluated(order, opts.nPrior)
  /\ lls' = [p \in DOMAIN evald' |-> lib[evald'[p]]]
  /\ pc' = IF \E p \in DOMAIN lls' : lls'[p] # 0 THEN "evaluated" ELSE "skip"
  /\ UNCHANGED <<lib, order, ucls, good, full, out, opts>>

Ratio == [p \in DOMAIN lls |-> RatioTok(lls[p], MaxClass(lls))]
U == [p \in DOMAIN lls |-> UTok(ucls[evald[p]], Ratio[p])]

AcceptStep ==
  /\ pc = "evaluated"
  /\ good' = Accept(Ratio, U)
  /\ pc' = "accepted" /\ UNCHANGED <<lib, order, evald, lls, ucls, full, out, opts>>
TruncateStep ==
  /\ pc = "accepted"
  /\ good' = Truncate(good, opts.maxPost)
  /\ pc' = "truncated" /\ UNCHANGED <<lib, order, evald, lls, ucls, full, out, opts>>
MapStep ==
  /\ pc = "truncated"
  /\ full' = MapRows(evald, good)
  /\ pc' = "mapped" /\ UNCHANGED <<lib, order, evald, lls, ucls, good, out, opts>>
ReturnStep ==
  /\ pc = "mapped"
  /\ out' = [k \in 1..(Len(full) * opts.nLinear) |->
               [row |-> Expand(full, opts.nLinear)[k], lnlike |-> lls[good[GoodOf(k, opts.nLinear)]]]]
  /\ pc' = "returned" /\ UNCHANGED <<lib, order, evald, lls, ucls, good, full, opts>>
  /\ (Export => PrintT(<<"CASE", [lib |-> lib, order |-> order, ucls |-> ucls, opts |-> opts,
                                   rows |-> Expand(full, opts.nLinear)]>>))

Next == Eval \/ AcceptStep \/ TruncateStep \/ MapStep \/ ReturnStep
Spec == Init /\ [][Next]_vars

(* ---- properties (phrased like C02 / C06, independent of the action definitions) ---- *)
RatioModelSane == pc \in {"evaluated", "accepted"} =>
    RatioSane([p \in DOMAIN lls |-> LLTok(lls[p])], Ratio)
\* the best evaluated sample always survives (u < 1), unless truncation cut it
BestSurvives == pc = "accepted" => \E k \in DOMAIN good : lls[good[k]] = MaxClass(lls)
\* a -inf sample never survives next to a finite one
NegInfNeverKept == pc = "returned" => \A k \in DOMAIN out : lib[out[k].row] # 0
\* every returned row is an evaluated library row, rows in evaluation order, each nLinear times consecutively
RowsAreEvaluatedRows == pc = "returned" => \A k \in DOMAIN out : out[k].row \in Range(evald)
InEvaluationOrder == pc = "returned" =>
    \A j, k \in DOMAIN out : j < k =>
        LET pj == CHOOSE p \in DOMAIN evald : evald[p] = out[j].row
            pk == CHOOSE p \in DOMAIN evald : evald[p] = out[k].row
        IN pj <= pk
NoRowTwiceUnlessLinear == pc = "returned" =>
    \A r \in Range(evald) : Cardinality({k \in DOMAIN out : out[k].row = r}) \in {0, opts.nLinear}
TruncationIsPrefix == pc = "returned" /\ opts.maxPost # 0 =>
    /\ Len(out) <= opts.maxPost * opts.nLinear
    /\ LET all == Accept(Ratio, U) IN \A k \in DOMAIN good : good[k] = all[k]
OnlyFirstNPriorEvaluated == pc = "returned" /\ opts.nPrior # 0 => evald = SubSeq(order, 1, opts.nPrior)
\* C06: each row carries the likelihood of its own sample
LnLikeOfOwnRow == pc = "returned" => \A k \in DOMAIN out : out[k].lnlike = lib[out[k].row]
=============================================================================
