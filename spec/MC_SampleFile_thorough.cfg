SPECIFICATION Spec
CONSTANTS Depth = 4
          Export = FALSE
INVARIANT NeverEmptyOnceWritten
PROPERTY AppendIsConcat
PROPERTY RefusedLeavesFile
PROPERTY RefusedOnlyWhenIncompatible
