SPECIFICATION Spec
CONSTANTS MaxN = 3
          Export = TRUE
INVARIANT WellFormedCases
INVARIANT Symmetric
INVARIANT JitterOnDiagonal
INVARIANT CapLowers
INVARIANT ZeroMeansZeroB
INVARIANT DeviationClasses
