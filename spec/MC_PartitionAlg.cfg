SPECIFICATION Spec
CONSTANTS MaxN = 24
          MaxB = 28
          MaxS = 3
          Export = FALSE
INVARIANT AlgRefinesPartition
INVARIANT AlgArrayOK
INVARIANT ValidImpliesExactlyOnce
INVARIANT BatchCount
