------------------------------- MODULE GaussMC -------------------------------
(* Structural enumeration for the kernel replay (every poly_trend x offsets labelling x K-prior kind x means x jitter kind  *)
(* on 1..3 epochs) and theorems of Gauss checked by TLC on the lattice: the curve of the posterior mean solves the normal  *)
(* equations (Ainv a = rhs is linear in y), symmetric matrices, unit / deviation independence of what they do not touch.   *)
EXTENDS Gauss
CONSTANTS MaxN, Export
VARIABLES g, pc
vars == <<g, pc>>
Es == {<<0, 1>>, <<3, 5>>, <<4, 5>>}
Primes == <<9, 25, 49, 121, 169>>
\* structural point: values are fixed small representatives here; the replay driver draws the other lattice values itself
Init ==
  /\ \E N \in 1..MaxN : \E poly \in 1..3 : \E noff \in 0..2 : \E lab \in [1..N -> 0..noff] :
     \E kkind \in {"default", "custom"} : \E capped \in BOOLEAN : \E means \in BOOLEAN : \E s2 \in {0, 1} : \E e \in Es :
       /\ noff + 1 <= N
       /\ \A j \in 0..noff : \E n \in 1..N : lab[n] = j          \* every survey observed
       /\ lab[1] = 0 /\ \A n \in 1..(N - 1) : lab[n + 1] <= lab[n] + 1  \* canonical labelling (surveys numbered by first appearance)
       /\ (kkind = "custom" => ~capped)
       /\ g = [N |-> N, poly |-> poly, noff |-> noff, kk |-> [n \in 1..N |-> n], ph |-> 1, m0i |-> 1, wi |-> 0, e |-> e,
               lab |-> lab, y |-> [n \in 1..N |-> n - 2], sig2 |-> [n \in 1..N |-> IF n % 2 = 0 THEN 4 ELSE 1], s2 |-> s2,
               kkind |-> kkind, sK0sq |-> 4, r23 |-> <<4, 1>>, r23dev |-> <<4, 1>>, maxKsq |-> IF capped THEN <<1, 1>> ELSE <<250000, 1>>,
               muK |-> IF means THEN 2 ELSE 0, varK |-> <<169, 1>>,
               mu |-> [i \in 1..(poly + noff) |-> IF means THEN (i % 3) ELSE 0], var |-> [i \in 1..(poly + noff) |-> Primes[i]]]
  /\ pc = "new"
Done == /\ pc = "new" /\ pc' = "exported"
        /\ (Export => PrintT(<<"CASE", [N |-> g.N, poly |-> g.poly, noff |-> g.noff, lab |-> g.lab, kkind |-> g.kkind,
                                       capped |-> g.maxKsq = <<1, 1>>, means |-> g.muK = 2, s2 |-> g.s2, e |-> g.e]>>))
        /\ UNCHANGED g
Next == Done
Spec == Init /\ [][Next]_vars

Sym(Mx) == \A i \in DOMAIN Mx : \A j \in DOMAIN Mx : Mx[i][j] = Mx[j][i]
WellFormedCases == WellFormed(g)
Symmetric == Sym(B(g, {}, FALSE)) /\ Sym(Ainv(g, {}, FALSE))
\* jitter enters B only on the diagonal, by exactly s^2
JitterOnDiagonal ==
  LET g0 == [g EXCEPT !.s2 = 0] IN
  \A n \in 1..g.N : \A m \in 1..g.N :
     B(g, {}, FALSE)[n][m] = RAdd(B(g0, {}, FALSE)[n][m], IF n = m THEN R(g.s2) ELSE RZero)
\* the cap can only lower the K variance; marginal and posterior path use the same one
CapLowers == (g.kkind = "default" => RLe(LamK(g, {}, FALSE), UncappedVarK(g))) /\ LamK(g, {}, TRUE) = LamK(g, {}, FALSE)
\* zero means => b = 0
ZeroMeansZeroB == (g.muK = 0 /\ \A i \in DOMAIN g.mu : g.mu[i] = 0) => \A n \in 1..g.N : Bvec(g, {})[n] = RZero
\* each named deviation changes the state somewhere in its declared input class and nowhere outside it
DeviationClasses ==
  /\ ((g.kkind = "custom" /\ g.noff > 0) \/ B(g, {"KF_CustomKSlot"}, FALSE) = B(g, {}, FALSE))
  /\ (B(g, {"KF_NoCapOnPosterior"}, FALSE) = B(g, {}, FALSE))
  /\ ((g.kkind = "default" /\ ~RLe(UncappedVarK(g), g.maxKsq)) \/ Ainv(g, {"KF_NoCapOnPosterior"}, TRUE) = Ainv(g, {}, TRUE))
=============================================================================
