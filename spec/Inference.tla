------------------------------ MODULE Inference ------------------------------
(***************************************************************************)
(* Beyond the listed properties: JokerSamples.from_inference_data          *)
(* (samples.py:107-165) - how an MCMC result becomes a sample table.       *)
(* A posterior is C chains of D draws; draw (c, d) has identity            *)
(* (c - 1) * D + d (chain-major, the order numpy's ravel gives).           *)
(*   div      set of identities flagged as divergent                       *)
(*   prune    remove divergent draws                                       *)
(*   root     the caller passed the root InferenceData (has sample_stats)  *)
(*            rather than only its posterior group                         *)
(***************************************************************************)
EXTENDS Naturals, Sequences, FiniteSets

AllDraws(C, D) == [k \in 1..(C * D) |-> k]
SeqOf(S) == [k \in 1..Cardinality(S) |-> CHOOSE p \in S : Cardinality({q \in S : q < p}) = k - 1]
\* pruning needs the sample statistics: without the root object the call must raise
Raises(prune, root) == prune /\ ~root
Rows(C, D, div, prune) == IF prune THEN SeqOf({k \in 1..(C * D) : k \notin div}) ELSE AllDraws(C, D)
\* extra columns: ln_posterior iff the posterior carries logp; ln_likelihood / ln_prior iff it carries them
ExtraCols(hasLogp, hasLL, hasLP) == (IF hasLogp THEN {"ln_posterior"} ELSE {}) \cup (IF hasLL THEN {"ln_likelihood"} ELSE {})
                                    \cup (IF hasLP THEN {"ln_prior"} ELSE {})
=============================================================================
