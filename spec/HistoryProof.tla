---------------------------- MODULE HistoryProof ----------------------------
(* The memo discipline of HistoryMC for histories of ANY length (TLC checks it to 3-4 calls): an implementation that may remember  *)
(* what its reads computed, clears the store on every content-changing call and starts derived objects with an empty store,       *)
(* answers every read from the present content.  Proved with TLAPS (tlapm): StoreIsCurrent is inductive and implies the answer.   *)
EXTENDS Naturals, Sequences, TLAPS
CONSTANTS Reads, Changes, Memoised
ASSUME Disjoint == Reads \cap Changes = {}
VARIABLES content, memo, ret
vars == <<content, memo, ret>>
NoRet == <<"none", <<>>>>
Empty == [x \in {} |-> <<>>]

Init == content = <<>> /\ memo = Empty /\ ret = NoRet
Answer(r) == IF r \in DOMAIN memo THEN <<r, memo[r]>> ELSE <<r, content>>
Read(r) ==
  /\ r \in Reads
  /\ ret' = Answer(r)
  /\ memo' = IF r \in Memoised /\ r \notin DOMAIN memo
             THEN [x \in DOMAIN memo \cup {r} |-> IF x = r THEN content ELSE memo[x]]
             ELSE memo
  /\ content' = content
Change(c) ==
  /\ c \in Changes
  /\ content' = Append(content, c)
  /\ memo' = Empty
  /\ ret' = NoRet
Next == (\E r \in Reads : Read(r)) \/ (\E c \in Changes : Change(c))
Spec == Init /\ [][Next]_vars

StoreIsCurrent == \A r \in DOMAIN memo : memo[r] = content
\* what a read answers in a state where the store is current
AnswerIsIdeal == \A r \in Reads : Answer(r) = <<r, content>>

THEOREM Inductive == Spec => []StoreIsCurrent
<1>1. Init => StoreIsCurrent
  BY DEF Init, StoreIsCurrent, Empty
<1>2. StoreIsCurrent /\ [Next]_vars => StoreIsCurrent'
  <2> SUFFICES ASSUME StoreIsCurrent, [Next]_vars PROVE StoreIsCurrent'
    OBVIOUS
  <2>1. CASE \E r \in Reads : Read(r)
    <3> PICK r \in Reads : Read(r)
      BY <2>1
    <3>1. content' = content
      BY DEF Read
    <3>2. CASE r \in Memoised /\ r \notin DOMAIN memo
      <4>1. memo' = [x \in DOMAIN memo \cup {r} |-> IF x = r THEN content ELSE memo[x]]
        BY <3>2 DEF Read
      <4>2. \A x \in DOMAIN memo' : memo'[x] = content
        BY <4>1 DEF StoreIsCurrent
      <4> QED BY <4>2, <3>1 DEF StoreIsCurrent
    <3>3. CASE ~(r \in Memoised /\ r \notin DOMAIN memo)
      <4>1. memo' = memo
        BY <3>3 DEF Read
      <4> QED BY <4>1, <3>1 DEF StoreIsCurrent
    <3> QED BY <3>2, <3>3
  <2>2. CASE \E c \in Changes : Change(c)
    <3> PICK c \in Changes : Change(c)
      BY <2>2
    <3>1. memo' = Empty
      BY DEF Change
    <3> QED BY <3>1 DEF StoreIsCurrent, Empty
  <2>3. CASE UNCHANGED vars
    BY <2>3 DEF vars, StoreIsCurrent
  <2> QED BY <2>1, <2>2, <2>3 DEF Next
<1> QED BY <1>1, <1>2, PTL DEF Spec

THEOREM Ideal == StoreIsCurrent => AnswerIsIdeal
  BY DEF StoreIsCurrent, AnswerIsIdeal, Answer
=============================================================================
