SPECIFICATION Spec
CONSTANTS MaxN = 9
          MaxB = 11
          MaxS = 2
          Export = TRUE
INVARIANT AlgRefinesPartition
