SPECIFICATION Spec
CONSTANTS MaxCalls = 4
          MaxTasks = 4
CONSTRAINT Bound
INVARIANT NoStreamReuse
INVARIANT OneTaskPerChild
INVARIANT GlobalsUntouched
