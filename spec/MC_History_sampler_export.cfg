SPECIFICATION Spec
CONSTANTS Kind = "sampler"
          MaxLen = 3
          Export = TRUE
          Memoised <- SamplerReads
          Invalidate = TRUE
          CarryMemo = FALSE
          LastReads <- SamplerReads
INVARIANT ExportCase
