--------------------------- MODULE PartitionTrace ---------------------------
(***************************************************************************)
(* Total monitor for recorded calls of batch_tasks / run_worker.           *)
(* One trace = one call: [id, kind, n, s, arr, tasks, (results)]           *)
(*  kind = "idx": tasks are [lo, hi, start]                                *)
(*  kind = "arr": tasks are [payload, start]; arr is the supplied array    *)
(*  kind = "run": run_worker through a recording pool: tasks as above      *)
(*                (mode given by arrkind), results = the per-task tags the *)
(*                pool returned, in the order run_worker returned them     *)
(***************************************************************************)
EXTENDS Naturals, Sequences, TLC, Json, IOUtils, Partition

Tr == JsonDeserialize(IOEnv.TRACE_FILE)

VARIABLES tid, done
vars == <<tid, done>>

Clause(t) ==
  IF t.kind = "idx" THEN PartitionClause(t.tasks, t.n, t.s)
  ELSE IF t.kind = "arr" THEN ArrayClause(t.tasks, t.n, t.s, t.arr)
  ELSE \* run_worker: partition of the requested range, results in task order
    LET c == IF t.arrkind = "idx" THEN PartitionClause(t.tasks, t.n, t.s)
             ELSE ArrayClause(t.tasks, t.n, t.s, t.arr)
    IN IF c # "" THEN c
       ELSE IF t.results # [k \in 1..Len(t.tasks) |-> k] THEN "C16.ResultsInTaskOrder"
       ELSE ""

Init == tid \in 1..Len(Tr) /\ done = FALSE
Next ==
  /\ ~done /\ done' = TRUE /\ tid' = tid
  /\ LET t == Tr[tid]
         c == Clause(t)
     IN PrintT(<<"VERDICT", t.id, c = "", c, 1, "">>)
=============================================================================
