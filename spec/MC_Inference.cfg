SPECIFICATION Spec
CONSTANTS MaxC = 2
          MaxD = 3
          Export = FALSE
INVARIANT NoDivergentKept
INVARIANT OrderKept
INVARIANT AllKeptWithoutPruning
INVARIANT CountsAddUp
