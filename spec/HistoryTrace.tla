----------------------------- MODULE HistoryTrace -----------------------------
(* Total monitor for replayed histories.  A trace is                                                                  *)
(*   [id, kind ("samples" | "data" | "prior" | "sampler"),                                                            *)
(*    events: sequence of [op, cls ("read" | "mut" | "deriv" | "draw"),                                               *)
(*                         content  (the calls the driver replayed on the fresh twin before this read; <<>> otherwise)  *)
(*                         same     (read only: the used object's answer equals the fresh twin's, exceptions included)  *)
(*                         raised   (a mut / deriv call raised on the used object)]]                                  *)
(* The monitor recomputes the content from the calls seen so far (History.ContentOf): a driver that replayed anything   *)
(* else on the twin is a machinery failure (family H.), an answer that differs from the twin's is a violation of the   *)
(* property that owns the read (History.Owner).                                                                        *)
EXTENDS History, TLC, Json, IOUtils
Tr == JsonDeserialize(IOEnv.TRACE_FILE)
VARIABLES tid, l, seen, fails
vars == <<tid, l, seen, fails>>
Ev == Tr[tid].events
K == Tr[tid].kind
Add(fs, cl, pos) == IF cl = "" \/ fs # <<>> THEN fs ELSE <<<<cl, pos>>>>       \* the first failure ends the judgement

Clause(e) ==
  IF K \notin Kinds THEN "H.UnknownKind"
  ELSE IF ClassOf(K, e.op) = "unknown" \/ ClassOf(K, e.op) # e.cls THEN "H.CallNotInTheAlphabet"
  ELSE IF e.cls \in {"read", "draw"} THEN
       (IF e.content # ContentOf(K, seen) THEN "H.TwinWasNotBuiltFromTheContent"
        ELSE IF ~e.same THEN Owner(K, e.op) \o ".AnswerDependsOnlyOnTheContent"
        ELSE "")
  ELSE IF e.raised THEN (IF K = "data" THEN "C15" ELSE IF K = "prior" THEN "C09" ELSE IF K = "sampler" THEN "C10" ELSE "C17") \o ".ContentChangingCallRaises"
  ELSE ""

Init == tid \in 1..Len(Tr) /\ l = 1 /\ seen = <<>> /\ fails = <<>>
Step ==
  /\ l <= Len(Ev)
  /\ fails' = Add(fails, Clause(Ev[l]), l)
  /\ seen' = Append(seen, Ev[l].op)
  /\ l' = l + 1 /\ tid' = tid
  /\ (l' > Len(Ev) => PrintT(<<"VERDICT", Tr[tid].id, fails' = <<>>, fails'>>))
Next == Step
Spec == Init /\ [][Next]_vars
=============================================================================
