------------------------------ MODULE EntryTrace ------------------------------
(* kind "init":   [prior, pool, rng, raised, typeerror, dirbefore, dirafterinit, dirafterread]                       *)
(* kind "rename": [what, same, warned, both]                                                                         *)
EXTENDS Entry, Sequences, Json, IOUtils
Tr == JsonDeserialize(IOEnv.TRACE_FILE)
VARIABLES tid, done
vars == <<tid, done>>
Clause(t) ==
  IF t.kind = "init" THEN
     IF ~InitOK(t.prior, t.pool, t.rng, t.raised) THEN (IF t.raised THEN "X07.ValidConstructorArgumentsAccepted" ELSE "X07.InvalidConstructorArgumentsRaise")
     ELSE IF t.raised /\ ~t.typeerror THEN "X07.RaisesTypeError"
     ELSE IF ~t.raised /\ ~DirOK(t.dirbefore, t.dirafterinit, t.dirafterread) THEN "X07.TempDirectoryCreatedOnAccessOnly"
     ELSE ""
  ELSE IF ~RenameOK(t.same, t.warned, t.both) THEN
     (IF ~t.same THEN "X07.DeprecatedNameIsAPureRename" ELSE IF ~t.warned THEN "X07.DeprecatedNameWarns" ELSE "X07.BothNamesRefused")
  ELSE ""
Init == tid \in 1..Len(Tr) /\ done = FALSE
Next == /\ ~done /\ done' = TRUE /\ tid' = tid
        /\ LET t == Tr[tid] cl == Clause(t) IN PrintT(<<"VERDICT", t.id, cl = "", cl, 1, "">>)
=============================================================================
