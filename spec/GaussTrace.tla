------------------------------ MODULE GaussTrace ------------------------------
(***************************************************************************)
(* Total monitor for kernel-level executions (C01, C03, C04, C07, C11).    *)
(* A trace: one configuration g (module Gauss) realised through the public *)
(* API in some unit assignment, then observations projected back to        *)
(* physical units and to exact rationals (den = 0 marks "off the lattice").*)
(*  Cfg    [g]                                                             *)
(*  Kernel [fam, B, b, finite, llok, apisame]      state after the marginal*)
(*                                                 likelihood of the row   *)
(*  Draw   [fam, Ainv, rhs, B, covok, ncalls, size, nlinear, outx, sent,   *)
(*          thetasame]                             posterior-draw path     *)
(*  Orbit  [fam, x, curve, lnlikeok, bayesok, trefsame]                    *)
(*  Mcmc   [fam, x, curve, lnlikeok, initok]       pymc model of setup_mcmc*)
(* Clauses are named <fam>.<Name>; known deviations are tried when a       *)
(* comparison fails and reported in the verdict's kf field.                *)
(***************************************************************************)
EXTENDS Gauss, Json, IOUtils
Tr == JsonDeserialize(IOEnv.TRACE_FILE)
VARIABLES tid, l, g, fails, dkf, kkf
vars == <<tid, l, g, fails, dkf, kkf>>
Ev == Tr[tid].events

KFs == {"KF_CustomKSlot", "KF_NoCapOnPosterior", "KF_P0Unit"}
DevSets == (SUBSET KFs) \ {{}}
Name(S) == IF S = {"KF_CustomKSlot"} THEN "KF_CustomKSlot"
           ELSE IF S = {"KF_NoCapOnPosterior"} THEN "KF_NoCapOnPosterior"
           ELSE IF S = {"KF_P0Unit"} THEN "KF_P0Unit"
           ELSE IF S = {"KF_P0Unit", "KF_NoCapOnPosterior"} THEN "KF_P0Unit+KF_NoCapOnPosterior"
           ELSE "unnamed"

Add(fs, cl, pos, kf) == IF cl = "" \/ \E k \in DOMAIN fs : fs[k][1] = cl THEN fs ELSE Append(fs, <<cl, pos, kf>>)

\* ---- Kernel (marginal path) ----
KernelMatches(e, dev) == e.B = B(g, dev, FALSE) /\ e.b = Bvec(g, dev)
KernelKF(e) == IF \E S \in DevSets : Name(S) # "unnamed" /\ KernelMatches(e, S)
               THEN Name(CHOOSE S \in DevSets : Name(S) # "unnamed" /\ KernelMatches(e, S)) ELSE ""
OnKernel(e) ==
  IF ~e.finite THEN <<e.fam \o ".FiniteForValidInput", "">>
  ELSE IF e.b # Bvec(g, {}) THEN <<e.fam \o ".PriorMeansInTheirSlots", KernelKF(e)>>
  ELSE IF e.B # B(g, {}, FALSE) THEN
       (IF g.s2 # 0 /\ e.B = B([g EXCEPT !.s2 = 0], {}, FALSE) THEN <<e.fam \o ".JitterInTheCovariance", "">>
        ELSE <<e.fam \o ".MarginalCovarianceIsCsPlusMLambdaMt", KernelKF(e)>>)
  ELSE IF ~e.llok THEN <<e.fam \o ".ValueIsLnNormalOfThatGaussian", "">>
  ELSE IF ~e.apisame THEN <<e.fam \o ".SameValueThroughEveryEntryPoint", "">>
  ELSE <<"", "">>

\* ---- Draw (posterior path) ----
\* with KF_CustomKSlot the K slot has variance 0: the precision is +infinity there (<<1, 0>>) and the mean is undefined
DrawMatches(e, dev) == e.Ainv = Ainv(g, dev, TRUE) /\ ("KF_CustomKSlot" \in dev \/ e.rhs = Rhs(g, dev, TRUE))
\* through the cache-file path only cov = inv(Ainv) is observable; with KF_CustomKSlot the precision is infinite in the K slot
\* and the covariance handed to the generator is not finite
DrawKF(e) == IF e.tag # "" /\ ~e.covfinite /\ g.kkind = "custom" /\ g.noff > 0 THEN "KF_CustomKSlot" ELSE IF \E S \in DevSets : Name(S) # "unnamed" /\ DrawMatches(e, S)
             THEN Name(CHOOSE S \in DevSets : Name(S) # "unnamed" /\ DrawMatches(e, S)) ELSE ""
OnDraw(e) ==
  IF e.ncalls # 1 \/ e.size # e.nlinear THEN <<e.fam \o "." \o e.tag \o "OneDrawCallPerSampleWithNLinearDraws", "">>
  ELSE IF e.Ainv # Ainv(g, {}, TRUE) THEN
       (IF g.s2 # 0 /\ e.Ainv = Ainv([g EXCEPT !.s2 = 0], {}, TRUE) THEN <<e.fam \o "." \o e.tag \o "JitterInThePosterior", "">>
        ELSE <<e.fam \o "." \o e.tag \o "PosteriorPrecisionSameModelAsMarginal", DrawKF(e)>>)
  ELSE IF e.rhs # Rhs(g, {}, TRUE) THEN <<e.fam \o "." \o e.tag \o "PosteriorMean", DrawKF(e)>>
  ELSE IF ~e.covok THEN <<e.fam \o "." \o e.tag \o "CovarianceIsInverseOfPrecision", "">>
  ELSE IF ~e.thetasame THEN <<e.fam \o "." \o e.tag \o "NonlinearParametersCopiedUnchanged", "">>
  ELSE IF e.outx # e.sent THEN <<e.fam \o "." \o e.tag \o "DrawEmittedInItsSlotAndUnit", "">>
  ELSE <<"", "">>

\* ---- Orbit (reconstructed orbit of a row) ----
OnOrbit(e) ==
  IF ~e.trefsame THEN <<e.fam \o "." \o e.tag \o "SamplesCarryTheDataReferenceEpoch", "">>
  ELSE IF e.curve # Curve(g, e.x) THEN <<e.fam \o "." \o e.tag \o "RowDenotesTheSamplersCurve", "">>
  ELSE IF ~e.lnlikeok THEN <<e.fam \o "." \o e.tag \o "UnmarginalizedLikelihoodUsesJitteredVariance", "">>
  \* the identity is a composite of the kernel's marginal state (Kernel event), its posterior state (Draw event), the curve
  \* and the unmarginalised likelihood (checked above, independently of the kernel).  When the kernel's marginal or
  \* posterior state was classified as a known deviation earlier in this trace, a failing identity is that deviation
  \* seen through the identity.
  ELSE IF ~e.bayesok THEN <<e.fam \o "." \o e.tag \o "BayesIdentity", IF dkf # "" THEN dkf ELSE kkf>>
  ELSE <<"", "">>

\* ---- unit twins of one physical problem through rejection_sample with equal seeds ----
OnTwin(e) ==
  IF e.raised THEN <<e.fam \o ".TwinRaises", "">>
  ELSE IF e.idsA # e.idsB THEN <<e.fam \o ".AcceptedSetUnchangedByUnits", e.kf>>
  ELSE IF ~e.lloffsetok THEN <<e.fam \o ".LikelihoodChangesOnlyByJacobianConstant", e.kf>>
  ELSE IF ~e.physeq THEN <<e.fam \o ".PosteriorSamplesPhysicallyEqual", e.kf>>
  ELSE <<"", "">>

OnMcmc(e) ==
  IF ~e.initok THEN <<e.fam \o ".InitialPointIsTheChosenSampleInPriorUnits", "">>
  ELSE IF e.curve # Curve(g, e.x) THEN <<e.fam \o ".ModelPredictsTheSamplersCurve", "">>
  ELSE IF ~e.obsok THEN <<e.fam \o ".DataTermIsTheJitteredGaussian", "">>
  ELSE IF ~e.lnlikeok THEN <<e.fam \o ".LnLikelihoodDiagnosticIsTheDataTerm", e.kf>>
  ELSE IF ~e.freeok THEN <<e.fam \o ".FreeVariablesAreThePriorsVariables", "">>
  ELSE IF ~e.termsok THEN <<e.fam \o ".TotalDensityIsThePriorsPlusOneDataTerm", "">>
  ELSE <<"", "">>

Init == tid \in 1..Len(Tr) /\ l = 1 /\ g = [N |-> 0] /\ fails = <<>> /\ dkf = "" /\ kkf = ""
Step ==
  /\ l <= Len(Ev)
  /\ LET e == Ev[l]
         r == CASE e.ev = "Cfg" -> (IF WellFormed(e.g) THEN <<"", "">> ELSE <<"H.ConfigNotWellFormed", "">>)
                [] e.ev = "Kernel" -> OnKernel(e) [] e.ev = "Draw" -> OnDraw(e) [] e.ev = "Orbit" -> OnOrbit(e)
                [] e.ev = "Mcmc" -> OnMcmc(e) [] e.ev = "Twin" -> OnTwin(e) [] OTHER -> <<"H.UnknownEvent", "">>
     IN /\ g' = IF e.ev = "Cfg" THEN e.g ELSE g
        /\ dkf' = IF e.ev = "Draw" THEN (IF DrawMatches(e, {}) THEN "" ELSE DrawKF(e)) ELSE dkf
        /\ kkf' = IF e.ev = "Kernel" THEN (IF KernelMatches(e, {}) THEN "" ELSE KernelKF(e)) ELSE kkf
        /\ fails' = Add(fails, r[1], l, r[2])
  /\ l' = l + 1 /\ tid' = tid
  /\ (l' > Len(Ev) => PrintT(<<"VERDICT", Tr[tid].id, fails' = <<>>, fails'>>))
Next == Step
=============================================================================
