SPECIFICATION Spec
CONSTANTS MaxObs = 5
          MaxSrc = 3
          Times = {1, 2, 3}
          Deviations = {}
          Export = FALSE
INVARIANT AlgSatisfiesProperty
