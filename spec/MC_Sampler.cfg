SPECIFICATION Spec
CONSTANTS MaxN = 3
          LLClasses = {0, 1, 2, 3}
          UClasses = {"zero", "below", "equal", "above", "hi"}
          MaxPostSet = {0, 1, 2}
          NPriorSet = {0, 2}
          NLinearSet = {1, 2}
          Export = FALSE
INVARIANT RatioModelSane
INVARIANT BestSurvives
INVARIANT NegInfNeverKept
INVARIANT RowsAreEvaluatedRows
INVARIANT InEvaluationOrder
INVARIANT NoRowTwiceUnlessLinear
INVARIANT TruncationIsPrefix
INVARIANT OnlyFirstNPriorEvaluated
INVARIANT LnLikeOfOwnRow
