--------------------------- MODULE IterativeCases ---------------------------
(* Enumerates the request space of iterative_rejection_sample for the replay driver, with the outcome the          *)
(* specification (module Iterative, action Check) fixes before anything is evaluated.                              *)
EXTENDS Integers, TLC
CONSTANTS MaxN, MaxReq
VARIABLES n, mp, nreq, initb, uprofile, done
vars == <<n, mp, nreq, initb, uprofile, done>>
Min(a, b) == IF a < b THEN a ELSE b
Budget == IF mp = 0 THEN n ELSE Min(mp, n)
Init == /\ n \in 1..MaxN /\ mp \in 0..MaxN /\ nreq \in 1..MaxReq /\ initb \in 1..(MaxN + 1)
        /\ uprofile \in {"all", "bestonly", "none_but_best_late", "random"} /\ done = FALSE
Next == /\ ~done /\ done' = TRUE
        /\ PrintT(<<"CASE", [n |-> n, mp |-> mp, nreq |-> nreq, initb |-> initb, uprofile |-> uprofile,
                             budget |-> Budget, mustraise |-> initb > Budget]>>)
        /\ UNCHANGED <<n, mp, nreq, initb, uprofile>>
=============================================================================
