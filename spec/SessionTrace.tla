----------------------------- MODULE SessionTrace -----------------------------
(***************************************************************************)
(* Total monitor for recorded sessions (composition of sampler, sample     *)
(* table, sample file and diagnostics; extension X03).  A trace is         *)
(*   [id, N, rank (likelihood rank of each library row, 1..N; 0 = -inf),   *)
(*    prank (rank of ln_prior + ln_likelihood of each library row),        *)
(*    events: sequence of                                                  *)
(*      [op, a1, a2, a3, a4 (arguments, 0 / FALSE when unused), raised,    *)
(*       ids (library row each held table row descends from, by its P),    *)
(*       lltag, lptag (library row whose likelihood / ln_prior each row    *)
(*                     carries; <<>> without log-probability columns),     *)
(*       haslp, meta ("data" | "other" | "none"),                          *)
(*       fids, fmeta, fhaslp, fabsent (the samples file read back),        *)
(*       ret (library row a diagnostic returned, 0 otherwise),             *)
(*       vals (library row whose likelihood each marginal value equals)]]  *)
(* The monitor carries the specification's state (post, pmeta, file) from  *)
(* event to event; deterministic operations must reproduce it exactly,     *)
(* sampling calls must land inside the outcome set.                        *)
(***************************************************************************)
EXTENDS Session, Json, IOUtils

Tr == JsonDeserialize(IOEnv.TRACE_FILE)
VARIABLES tid, l, post, haslp, pmeta, file, fails
vars == <<tid, l, post, haslp, pmeta, file, fails>>

Ev == Tr[tid].events
Lib == Tr[tid].rank
Add(fs, cl, pos) == IF cl = "" \/ fs # <<>> THEN fs ELSE <<<<cl, pos>>>>       \* the first failure ends the judgement

T(ids, lp) == [k \in DOMAIN ids |-> [id |-> ids[k], haslp |-> lp]]
ObsFile(e) == IF e.fabsent THEN Absent ELSE [ids |-> e.fids, meta |-> e.fmeta, haslp |-> e.fhaslp]

\* what every successful table-returning call must satisfy: rows descend from library rows, log-probabilities travel with them
Carried(e) ==
  IF \E k \in DOMAIN e.ids : e.ids[k] \notin 1..Tr[tid].N THEN "X03.RowDescendsFromALibraryRow"
  ELSE IF e.haslp /\ (Len(e.lltag) # Len(e.ids) \/ \E k \in DOMAIN e.ids : e.lltag[k] # e.ids[k]) THEN "X03.LnLikelihoodTravelsWithItsRow"
  ELSE IF e.haslp /\ (Len(e.lptag) # Len(e.ids) \/ \E k \in DOMAIN e.ids : e.lptag[k] # e.ids[k]) THEN "X03.LnPriorTravelsWithItsRow"
  ELSE IF e.meta # "data" THEN "X03.TableKeepsTheDatasEpochAndModelSize"
  ELSE ""

SelOf(op, n) == CASE op = "front" -> SliceSel(n, 0, (n + 1) \div 2)
                  [] op = "back" -> SliceSel(n, n \div 2, n)
                  [] op = "second" -> EverySecond(n)
                  [] op = "maskodd" -> MaskSel(n, LAMBDA p : post[p] % 2 = 1)
                  [] op = "lastrow" -> <<n>>
                  [] OTHER -> [k \in 1..n |-> k]

Clause(e) ==
  CASE e.op = "rej" ->
         IF e.raised THEN "X03.SamplingRaised"
         ELSE IF ~InRejection(e.ids, Lib, e.a1, e.a2, e.a3) THEN "X03.RejectionOutcomeAllowedByTheRule"
         ELSE IF e.haslp # e.a4 THEN "X03.LogprobColumnsIffRequested"
         ELSE Carried(e)
    [] e.op = "iter" ->
         IF e.raised THEN "X03.SamplingRaised"
         ELSE IF ~InIterative(e.ids, Lib, e.a1, e.a2) THEN "X03.IterativeOutcomeAllowedByTheRule"
         ELSE Carried(e)
    [] e.op \in {"front", "back", "second", "maskodd", "lastrow", "copy", "wrapk", "pickle"} ->
         IF e.raised THEN "X03.TableOperationRaised"
         ELSE IF e.ids # [k \in DOMAIN SelOf(e.op, Len(post)) |-> post[SelOf(e.op, Len(post))[k]]] THEN "X03.TableOperationSelectsTheRows"
         ELSE IF e.haslp # haslp THEN "X03.TableOperationKeepsLogprobColumns"
         ELSE Carried(e)
    [] e.op = "write" ->
         LET r == Write(file, T(post, haslp), pmeta, haslp, e.a1, e.a2) IN
         IF e.raised # r.raised THEN "X03.WriteRefusedIffItMust"
         ELSE IF ObsFile(e) # r.file THEN "X03.FileHoldsWhatWasWritten"
         ELSE ""
    [] e.op = "read" ->
         IF e.raised THEN "X03.ReadRaised"
         ELSE IF e.ids # file.ids \/ e.haslp # file.haslp THEN "X03.ReadReturnsTheFile"
         ELSE Carried(e)
    [] e.op = "map" ->
         IF e.raised THEN "X03.DiagnosticRaised"
         ELSE IF e.ret \notin MAPIds(Tr[tid].prank, T(post, haslp)) THEN "X03.MAPIsABestMemberOfTheHeldTable" ELSE ""
    [] e.op = "median" ->
         IF e.raised THEN "X03.DiagnosticRaised"
         ELSE IF e.ret \notin Range(post) THEN "X03.MedianPeriodIsAMemberOfTheHeldTable" ELSE ""
    [] e.op = "marginal" ->
         IF e.raised THEN "X03.MarginalRaised"
         ELSE IF e.vals # post THEN "X03.MarginalOfHeldRowsIsTheirLibraryValue" ELSE ""
    [] e.op = "orbits" ->
         IF e.raised THEN "X03.OrbitRaised"
         ELSE IF e.vals # post THEN "X03.OrbitIsTheCurveOfTheRowAsItIs" ELSE ""
    [] OTHER -> "H.UnknownOperation"

Init == tid \in 1..Len(Tr) /\ l = 1 /\ post = <<>> /\ haslp = FALSE /\ pmeta = "none" /\ file = Absent /\ fails = <<>>

Step ==
  /\ l <= Len(Ev)
  /\ LET e == Ev[l]
         returnsTable == e.op \in {"rej", "iter", "front", "back", "second", "maskodd", "lastrow", "copy", "wrapk", "pickle", "read"}
     IN /\ fails' = Add(fails, Clause(e), l)
        \* adopt the observed state (so that one failure does not cascade; the verdict is already negative)
        /\ post' = IF returnsTable /\ ~e.raised THEN e.ids ELSE post
        /\ haslp' = IF returnsTable /\ ~e.raised THEN e.haslp ELSE haslp
        /\ pmeta' = IF returnsTable /\ ~e.raised THEN e.meta ELSE pmeta
        /\ file' = ObsFile(e)
  /\ l' = l + 1 /\ tid' = tid
  /\ (l' > Len(Ev) => PrintT(<<"VERDICT", Tr[tid].id, fails' = <<>>, fails'>>))
Next == Step
=============================================================================
