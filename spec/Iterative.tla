------------------------------ MODULE Iterative ------------------------------
(***************************************************************************)
(* The grow-and-retest loop of iterative_rejection_sample                  *)
(* (likelihood_helpers.py:130-229, multiproc_helpers.py:289-427): cursor   *)
(* arithmetic only.  The content of a test (which samples pass) is the     *)
(* rule of module Sampler; here the number that pass is ANY number allowed *)
(* by it, and the growth policy is ANY batch size >= 1 (DESIGN 2.8 rule 1).*)
(*   B       budget = min(max_prior_samples or library size, library size) *)
(*   cursor  rows of the evaluation order consumed before the current batch*)
(*   nProc   size of the current batch                                     *)
(*   nEval   likelihoods accumulated so far (= Len(all_marg_lls))          *)
(***************************************************************************)
EXTENDS Integers

CONSTANTS
  \* @type: Int;
  MaxN,
  \* @type: Int;
  MaxReq,
  \* @type: Int;
  MaxIter

VARIABLES
  \* @type: Int;
  N,
  \* @type: Int;
  B,
  \* @type: Int;
  nReq,
  \* @type: Int;
  cursor,
  \* @type: Int;
  nProc,
  \* @type: Int;
  nEval,
  \* @type: Int;
  nGood,
  \* @type: Int;
  iter,
  \* @type: Int;
  nOut,
  \* @type: Str;
  pc

vars == <<N, B, nReq, cursor, nProc, nEval, nGood, iter, nOut, pc>>

Min(a, b) == IF a < b THEN a ELSE b

Init ==
  /\ N \in 1..MaxN
  /\ \E mp \in 0..MaxN : B = (IF mp = 0 THEN N ELSE Min(mp, N))
  /\ nReq \in 1..MaxReq
  /\ nProc \in 1..(MaxN + 1)            \* init_batch_size (or growth_factor * n_requested)
  /\ cursor = 0 /\ nEval = 0 /\ nGood = 0 /\ iter = 0 /\ nOut = 0
  /\ pc = "check"

\* size check before starting: a library / budget too small for the first batch raises, nothing is evaluated
Check ==
  /\ pc = "check"
  /\ pc' = IF nProc > B THEN "raised" ELSE "eval"
  /\ UNCHANGED <<N, B, nReq, cursor, nProc, nEval, nGood, iter, nOut>>

\* evaluate rows order[cursor+1 .. cursor+nProc]
Eval ==
  /\ pc = "eval"
  /\ nEval' = nEval + nProc
  /\ pc' = "test"
  /\ UNCHANGED <<N, B, nReq, cursor, nProc, nGood, iter, nOut>>

\* fresh uniforms for every accumulated likelihood; any number of them may pass
Test ==
  /\ pc = "test"
  /\ \E g \in 0..nEval :
        /\ nGood' = g
        /\ pc' = IF g = 0 THEN "raised" ELSE IF g >= nReq THEN "stop" ELSE "grow"
  /\ UNCHANGED <<N, B, nReq, cursor, nProc, nEval, iter, nOut>>

\* advance the cursor, pick ANY next batch size >= 1, clamp it to the budget; stop when the budget is used up
Grow ==
  /\ pc = "grow"
  /\ cursor' = cursor + nProc
  /\ iter' = iter + 1
  /\ \E want \in 1..(2 * MaxN) :
        LET clamped == IF cursor' + want > B THEN B - cursor' ELSE want
        IN  /\ nProc' = clamped
            /\ pc' = IF clamped <= 0 THEN "stop" ELSE IF iter' >= MaxIter THEN "raised" ELSE "eval"
  /\ UNCHANGED <<N, B, nReq, nEval, nGood, nOut>>

Stop ==
  /\ pc = "stop"
  /\ nOut' = Min(nGood, nReq)
  /\ pc' = "returned"
  /\ UNCHANGED <<N, B, nReq, cursor, nProc, nEval, nGood, iter>>

Next == Check \/ Eval \/ Test \/ Grow \/ Stop
Spec == Init /\ [][Next]_vars /\ WF_vars(Next)

(* ---- properties, phrased like C14 ---- *)
BudgetRespected == pc = "eval" => cursor + nProc <= B
NeverMoreThanBudget == nEval <= B
NoRowTwice == (pc = "eval" => nEval = cursor) /\ (pc \in {"test", "grow"} => nEval = cursor + nProc)
EveryBatchNonEmpty == pc = "eval" => nProc >= 1
AtMostRequested == pc = "returned" => nOut <= nReq
ExactlyWhenEnough == (pc = "returned" /\ nGood >= nReq) => nOut = nReq
TooSmallRaises == (pc # "check" /\ iter = 0 /\ cursor = 0 /\ nEval = 0 /\ nProc > B) => pc = "raised"
NothingEvaluatedWhenTooSmall == (pc = "raised" /\ iter = 0 /\ nProc > B) => nEval = 0
Terminates == <>(pc \in {"returned", "raised"})

\* inductive invariant over unbounded integers (checked with Apalache, --length=1)
IndInv ==
  /\ N >= 1 /\ B >= 1 /\ B <= N /\ nReq >= 1 /\ cursor >= 0 /\ nEval >= 0 /\ nGood >= 0 /\ iter >= 0 /\ nOut >= 0
  /\ pc \in {"check", "eval", "test", "grow", "stop", "raised", "returned"}
  /\ (pc = "check" => cursor = 0 /\ nEval = 0 /\ nProc >= 1)
  /\ (pc = "eval" => nEval = cursor /\ nProc >= 1 /\ cursor + nProc <= B)
  /\ (pc \in {"test", "grow"} => nEval = cursor + nProc /\ nProc >= 1 /\ nEval <= B)
  /\ (pc = "grow" => nGood >= 1 /\ nGood < nReq)
  /\ (pc \in {"stop", "returned"} => nEval <= B /\ nGood <= nEval)
  /\ nEval <= B
  /\ nGood <= nEval
  /\ (pc = "returned" => nOut <= nReq /\ (nGood >= nReq => nOut = nReq))
IndInit ==
  /\ N \in Int /\ B \in Int /\ nReq \in Int /\ cursor \in Int /\ nProc \in Int /\ nEval \in Int /\ nGood \in Int
  /\ iter \in Int /\ nOut \in Int /\ pc \in {"check", "eval", "test", "grow", "stop", "raised", "returned"}
  /\ IndInv
Safety == BudgetRespected /\ NeverMoreThanBudget /\ NoRowTwice /\ EveryBatchNonEmpty /\ AtMostRequested /\ ExactlyWhenEnough
=============================================================================
