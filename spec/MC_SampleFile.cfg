SPECIFICATION Spec
CONSTANTS Depth = 3
          Export = FALSE
INVARIANT NeverEmptyOnceWritten
PROPERTY AppendIsConcat
PROPERTY RefusedLeavesFile
PROPERTY RefusedOnlyWhenIncompatible
