------------------------------- MODULE Session -------------------------------
(***************************************************************************)
(* Composition: one user session across the modules                        *)
(*   data -> TheJoker -> rejection / iterative sampling -> sample table    *)
(*   operations -> sample file write / append / read -> diagnostics.       *)
(* The listed properties speak about each stage; this module states what   *)
(* the stages must preserve TOGETHER: every row a user ever holds or       *)
(* stores traces back to one library row (its nonlinear values, its        *)
(* ln_prior and its ln_likelihood travel with it), and the metadata the    *)
(* orbit reconstruction needs (reference epoch, poly_trend, n_offsets) is  *)
(* the data's / prior's at every stage.                                    *)
(*                                                                         *)
(* Abstract state                                                          *)
(*   lib    library: sequence of likelihood classes (0 = -inf, 1.. finite) *)
(*   post   the table the user holds: sequence of [id, haslp]              *)
(*          id = library row the table row descends from                   *)
(*   pmeta  "data" (t_ref, poly_trend, n_offsets of the data / prior) |    *)
(*          "none" (no table yet)                                          *)
(*   whole  TRUE while post is an untruncated, unsliced rejection result   *)
(*   file   Absent | [ids, meta, haslp]                                    *)
(* Operations with a free outcome (the rejection step draws uniforms) are  *)
(* non-deterministic here; conformance is membership (DESIGN 2.8 rule 1).  *)
(***************************************************************************)
EXTENDS Naturals, Sequences, FiniteSets, TLC

Absent == [absent |-> TRUE]
IsAbsent(f) == "absent" \in DOMAIN f

Range(s) == {s[k] : k \in DOMAIN s}
Ids(t) == [k \in DOMAIN t |-> t[k].id]
MaxOf(S) == CHOOSE m \in S : \A x \in S : x <= m
\* ascending sequence of a finite set of naturals
SeqOf(S) == [k \in 1..Cardinality(S) |-> CHOOSE p \in S : Cardinality({q \in S : q < p}) = k - 1]
Prefix(s, n) == SubSeq(s, 1, IF n < Len(s) THEN n ELSE Len(s))
Expand(s, n) == [k \in 1..(Len(s) * n) |-> s[((k - 1) \div n) + 1]]

\* ---- rejection over the first m library rows (library order): the accepted position sets the rule allows ----
\* every maximiser survives (ratio 1 > u), no -inf row survives, anything in between may or may not
AcceptableSets(lib, m) ==
  LET top == MaxOf({lib[p] : p \in 1..m})
      must == {p \in 1..m : lib[p] = top}
      may == {p \in 1..m : lib[p] # 0}
  IN IF top = 0 THEN {} ELSE {G \in SUBSET may : must \subseteq G}
RejectionOutcomes(lib, nPrior, maxPost, nLin) ==
  LET m == IF nPrior = 0 THEN Len(lib) ELSE nPrior
  IN {Expand(IF maxPost = 0 THEN SeqOf(G) ELSE Prefix(SeqOf(G), maxPost), nLin) : G \in AcceptableSets(lib, m)}
\* iterative: some prefix of the library is evaluated (all of it, or enough of it that nReq passed); first nReq accepted
IterativeOutcomes(lib, nReq, nLin) ==
  UNION {{Expand(Prefix(SeqOf(G), nReq), nLin) : G \in {H \in AcceptableSets(lib, m) : m = Len(lib) \/ Cardinality(H) >= nReq}}
         : m \in 1..Len(lib)}

\* The same two outcome sets as predicates on an observed result (no enumeration of subsets: libraries of recorded sessions
\* have dozens of rows).  ids = observed parent ids of the returned rows.  SessionMC checks the predicates against the sets.
Collapse(ids, nLin) == [k \in 1..(Len(ids) \div nLin) |-> ids[(k - 1) * nLin + 1]]
Increasing(b) == \A j, k \in DOMAIN b : j < k => b[j] < b[k]
\* b = accepted positions after truncation to `cut` (0 = none) of a rejection over rows 1..m
CutOfAcceptable(b, lib, m, cut) ==
  LET top == MaxOf({lib[p] : p \in 1..m})
      must == {p \in 1..m : lib[p] = top}
  IN /\ top # 0 /\ Increasing(b) /\ Range(b) \subseteq {p \in 1..m : lib[p] # 0}
     /\ IF cut = 0 \/ Len(b) < cut THEN must \subseteq Range(b)
        ELSE Len(b) = cut /\ \A p \in must : p < b[Len(b)] => p \in Range(b)
InRejection(ids, lib, nPrior, maxPost, nLin) ==
  /\ Len(ids) % nLin = 0 /\ ids = Expand(Collapse(ids, nLin), nLin)
  /\ CutOfAcceptable(Collapse(ids, nLin), lib, IF nPrior = 0 THEN Len(lib) ELSE nPrior, maxPost)
InIterative(ids, lib, nReq, nLin) ==
  /\ Len(ids) % nLin = 0 /\ ids = Expand(Collapse(ids, nLin), nLin)
  /\ LET b == Collapse(ids, nLin) IN
       \E m \in 1..Len(lib) : /\ CutOfAcceptable(b, lib, m, nReq)
                               /\ (m = Len(lib) \/ Len(b) = nReq)

\* ---- table operations: positions kept (1-based), in order ----
SliceSel(n, lo, hi) == [k \in 1..(IF hi > lo THEN (IF hi < n THEN hi ELSE n) - lo ELSE 0) |-> lo + k]     \* tbl[lo:hi], 0-based half-open
EverySecond(n) == [k \in 1..((n + 1) \div 2) |-> 2 * k - 1]                                                \* tbl[::2]
MaskSel(n, keep(_)) == SeqOf({p \in 1..n : keep(p)})
Selected(t, sel) == [k \in DOMAIN sel |-> t[sel[k]]]

\* ---- files ----
Write(f, t, meta, haslp, ow, ap) ==          \* -> [file, raised]
  IF IsAbsent(f) THEN [file |-> [ids |-> Ids(t), meta |-> meta, haslp |-> haslp], raised |-> FALSE]
  ELSE IF ~ow /\ ~ap THEN [file |-> f, raised |-> TRUE]
  ELSE IF ow THEN [file |-> [ids |-> Ids(t), meta |-> meta, haslp |-> haslp], raised |-> FALSE]
  ELSE IF f.meta = meta /\ f.haslp = haslp THEN [file |-> [f EXCEPT !.ids = @ \o Ids(t)], raised |-> FALSE]
  ELSE [file |-> f, raised |-> TRUE]

\* ---- diagnostics on the held table: MAP returns a member maximising ln_prior + ln_likelihood (here: the likelihood class;
\*      the harness gives every library row the same ln_prior), median_period a member ----
MAPIds(lib, t) == {t[k].id : k \in {j \in DOMAIN t : \A i \in DOMAIN t : lib[t[i].id] <= lib[t[j].id]}}
=============================================================================
