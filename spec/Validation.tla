------------------------------ MODULE Validation ------------------------------
(***************************************************************************)
(* What the sampler accepts (prior.py:132-176, prior_helpers.py:23-92,     *)
(* data_helpers.py:56-131, thejoker.py:47-80) as decision tables.          *)
(* A prior case gives every required parameter a status:                   *)
(*   ok       random variable with a unit convertible to the canonical one *)
(*            (linear parameters: a Normal)                                *)
(*   const    a constant / deterministic with a valid unit                 *)
(*   missing | nounit | badunit | nonnormal                                *)
(* JokerPrior(...) succeeds iff every required parameter is ok - or const  *)
(* for a nonlinear parameter (the default jitter is a constant) - and it   *)
(* lists parameters in the order nonlinear, linear, offsets.               *)
(***************************************************************************)
EXTENDS Naturals, Sequences, FiniteSets, TLC

Nonlinear == <<"P", "e", "omega", "M0", "s">>
VNames == <<"v0", "v1", "v2">>
DNames == <<"dv0_1", "dv0_2">>
Linear(poly) == <<"K">> \o SubSeq(VNames, 1, poly)
Offsets(noff) == SubSeq(DNames, 1, noff)
Required(poly, noff) == Nonlinear \o Linear(poly) \o Offsets(noff)
Range(s) == {s[k] : k \in DOMAIN s}
IsLinear(p, poly, noff) == p \in Range(Linear(poly)) \cup Range(Offsets(noff))

Statuses == {"ok", "const", "missing", "nounit", "badunit", "nonnormal"}
Acceptable(p, st, poly, noff) == st = "ok" \/ (st = "const" /\ ~IsLinear(p, poly, noff))
PriorAccepted(status, poly, noff) == \A p \in Range(Required(poly, noff)) : Acceptable(p, status[p], poly, noff)

\* data sources: kind in {"single", "list", "dict", "notiterable"}; nsrc sources; bad = some source is not an RVData;
\* cov = some source carries a full covariance
DataAccepted(kind, nsrc, bad, cov, noff) ==
  \/ kind = "single" /\ noff = 0
  \/ kind \in {"list", "dict"} /\ ~bad /\ ~cov /\ nsrc >= 1 /\ nsrc - 1 = noff
=============================================================================
