SPECIFICATION Spec
CONSTANTS Export = FALSE
INVARIANT Consistent
INVARIANT SomeOutcome
