---------------------------- MODULE DiagnosticsMC ----------------------------
(* Theorems of Diagnostics checked by TLC over every observing pattern on T slots, and the enumeration of inputs *)
(* for the replay driver.                                                                                          *)
EXTENDS Diagnostics
CONSTANTS T, Periods, Refs, Export
VARIABLES times, P, r, pc
vars == <<times, P, r, pc>>

Init == /\ times \in (SUBSET (0..(T - 1))) \ {{}} /\ P \in Periods /\ r \in Refs /\ pc = "new"
Done == /\ pc = "new" /\ pc' = "exported"
        /\ (Export => PrintT(<<"CASE", [times |-> times, P |-> P, r |-> r]>>))
        /\ UNCHANGED <<times, P, r>>
Next == Done
Spec == Init /\ [][Next]_vars

S == PhaseSet(times, r, P)
\* arcs do not depend on the reference epoch, nor on the direction of time
GapIndependentOfRef == \A r2 \in Refs : MaxGap2P(PhaseSet(times, r2, P), P) = MaxGap2P(S, P)
GapTimeReversal == MaxGap2P(PhaseSet(Reflect(times, T), r, P), P) = MaxGap2P(S, P)
GapBounds == MaxGap2P(S, P) >= 1 /\ MaxGap2P(S, P) <= 2 * P
             /\ (Cardinality(S) = 1 <=> MaxGap2P(S, P) = 2 * P)
\* the gaps around the circle add up to the whole circle
GapsSumToCircle ==
  LET RECURSIVE Sum(_) Sum(Q) == IF Q = {} THEN 0 ELSE LET a == Min(Q) IN (NextOnCircle(S, a, P) - a) + Sum(Q \ {a})
  IN Sum(S) = 2 * P
CoverageBounds == \A n \in {2, 4, 8} : BinsOK(P, n) =>
    /\ Occupied(S, P, n) >= 1 /\ Occupied(S, P, n) <= n /\ Occupied(S, P, n) <= Cardinality(S)
\* an empty arc of g (in 1/(2P)) can hide at most ... bins: occupied bins * width + maxgap >= something weak; keep the exact one:
CoverageVsGap == \A n \in {2, 4, 8} : BinsOK(P, n) => (Occupied(S, P, n) = n => MaxGap2P(S, P) < 2 * ((2 * P) \div n))
=============================================================================
