SPECIFICATION Spec
CONSTANTS Kind = "samples"
          MaxLen = 3
          Export = FALSE
          Memoised <- SamplesReads
          Invalidate = TRUE
          CarryMemo = TRUE
          LastReads <- SamplesReads
INVARIANT ReadsAreIdeal
