SPECIFICATION Spec
CONSTANTS MaxDefects = 1
          Export = TRUE
INVARIANT DataCountsMatch
