------------------------------- MODULE Streams -------------------------------
(***************************************************************************)
(* Random streams of the sampler (thejoker.py:60-70,                       *)
(* multiproc_helpers.py:49-54, likelihood_helpers.py:107,183).             *)
(* The parent generator is a position on one stream; per-task children are *)
(* spawned from its seed sequence, which keeps a counter of children ever  *)
(* spawned, so the k-th child ever spawned has key k.  A history is a      *)
(* sequence of API calls; each call draws from the parent (shuffle,        *)
(* uniforms) and, on the cached path, spawns one child per draw task.      *)
(***************************************************************************)
EXTENDS Naturals, Sequences, FiniteSets, TLC

CONSTANTS MaxCalls, MaxTasks

VARIABLES parentPos, spawned, childPos, log, globalNp, globalPy, ncalls
vars == <<parentPos, spawned, childPos, log, globalNp, globalPy, ncalls>>

Init == /\ parentPos = 0 /\ spawned = 0 /\ childPos = <<>> /\ log = <<>> /\ globalNp = 0 /\ globalPy = 0 /\ ncalls = 0

\* a draw of k numbers from the parent: consumes the segment parentPos..parentPos+k-1
ParentDraw(k) ==
  /\ log' = Append(log, [stream |-> 0, from |-> parentPos, to |-> parentPos + k])
  /\ parentPos' = parentPos + k
  /\ UNCHANGED <<spawned, childPos, globalNp, globalPy, ncalls>>

\* spawn n children (keys spawned+1 .. spawned+n), each task draws from its own child
SpawnAndDraw(n) ==
  /\ spawned' = spawned + n
  /\ childPos' = childPos \o [j \in 1..n |-> 1]
  /\ log' = log \o [j \in 1..n |-> [stream |-> spawned + j, from |-> 0, to |-> 1]]
  /\ UNCHANGED <<parentPos, globalNp, globalPy, ncalls>>

EndCall == /\ ncalls' = ncalls + 1 /\ UNCHANGED <<parentPos, spawned, childPos, log, globalNp, globalPy>>

Next == /\ ncalls < MaxCalls
        /\ \/ \E k \in 1..2 : ParentDraw(k)
           \/ \E n \in 1..MaxTasks : SpawnAndDraw(n)
           \/ EndCall
Spec == Init /\ [][Next]_vars

Bound == Len(log) <= 7

(* ---- properties ---- *)
\* no random number is handed out twice: segments of one stream never overlap
NoStreamReuse ==
  \A a, b \in DOMAIN log : (a # b /\ log[a].stream = log[b].stream) =>
      (log[a].to <= log[b].from \/ log[b].to <= log[a].from)
\* every child stream is used by exactly one task, in this or any earlier call
OneTaskPerChild == \A s \in 1..spawned : Cardinality({a \in DOMAIN log : log[a].stream = s}) = 1
GlobalsUntouched == globalNp = 0 /\ globalPy = 0
=============================================================================
