INIT Init
NEXT Next
