SPECIFICATION Spec
CONSTANTS T = 10
          Periods = {4, 6, 8, 12}
          Refs = {0, 1, 5}
          Export = FALSE
INVARIANT GapIndependentOfRef
INVARIANT GapTimeReversal
INVARIANT GapBounds
INVARIANT GapsSumToCircle
INVARIANT CoverageBounds
INVARIANT CoverageVsGap
