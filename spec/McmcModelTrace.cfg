INIT TInit
NEXT TNext
CONSTANT NData = 3
