SPECIFICATION Spec
CONSTANTS Export = FALSE
INVARIANT DrawsInSupport
INVARIANT DrawEnds
INVARIANT LogFlat
INVARIANT RatioLaw
INVARIANT SigmaCapped
INVARIANT KOnlyWithLinear
INVARIANT ZSqEven
