----------------------------- MODULE InferenceMC -----------------------------
EXTENDS Inference, TLC
CONSTANTS MaxC, MaxD, Export
VARIABLES c, pc
vars == <<c, pc>>
Init == /\ \E C \in 1..MaxC : \E D \in 1..MaxD : \E div \in SUBSET (1..(C * D)) : \E prune, root, lg, ll, lp \in BOOLEAN :
              c = [C |-> C, D |-> D, div |-> div, prune |-> prune, root |-> root, logp |-> lg, ll |-> ll, lp |-> lp]
        /\ pc = "new"
Done == pc = "new" /\ pc' = "done" /\ (Export => PrintT(<<"CASE", c>>)) /\ UNCHANGED c
Next == Done
Spec == Init /\ [][Next]_vars
R == Rows(c.C, c.D, c.div, c.prune)
\* nothing is invented, nothing divergent survives pruning, order is kept, nothing is lost without pruning
NoDivergentKept == c.prune => \A k \in DOMAIN R : R[k] \notin c.div
OrderKept == \A j, k \in DOMAIN R : j < k => R[j] < R[k]
AllKeptWithoutPruning == ~c.prune => Len(R) = c.C * c.D
CountsAddUp == c.prune => Len(R) + Cardinality(c.div) = c.C * c.D
=============================================================================
