--------------------------- MODULE MC_IterativeInd ---------------------------
(* Apalache wrapper: unbounded integers; IndInit => IndInv (length 0) and IndInv /\ Next => IndInv' (length 1). *)
(* MaxN / MaxReq only bound the non-deterministic growth choice in Grow (\E want \in 1..2*MaxN) and Init;        *)
(* the inductive step starts from IndInit, where N, B, cursor, nProc, ... are arbitrary integers.               *)
EXTENDS Integers
MaxN == 1000000
MaxReq == 1000000
MaxIter == 128
VARIABLES
  \* @type: Int;
  N,
  \* @type: Int;
  B,
  \* @type: Int;
  nReq,
  \* @type: Int;
  cursor,
  \* @type: Int;
  nProc,
  \* @type: Int;
  nEval,
  \* @type: Int;
  nGood,
  \* @type: Int;
  iter,
  \* @type: Int;
  nOut,
  \* @type: Str;
  pc
INSTANCE Iterative
=============================================================================
