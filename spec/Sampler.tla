------------------------------- MODULE Sampler -------------------------------
(***************************************************************************)
(* The rejection-sampling pipeline of one API call (thejoker.py:93-370,    *)
(* multiproc_helpers.py, likelihood_helpers.py:91-229).  This module       *)
(* states the rules once, as operators over sequences; SamplerMC explores  *)
(* them exhaustively on small classes and SamplerTrace applies them to     *)
(* recorded executions.                                                    *)
(*                                                                         *)
(* Index spaces (kept explicit because confusing them is the classic bug): *)
(*   library rows   1..N           ids of prior samples                    *)
(*   positions      1..n           evaluation order; evald[p] = library row*)
(*   accepted       good \subseteq positions;  full[k] = evald[good[k]]    *)
(***************************************************************************)
EXTENDS Tok, Naturals, FiniteSets

Identity(n) == [k \in 1..n |-> k]
Prefix(s, k) == SubSeq(s, 1, IF k < Len(s) THEN k ELSE Len(s))
Distinct(s) == Cardinality({s[k] : k \in DOMAIN s}) = Len(s)
\* positions p (ascending) of start..n with Test(p); no recursion and no quadratic ranking: libraries have thousands of rows
\* (SetToSortSeq of the CommunityModules is evaluated by a Java override)
SX == INSTANCE SequencesExt
SelectPos(n, Test(_), start) == SX!SetToSortSeq({p \in start..n : Test(p)}, LAMBDA a, b : a < b)

\* the rows that must be evaluated: the first nPrior of the evaluation order (0 = all)
Evaluated(order, nPrior) == IF nPrior = 0 THEN order ELSE Prefix(order, nPrior)

\* ratio[p] stands for exp(ll[p] - max ll): the machinery computes it; the spec constrains it
RatioSane(lls, ratio) ==
  /\ Len(ratio) = Len(lls)
  /\ (Len(lls) > 0 /\ (\A p \in DOMAIN lls : ~IsNaN(lls[p]))) =>
       LET m == ArgMax(lls)            \* evaluated once (ArgMax is quadratic)
           top == lls[m]
           rtop == ratio[m]
       IN IsFinite(top) =>
            /\ rtop = One
            /\ \A p \in DOMAIN lls : Le(ratio[p], One) /\ Ge(ratio[p], Zero)
            /\ (Len(lls) <= 64 => \A p, q \in DOMAIN lls : Le(lls[p], lls[q]) => Le(ratio[p], ratio[q]))
            /\ \A p \in DOMAIN lls : lls[p] = top => ratio[p] = rtop
            /\ \A p \in DOMAIN lls : lls[p] = NegInf => ratio[p] = Zero

\* THE acceptance rule: keep position p iff exp(ll_p - max) > u_p
Accept(ratio, u) == SelectPos(Len(ratio), LAMBDA p : Gt(ratio[p], u[p]), 1)
\* truncation keeps the FIRST maxPost accepted positions (0 = no limit)
Truncate(good, maxPost) == IF maxPost = 0 THEN good ELSE Prefix(good, maxPost)
\* accepted positions -> library rows
MapRows(evald, good) == [k \in DOMAIN good |-> evald[good[k]]]
\* each accepted row is emitted nLinear times, consecutively
Expand(full, nLinear) == [k \in 1..(Len(full) * nLinear) |-> full[((k - 1) \div nLinear) + 1]]
\* per-output-row position in `good`
GoodOf(k, nLinear) == ((k - 1) \div nLinear) + 1
Range(s) == {s[k] : k \in DOMAIN s}
\* the property is quantified over likelihood profiles with at least one finite value and no NaN
InScope(lls) == Len(lls) > 0 /\ (\A p \in DOMAIN lls : ~IsNaN(lls[p])) /\ (\E p \in DOMAIN lls : IsFinite(lls[p]))
=============================================================================
