INIT Init
NEXT Next
