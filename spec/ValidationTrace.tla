---------------------------- MODULE ValidationTrace ----------------------------
(* Total monitor: one trace = one construction / call.                                                              *)
(*  kind "prior": [poly, noff, status (record name -> status), via, raised, names, kernel_ok]                      *)
(*  kind "data" : [dkind, nsrc, bad, cov, noff, raised]                                                             *)
(*  kind "default": [accept (expected by the argument table computed in the harness from the spec's rules), raised]*)
EXTENDS Validation, Json, IOUtils
Tr == JsonDeserialize(IOEnv.TRACE_FILE)
VARIABLES tid, done
vars == <<tid, done>>
Clause(t) ==
  IF t.kind = "prior" THEN
     LET acc == PriorAccepted(t.status, t.poly, t.noff) IN
     IF acc /\ t.raised THEN "C18.ValidPriorAccepted"
     ELSE IF ~acc /\ ~t.raised THEN "C18.InvalidPriorRejected"
     ELSE IF acc /\ t.names # Required(t.poly, t.noff) THEN "C18.ParameterOrderNonlinearLinearOffsets"
     ELSE IF acc /\ ~t.kernelok THEN "C18.AcceptedPriorRunsTheSampler"
     ELSE ""
  ELSE IF t.kind = "data" THEN
     LET acc == DataAccepted(t.dkind, t.nsrc, t.bad, t.cov, t.noff) IN
     IF acc /\ t.raised THEN "C18.ValidDataAccepted"
     ELSE IF ~acc /\ ~t.raised THEN "C18.DataPriorMismatchRejected"
     ELSE ""
  ELSE IF t.accept /\ t.raised THEN "C18.ValidDefaultPriorAccepted"
  ELSE IF ~t.accept /\ ~t.raised THEN "C18.InvalidDefaultPriorRejected"
  ELSE ""
Init == tid \in 1..Len(Tr) /\ done = FALSE
Next == /\ ~done /\ done' = TRUE /\ tid' = tid
        /\ LET t == Tr[tid] c == Clause(t) IN PrintT(<<"VERDICT", t.id, c = "", c, 1, "">>)
=============================================================================
