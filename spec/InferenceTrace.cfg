INIT Init
NEXT Next
