SPECIFICATION Spec
CONSTANTS MaxN = 3
          LLClasses = {0, 1, 2}
          UClasses = {"below", "equal", "above"}
          MaxPostSet = {0, 1}
          NPriorSet = {0, 2}
          NLinearSet = {1, 2}
          Export = TRUE
INVARIANT LnLikeOfOwnRow
