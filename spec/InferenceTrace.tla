---------------------------- MODULE InferenceTrace ----------------------------
(* [C, D, div (sequence), prune, root, logp, ll, lp, raised, ids (draw identity of each returned row, from the P column),      *)
(*  colsame (every parameter column carries the same draw identities), unitsok, extra (sequence of extra column names),        *)
(*  metaok (t_ref, poly_trend, n_offsets are the data's / prior's)]                                                            *)
EXTENDS Inference, TLC, Json, IOUtils
Tr == JsonDeserialize(IOEnv.TRACE_FILE)
VARIABLES tid, done
vars == <<tid, done>>
ToSet(s) == {s[k] : k \in DOMAIN s}
Clause(t) ==
  IF Raises(t.prune, t.root) # t.raised THEN "X06.RaisesIffPruningWithoutSampleStats"
  ELSE IF t.raised THEN ""
  ELSE IF t.ids # Rows(t.C, t.D, ToSet(t.div), t.prune) THEN "X06.RowsAreTheDrawsChainMajorDivergentOnesRemoved"
  ELSE IF ~t.colsame THEN "X06.EveryColumnFromTheSameDraw"
  ELSE IF ~t.unitsok THEN "X06.ColumnsInThePriorsUnits"
  ELSE IF ToSet(t.extra) # ExtraCols(t.logp, t.ll, t.lp) THEN "X06.LogProbabilityColumnsCarriedOver"
  ELSE IF ~t.metaok THEN "X06.MetadataFromDataAndPrior"
  ELSE ""
Init == tid \in 1..Len(Tr) /\ done = FALSE
Next == /\ ~done /\ done' = TRUE /\ tid' = tid
        /\ LET t == Tr[tid] cl == Clause(t) IN PrintT(<<"VERDICT", t.id, cl = "", cl, 1, "">>)
=============================================================================
