----------------------------- MODULE SampleTableMC -----------------------------
(* Theorems of SampleTable checked over a lattice of rows, and enumeration of small tables for the replay driver. *)
EXTENDS SampleTable
CONSTANTS Ks, Ws, Ms, Ps, MaxRows, Export
VARIABLES rows, pc
vars == <<rows, pc>>
KsFull == {-2, -1, 0, 1, 2}
WsFull == {-3, -1, 0, 2, 5, 7, 9, 12}
MsFull == {-2, 0, 3, 9}
KsSmall == {-2, 0, 1}
WsSmall == {-3, 0, 5, 9}
MsSmall == {0, 3}
RowSet == [K : Ks, w : Ws, m : Ms, p : Ps]
Init == /\ \E n \in 1..MaxRows : \E rs \in [1..n -> RowSet] : rows = [k \in 1..n |-> [id |-> k, K |-> rs[k].K, w |-> rs[k].w, m |-> rs[k].m, p |-> rs[k].p]]
        /\ pc = "new"
Done == /\ pc = "new" /\ pc' = "exported"
        /\ (Export => PrintT(<<"CASE", rows>>))
        /\ UNCHANGED rows
Next == Done
Spec == Init /\ [][Next]_vars
\* wrap_K changes no row's RV curve, makes K non-negative, touches omega only where K was negative, is idempotent
WrapSameCurve == \A k \in DOMAIN rows : \A f \in 0..7 : CurveAt(WrapK(rows)[k].K, WrapK(rows)[k].w, f) = CurveAt(rows[k].K, rows[k].w, f)
WrapNonNegative == \A k \in DOMAIN rows : WrapK(rows)[k].K >= 0
WrapOnlyNegative == \A k \in DOMAIN rows : rows[k].K >= 0 => WrapK(rows)[k] = rows[k]
WrapIdempotent == WrapK(WrapK(rows)) = WrapK(rows)
WrapOmegaInTurn == \A k \in DOMAIN rows : rows[k].K < 0 => WrapK(rows)[k].w \in 0..7
\* get_time_with_phase returns a time at which the mean anomaly is the requested phase
PhaseTheorem == \A k \in DOMAIN rows : \A q \in 0..7 : HasPhaseAt(rows[k], TimeWithPhase(rows[k], q), q)
PhaseDistinguishes == \A k \in DOMAIN rows : \A q, q2 \in 0..7 : (q # q2) => ~HasPhaseAt(rows[k], TimeWithPhase(rows[k], q), q2)
=============================================================================
