---------------------------- MODULE PartitionAlg ----------------------------
(***************************************************************************)
(* A step-per-loop-iteration transcription of thejoker/utils.py:22-72      *)
(* (base size + remainder distribution; single-batch fallback), checked    *)
(* against Partition.  The CODE is only ever required to satisfy           *)
(* Partition; this module shows that the current algorithm does, and       *)
(* enumerates the (n, b, s[, arr]) inputs that the replay driver feeds to  *)
(* the real batch_tasks.                                                   *)
(***************************************************************************)
EXTENDS Naturals, Sequences, TLC, Partition

CONSTANTS MaxN, MaxB, MaxS, Export

VARIABLES n, b, s, arrmode, i, i1, tasks, pc
vars == <<n, b, s, arrmode, i, i1, tasks, pc>>

\* in array mode the array is  <<100, 101, ..., 100 + s + n - 1>>  (values identify positions)
Arr == [k \in 1..(s + n) |-> 99 + k]

Init ==
  /\ n \in 1..MaxN /\ b \in 1..MaxB /\ s \in 0..MaxS /\ arrmode \in BOOLEAN
  /\ i = 0 /\ i1 = s /\ tasks = <<>>
  /\ pc = IF b > 0 /\ n >= b THEN "loop" ELSE "single"

MkTask(lo, hi) ==
  IF arrmode THEN [lo |-> lo, hi |-> hi, start |-> lo, payload |-> SubSeq(Arr, lo + 1, hi)]
  ELSE [lo |-> lo, hi |-> hi, start |-> lo]

Loop ==
  /\ pc = "loop" /\ i < b
  /\ LET base == n \div b
         rmdr == n % b
         i2   == i1 + base + (IF i < rmdr THEN 1 ELSE 0)
     IN  /\ tasks' = Append(tasks, MkTask(i1, i2))
         /\ i1' = i2
  /\ i' = i + 1
  /\ pc' = IF i + 1 = b THEN "done" ELSE "loop"
  /\ UNCHANGED <<n, b, s, arrmode>>

Single ==
  /\ pc = "single"
  /\ tasks' = <<MkTask(s, n + s)>>
  /\ pc' = "done"
  /\ UNCHANGED <<n, b, s, arrmode, i, i1>>

Done ==
  /\ pc = "done"
  /\ pc' = "exported"
  /\ (Export => PrintT(<<"CASE", [n |-> n, b |-> b, s |-> s, arrmode |-> arrmode, tasks |-> tasks]>>))
  /\ UNCHANGED <<n, b, s, arrmode, i, i1, tasks>>

Next == Loop \/ Single \/ Done
Spec == Init /\ [][Next]_vars

AlgRefinesPartition == pc = "done" => IsValidPartition(tasks, n, s)
AlgArrayOK == (pc = "done" /\ arrmode) => IsValidArrayPartition(tasks, n, s, Arr)
\* the user-level reading of the property follows from validity
ValidImpliesExactlyOnce ==
  (pc = "done" /\ IsValidPartition(tasks, n, s)) => ExactlyOnce(tasks, n, s) /\ NothingElse(tasks, n, s)
\* the loop never makes more batches than requested, and exactly b when n >= b
BatchCount == pc = "done" => Len(tasks) = (IF n >= b THEN b ELSE 1)
=============================================================================
