SPECIFICATION Spec
CONSTANTS Ks <- KsSmall
          Ws <- WsSmall
          Ms <- MsSmall
          Ps = {1, 2}
          MaxRows = 2
          Export = TRUE
INVARIANT WrapNonNegative
