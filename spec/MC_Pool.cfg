SPECIFICATION Spec
CONSTANTS N = 4
          NProc = 2
          MaxCalls = 2
INVARIANT TasksValid
INVARIANT PureLL
INVARIANT InputOrder
