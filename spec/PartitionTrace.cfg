INIT Init
NEXT Next
