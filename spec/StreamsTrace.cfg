INIT Init
NEXT Next
