------------------------------- MODULE RVData -------------------------------
(***************************************************************************)
(* Observations held by thejoker.RVData (data.py:40-122, 138-152,          *)
(* 479-499).  An input observation is                                      *)
(*   [id, t, tfin, rvfin, errfin]   (t an integer time, flags = finiteness)*)
(* and an output row is [t, rvid, errid]: the time value together with the *)
(* identity of the observation its velocity / its uncertainty came from    *)
(* (the harness encodes the identity in the values).                       *)
(* Construct = Mask ; Sort ; SetTRef, then Copy and Slice.                 *)
(* Properties are stated declaratively below and never refer to the        *)
(* actions; the order among equal times is left free.                      *)
(***************************************************************************)
EXTENDS Naturals, Integers, Sequences, FiniteSets, TLC

Finite(o) == o.tfin /\ o.rvfin /\ o.errfin
Kept(obs, clean) == IF clean THEN SelectSeq(obs, Finite) ELSE obs
Ids(seq) == {seq[k].id : k \in DOMAIN seq}
TimeOf(obs, i) == (CHOOSE k \in DOMAIN obs : obs[k].id = i)
ObsById(obs, i) == obs[CHOOSE k \in DOMAIN obs : obs[k].id = i]

RowIds(out) == {out[k].rvid : k \in DOMAIN out}
MinTime(out) == CHOOSE m \in {out[k].t : k \in DOMAIN out} : \A k \in DOMAIN out : m <= out[k].t

(* ---- the property, clause by clause (first failing clause is reported) ---- *)
\* out holds exactly the kept observations, each once
ExactlyKept(obs, clean, out) ==
  /\ Len(out) = Len(Kept(obs, clean))
  /\ RowIds(out) = Ids(Kept(obs, clean))
\* each time still paired with its own velocity and uncertainty
Paired(obs, out) ==
  \A k \in DOMAIN out :
     /\ out[k].errid = out[k].rvid
     /\ out[k].rvid \in Ids(obs)
     /\ LET o == ObsById(obs, out[k].rvid) IN (o.tfin => out[k].t = o.t)
\* ordered by time (only claimed when every kept time is finite)
Ordered(obs, out) ==
  (\A k \in DOMAIN out : out[k].rvid \in Ids(obs) /\ ObsById(obs, out[k].rvid).tfin)
     => \A k \in 1..(Len(out) - 1) : out[k].t <= out[k + 1].t
\* covariance: row a / column b of the output belongs to the pair (obs of row a, obs of row b)
CovPaired(out, cov) ==
  \A a \in DOMAIN out : \A b \in DOMAIN out :
     cov[a][b] = <<out[a].rvid, out[b].rvid>>

ConstructClause(obs, clean, out) ==
  IF ~ExactlyKept(obs, clean, out) THEN "C15.ExactlyTheFiniteObservations"
  ELSE IF ~Paired(obs, out) THEN "C15.Pairing"
  ELSE IF ~Ordered(obs, out) THEN "C15.OrderedByTime"
  ELSE ""

\* same observations (as a multiset of ids, with pairing) as `src`, possibly re-ordered among equal times
SameObservations(src, out) ==
  /\ Len(out) = Len(src)
  /\ RowIds(out) = {src[k].rvid : k \in DOMAIN src}
  /\ \A k \in DOMAIN out : out[k].errid = out[k].rvid
       /\ \E j \in DOMAIN src : src[j].rvid = out[k].rvid /\ src[j].t = out[k].t
  /\ \A k \in 1..(Len(out) - 1) : out[k].t <= out[k + 1].t

\* rows of src at the (1-based) positions sel, as a sequence
Selected(src, sel) == [k \in 1..Len(sel) |-> src[sel[k]]]
=============================================================================
