INIT Init
NEXT Next
