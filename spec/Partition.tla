------------------------------ MODULE Partition ------------------------------
(***************************************************************************)
(* Work partitioning (thejoker/utils.py:batch_tasks, multiproc_helpers.py: *)
(* run_worker).  This module states WHAT a valid partition is; it does not *)
(* say how many batches are made or where the remainder goes -- any        *)
(* contiguous, ordered, non-empty cover is allowed (DESIGN 2.8 rule 1).    *)
(*                                                                         *)
(* Index mode: a task is [lo, hi, start] and stands for rows lo..hi-1.     *)
(* Array mode: a task is [payload, start]; payload is a slice of the       *)
(* supplied index array.                                                   *)
(***************************************************************************)
EXTENDS Naturals, Sequences, FiniteSets

IsValidPartition(T, n, s) ==
  /\ Len(T) >= 1
  /\ T[1].lo = s
  /\ T[Len(T)].hi = s + n
  /\ \A k \in 1..Len(T) : T[k].lo < T[k].hi /\ T[k].start = T[k].lo
  /\ \A k \in 1..(Len(T) - 1) : T[k].hi = T[k + 1].lo

\* The first clause of IsValidPartition that fails ("" if none): used by the trace monitor
PartitionClause(T, n, s) ==
  IF Len(T) < 1 THEN "C16.AtLeastOneTask"
  ELSE IF \E k \in 1..Len(T) : ~(T[k].lo < T[k].hi) THEN "C16.NonEmpty"
  ELSE IF T[1].lo # s THEN "C16.StartsAtStartIdx"
  ELSE IF \E k \in 1..(Len(T) - 1) : T[k].hi # T[k + 1].lo THEN "C16.ContiguousOrdered"
  ELSE IF T[Len(T)].hi # s + n THEN "C16.CoversRange"
  ELSE IF \E k \in 1..Len(T) : T[k].start # T[k].lo THEN "C16.OwnStartIndex"
  ELSE ""

\* What the property promises to a user: every requested row is in exactly one task.
ExactlyOnce(T, n, s) ==
  \A p \in s..(s + n - 1) : Cardinality({k \in 1..Len(T) : T[k].lo <= p /\ p < T[k].hi}) = 1
NothingElse(T, n, s) ==
  \A k \in 1..Len(T) : \A p \in T[k].lo..(T[k].hi - 1) : s <= p /\ p < s + n

RECURSIVE Flatten(_)
Flatten(T) == IF T = <<>> THEN <<>> ELSE Head(T).payload \o Flatten(Tail(T))

\* Array mode.  arr is the supplied array; the requested elements are arr[s+1..s+n] (1-based).
ArrayClause(T, n, s, arr) ==
  IF Len(T) < 1 THEN "C16.AtLeastOneTask"
  ELSE IF \E k \in 1..Len(T) : Len(T[k].payload) = 0 THEN "C16.NonEmpty"
  ELSE IF T[1].start # s THEN "C16.StartsAtStartIdx"
  ELSE IF \E k \in 1..(Len(T) - 1) : T[k + 1].start # T[k].start + Len(T[k].payload) THEN "C16.OwnStartIndex"
  ELSE IF Flatten(T) # SubSeq(arr, s + 1, s + n) THEN "C16.CoversArrayInOrder"
  ELSE ""

IsValidArrayPartition(T, n, s, arr) == ArrayClause(T, n, s, arr) = ""
=============================================================================
