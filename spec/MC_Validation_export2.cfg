SPECIFICATION Spec
CONSTANTS MaxDefects = 2
          Export = TRUE
INVARIANT DataCountsMatch
