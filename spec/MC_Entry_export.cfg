SPECIFICATION Spec
CONSTANTS Export = TRUE
INVARIANT Consistent
