SPECIFICATION Spec
CONSTANTS MaxC = 2
          MaxD = 3
          Export = TRUE
INVARIANT NoDivergentKept
INVARIANT OrderKept
INVARIANT AllKeptWithoutPruning
INVARIANT CountsAddUp
