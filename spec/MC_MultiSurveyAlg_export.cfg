SPECIFICATION Spec
CONSTANTS MaxObs = 4
          MaxSrc = 3
          Times = {1, 2}
          Deviations = {}
          Export = TRUE
INVARIANT AlgSatisfiesProperty
