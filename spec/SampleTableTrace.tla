---------------------------- MODULE SampleTableTrace ----------------------------
(* Total monitor: a trace is a battery of operations on one table.                                               *)
(*  Table [rows, names, units, meta]   - the table under test (rows [id, K, w, m, p])                            *)
(*  Wrap [out]  WrapUsed [out, same, rescaled, skipped, raised]  Phase [q, ts, exact]  Pack [names, units, hashes, names2, units2, hashes2, raised]               *)
(*  Index [sel, out, units, meta, raised]  Copy [out, units, meta]  Reduce [kind, n, units, meta, raised]        *)
(*  Median [rid, units, meta, raised]                                                                            *)
EXTENDS SampleTable, Json, IOUtils
Tr == JsonDeserialize(IOEnv.TRACE_FILE)
VARIABLES tid, l, tbl, ok, clause, pos
vars == <<tid, l, tbl, ok, clause, pos>>
Ev == Tr[tid].events

Plain(rs) == [k \in DOMAIN rs |-> [id |-> rs[k].id, K |-> rs[k].K, w |-> rs[k].w, m |-> rs[k].m, p |-> rs[k].p]]
KeepsUnitsMeta(e) == e.units = tbl.units /\ e.meta = tbl.meta

OnWrap(e) ==
  IF ~e.exact THEN "C17.WrapKOffLattice"
  ELSE IF \E k \in DOMAIN e.out : e.out[k].K < 0 THEN "C17.WrapKMakesKNonNegative"
  ELSE IF Plain(e.out) # WrapK(Plain(tbl.rows)) THEN
       (IF \E k \in DOMAIN tbl.rows : tbl.rows[k].K >= 0 /\ Plain(e.out)[k] # Plain(tbl.rows)[k] THEN "C17.WrapKLeavesNonNegativeRowsAlone"
        ELSE "C17.WrapKMovesOmegaByPiModTwoPi")
  ELSE IF ~KeepsUnitsMeta(e) THEN "C17.WrapKKeepsUnitsAndMeta"
  ELSE ""
OnWrapUsed(e) ==
  IF e.raised THEN "C17.WrapKOfAnInspectedTableRaises"
  ELSE IF e.skipped THEN ""
  ELSE IF OnWrap(e) # "" THEN OnWrap(e)
  ELSE IF ~e.same THEN "C17.WrapKKeepsTheCurveOfATableAlreadyRead"
  ELSE IF ~e.rescaled THEN "C17.OrbitFollowsTheRowsAsTheyAre"
  ELSE ""
OnPhase(e) ==
  IF e.raised THEN "C17.TimeWithPhaseRaises"
  ELSE IF ~e.exact \/ Len(e.ts) # Len(tbl.rows) THEN "C17.TimeWithPhaseHasRequestedMeanAnomaly"
  ELSE IF \E k \in DOMAIN e.ts : ~HasPhaseAt(tbl.rows[k], e.ts[k], e.q) THEN "C17.TimeWithPhaseHasRequestedMeanAnomaly"
  ELSE ""
OnPack(e) ==
  IF e.raised THEN "C17.PackUnpackRaises"
  ELSE IF e.names2 # e.names THEN "C17.PackUnpackReproducesNames"
  ELSE IF e.units2 # e.units THEN "C17.PackUnpackReproducesUnits"
  ELSE IF e.hashes2 # e.hashes THEN "C17.PackUnpackReproducesValues"
  ELSE ""
OnIndex(e) ==
  IF e.raised THEN "C17.IndexingRaises"
  ELSE IF ~e.exact \/ Plain(e.out) # Selected(Plain(tbl.rows), e.sel) THEN "C17.IndexingSelectsRows"
  ELSE IF ~KeepsUnitsMeta(e) THEN "C17.IndexingKeepsUnitsAndMeta"
  ELSE ""
OnCopy(e) ==
  IF e.raised THEN "C17.CopyRaises"
  ELSE IF ~e.exact \/ Plain(e.out) # Plain(tbl.rows) THEN "C17.CopySameRows"
  ELSE IF ~KeepsUnitsMeta(e) THEN "C17.CopyKeepsUnitsAndMeta"
  ELSE ""
OnReduce(e) ==
  IF e.raised THEN "C17.MeanStdRaises"
  ELSE IF e.n # 1 THEN "C17.MeanStdReturnsOneRow"
  ELSE IF ~KeepsUnitsMeta(e) THEN "C17.MeanStdKeepUnitsAndMeta"
  ELSE ""
OnMedian(e) ==
  IF e.raised THEN "C17.MedianPeriodRaises"
  ELSE IF ~e.exact \/ ~IsMedianMember(Plain(tbl.rows), e.rid) THEN "C17.MedianPeriodReturnsMemberRow"
  ELSE IF ~KeepsUnitsMeta(e) THEN "C17.MedianPeriodKeepsUnitsAndMeta"
  ELSE ""

Init == tid \in 1..Len(Tr) /\ l = 1 /\ tbl = [rows |-> <<>>] /\ ok = TRUE /\ clause = "" /\ pos = 0
Step ==
  /\ l <= Len(Ev)
  /\ LET e == Ev[l]
         c == IF ~ok THEN clause
              ELSE CASE e.ev = "Table" -> ""
                     [] e.ev = "Wrap" -> OnWrap(e) [] e.ev = "WrapUsed" -> OnWrapUsed(e) [] e.ev = "Phase" -> OnPhase(e) [] e.ev = "Pack" -> OnPack(e)
                     [] e.ev = "Index" -> OnIndex(e) [] e.ev = "Copy" -> OnCopy(e) [] e.ev = "Reduce" -> OnReduce(e)
                     [] e.ev = "Median" -> OnMedian(e) [] OTHER -> "unknown event"
     IN /\ ok' = (ok /\ c = "") /\ clause' = c /\ pos' = IF ok /\ c # "" THEN l ELSE pos
        /\ tbl' = IF e.ev = "Table" THEN [rows |-> e.rows, units |-> e.units, meta |-> e.meta] ELSE tbl
  /\ l' = l + 1 /\ tid' = tid
  /\ (l' > Len(Ev) => PrintT(<<"VERDICT", Tr[tid].id, ok', clause', pos', "">>))
Next == Step
=============================================================================
