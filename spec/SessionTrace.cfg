INIT Init
NEXT Next
