------------------------------ MODULE McmcModel ------------------------------
(***************************************************************************)
(* One pymc model as TheJoker.setup_mcmc uses it (the prior's model): it   *)
(* holds the likelihood of AT MOST ONE data set.  A call for data set d    *)
(*   - builds the likelihood when the model holds none,                    *)
(*   - may be answered again when the model was built for d,               *)
(*   - for any other data set is either REFUSED (the model stays as it is) *)
(*     or REBUILDS the model for d -                                       *)
(* what it may never do is answer while the model goes on describing       *)
(* another data set (the defect repaired by /repo commit 7f5ed1a).         *)
(***************************************************************************)
EXTENDS Naturals
CONSTANT NData
VARIABLES holds, last
vars == <<holds, last>>
Init == holds = 0 /\ last = [data |-> 0, outcome |-> "none", describes |-> 0]
Setup(d) ==
  \/ /\ holds \in {0, d} /\ holds' = d /\ last' = [data |-> d, outcome |-> "answered", describes |-> d]
  \/ /\ holds \notin {0, d} /\ holds' = holds /\ last' = [data |-> d, outcome |-> "refused", describes |-> holds]
  \/ /\ holds \notin {0, d} /\ holds' = d /\ last' = [data |-> d, outcome |-> "answered", describes |-> d]
Next == \E d \in 1..NData : Setup(d)
Spec == Init /\ [][Next]_vars
\* the clause the trace monitor applies to every observed call
CallOK(data, outcome, describes) == outcome = "refused" \/ (outcome = "answered" /\ describes = data)
AnsweredCallsDescribeTheirOwnData == last.outcome = "none" \/ CallOK(last.data, last.outcome, last.describes)
ARefusalChangesNothing == [][(last'.outcome = "refused") => holds' = holds]_vars
TheModelHoldsWhatWasAnsweredLast == (last.outcome = "answered") => holds = last.data
=============================================================================
