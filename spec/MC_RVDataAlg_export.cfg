SPECIFICATION Spec
CONSTANTS MaxObs = 3
          Times = {1, 2}
          Export = TRUE
INVARIANT AlgSatisfiesProperty
