SPECIFICATION Spec
CONSTANTS MaxDefects = 2
          Export = FALSE
INVARIANT AcceptedMeansAllLinearNormal
INVARIANT AcceptedMeansNothingMissing
INVARIANT DataCountsMatch
INVARIANT OrderIsNonlinearLinearOffsets
