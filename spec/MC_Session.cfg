SPECIFICATION Spec
CONSTANTS N = 3
          Classes = {0, 1, 2}
          MaxOps = 4
          Export = FALSE
          NPriorSet = {0, 2}
          MaxPostSet = {0, 1}
          NReqSet = {1, 2}
VIEW View
INVARIANT RowsTraceBack
INVARIANT NoImpossibleRow
INVARIANT BestRowHeld
INVARIANT MetaIsTheDatas
INVARIANT LogprobsUniform
INVARIANT DiagnosticIsMember
INVARIANT MAPIsBest
PROPERTY RefusedWriteKeepsFile
PROPERTY FileAppendOnly
INVARIANT PredicatesDenoteTheSets
