---------------------------- MODULE StreamsTrace ----------------------------
(***************************************************************************)
(* Total monitor for recorded random-stream behaviour (C10).  A trace is   *)
(* one scenario (a history of API calls) executed three times:             *)
(*   run "A"  seed s                                                       *)
(*   run "B"  seed s again                -> identical outputs             *)
(*   run "G"  seed s, numpy's and Python's GLOBAL generators seeded        *)
(*            differently                 -> identical outputs             *)
(*   run "H"  seed s in another interpreter process with another string   *)
(*            hash seed                   -> identical outputs             *)
(*   run "D"  seed s + 1                  -> no linear-parameter draw of   *)
(*            run A appears again (the randomness DOES come from the given *)
(*            generator, however child streams are derived from it)        *)
(* events: Run [run] | Draw [stream, sid, before, after, n] |              *)
(*         Children [sids] (one per pool task that received a generator) | *)
(*         Globals [same] (global state hashes equal before/after a call) |*)
(*         Output [hash, lin]  (hash of everything a call returned; lin =  *)
(*                              one hash per returned linear-draw vector)  *)
(***************************************************************************)
EXTENDS Naturals, Sequences, FiniteSets, TLC, Json, IOUtils

Tr == JsonDeserialize(IOEnv.TRACE_FILE)
VARIABLES tid, l, st, fails
vars == <<tid, l, st, fails>>
Ev == Tr[tid].events

Fresh(run) == [run |-> run, seenp |-> {}, seenc |-> {}, kids |-> {}, lins |-> {}, nout |-> 0]
Add(fs, cl, pos) == IF cl = "" \/ \E k \in DOMAIN fs : fs[k][1] = cl THEN fs ELSE Append(fs, <<cl, pos>>)
RECURSIVE AddAll(_, _, _)
AddAll(fs, cls, pos) == IF cls = <<>> THEN fs ELSE AddAll(Add(fs, Head(cls), pos), Tail(cls), pos)
Sid(x) == <<x.entropy, x.key>>
Range(s) == {s[k] : k \in DOMAIN s}

OnDraw(e) ==
  IF e.stream = "parent" THEN
     <<IF e.before \in st.seenp THEN "C10.ParentStateNeverReused" ELSE "",
       IF e.n > 0 /\ e.after = e.before THEN "C10.DrawAdvancesItsStream" ELSE "",
       IF e.sid.key # <<>> THEN "C10.ParentIsTheGivenGenerator" ELSE "">>
  ELSE
     <<IF Sid(e.sid) \notin st.kids THEN "C10.DrawsOnlyFromGivenGeneratorOrItsChildren" ELSE "",
       IF <<Sid(e.sid), e.before>> \in st.seenc THEN "C10.ChildStateNeverReused" ELSE "">>

OnChildren(e) ==
  <<IF \E k \in DOMAIN e.sids : Sid(e.sids[k]) \in st.kids THEN "C10.NoStreamReuseAcrossTasksAndCalls" ELSE "",
    IF Cardinality({Sid(e.sids[k]) : k \in DOMAIN e.sids}) # Len(e.sids) THEN "C10.OneStreamPerTask" ELSE "">>

OnOutput(e) ==
  <<IF \E k \in DOMAIN e.lin : e.lin[k] \in st.lins THEN "C10.LinearDrawsNeverRepeated" ELSE "",
    IF Cardinality(Range(e.lin)) # Len(e.lin) THEN "C10.LinearDrawsNeverRepeated" ELSE "",
    IF st.run = "B" /\ e.hash # e.hashA THEN "C10.EqualSeedsGiveIdenticalOutputs" ELSE "",
    IF st.run = "G" /\ e.hash # e.hashA THEN "C10.OutputIndependentOfGlobalState" ELSE "",
    IF st.run = "H" /\ e.hash # e.hashA THEN "C10.EqualSeedsGiveIdenticalOutputsInEveryInterpreterProcess" ELSE "",
    IF st.run = "D" /\ Range(e.lin) \cap Range(e.linA) # {} THEN "C10.DrawsComeFromTheGivenGenerator" ELSE "">>

Init == tid \in 1..Len(Tr) /\ l = 1 /\ st = Fresh("none") /\ fails = <<>>

Step ==
  /\ l <= Len(Ev)
  /\ LET e == Ev[l] IN
     /\ st' = CASE e.ev = "Run" -> Fresh(e.run)
                [] e.ev = "Draw" /\ e.stream = "parent" -> [st EXCEPT !.seenp = @ \cup {e.before}]
                [] e.ev = "Draw" /\ e.stream # "parent" -> [st EXCEPT !.seenc = @ \cup {<<Sid(e.sid), e.before>>}]
                [] e.ev = "Children" -> [st EXCEPT !.kids = @ \cup {Sid(e.sids[k]) : k \in DOMAIN e.sids}]
                [] e.ev = "Output" -> [st EXCEPT !.lins = @ \cup Range(e.lin), !.nout = @ + 1]
                [] OTHER -> st
     /\ fails' = CASE e.ev = "Draw" -> AddAll(fails, OnDraw(e), l)
                   [] e.ev = "Children" -> AddAll(fails, OnChildren(e), l)
                   [] e.ev = "Globals" -> Add(fails, IF e.same THEN "" ELSE "C10.GlobalStateUnchanged", l)
                   [] e.ev = "Output" -> AddAll(fails, OnOutput(e), l)
                   [] OTHER -> fails
  /\ l' = l + 1 /\ tid' = tid
  /\ (l' > Len(Ev) => PrintT(<<"VERDICT", Tr[tid].id, fails' = <<>>, fails'>>))
Next == Step
=============================================================================
