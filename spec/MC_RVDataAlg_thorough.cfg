SPECIFICATION Spec
CONSTANTS MaxObs = 4
          Times = {1, 2, 3}
          Export = FALSE
INVARIANT AlgSatisfiesProperty
INVARIANT DefaultTRefIsEarliest
INVARIANT MaskExact
