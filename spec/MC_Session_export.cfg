SPECIFICATION Spec
CONSTANTS N = 6
          Classes = {1, 2, 3}
          MaxOps = 9
          Export = TRUE
          NPriorSet = {0, 4}
          MaxPostSet = {0, 2}
          NReqSet = {1, 3}
INVARIANT RowsTraceBack
INVARIANT BestRowHeld
INVARIANT MetaIsTheDatas
INVARIANT DiagnosticIsMember
INVARIANT ExportCase
