SPECIFICATION Spec
CONSTANTS Kind = "prior"
          MaxLen = 3
          Export = TRUE
          Memoised <- PriorReads
          Invalidate = TRUE
          CarryMemo = FALSE
          LastReads <- PriorReads
INVARIANT ExportCase
