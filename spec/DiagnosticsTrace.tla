-------------------------- MODULE DiagnosticsTrace --------------------------
(* Total monitor.  kind = "data": [times (sequence of slots), P, r, gap2p, gapexact, nb, occ, base]               *)
(*                 kind = "map" : [lp, ll, idx (1-based returned row), rowP (P of the returned row), Ps]          *)
EXTENDS Diagnostics, Json, IOUtils
Tr == JsonDeserialize(IOEnv.TRACE_FILE)
VARIABLES tid, done
vars == <<tid, done>>

ToSet(s) == {s[k] : k \in DOMAIN s}

DataClause(t) ==
  LET S == PhaseSet(ToSet(t.times), t.r, t.P) IN
  IF ~t.gapexact \/ t.gap2p # MaxGap2P(S, t.P) THEN "C19.MaxPhaseGapIsLargestArcInclWrapAround"
  ELSE IF \E k \in DOMAIN t.nb : t.occ[k] # Occupied(S, t.P, t.nb[k]) THEN "C19.PhaseCoverageIsOccupiedBinFraction"
  ELSE IF ~t.baseexact \/ t.base # Baseline(ToSet(t.times)) THEN "C19.PeriodsSpannedIsBaselineOverPeriod"
  ELSE ""

MapClause(t) ==
  IF t.raised THEN "C19.MAPRaises"
  ELSE IF t.idx \notin MAPSet(t.lp, t.ll) THEN "C19.MAPMaximisesPosterior"
  ELSE IF t.rowP # t.Ps[t.idx] THEN "C19.MAPReturnsThatRow"
  ELSE ""

\* known deviation (fixed in the repository, kept for classification): wrap-around arc never measured
GapNoWrap(S, P) == IF Cardinality(S) = 1 THEN 0 ELSE Max({Min({b \in S : b > a}) - a : a \in {x \in S : \E b \in S : b > x}})

Init == tid \in 1..Len(Tr) /\ done = FALSE
Next ==
  /\ ~done /\ done' = TRUE /\ tid' = tid
  /\ LET t == Tr[tid]
         c == IF t.kind = "data" THEN DataClause(t) ELSE MapClause(t)
         kf == IF t.kind = "data" /\ c = "C19.MaxPhaseGapIsLargestArcInclWrapAround" /\ t.gapexact
                  /\ t.gap2p = GapNoWrap(PhaseSet(ToSet(t.times), t.r, t.P), t.P) THEN "KF_NoWrapAroundArc" ELSE ""
     IN PrintT(<<"VERDICT", t.id, c = "", c, 1, kf>>)
=============================================================================
