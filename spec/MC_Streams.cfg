SPECIFICATION Spec
CONSTANTS MaxCalls = 3
          MaxTasks = 3
CONSTRAINT Bound
INVARIANT NoStreamReuse
INVARIANT OneTaskPerChild
INVARIANT GlobalsUntouched
