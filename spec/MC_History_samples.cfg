SPECIFICATION Spec
CONSTANTS Kind = "samples"
          MaxLen = 3
          Export = FALSE
          Memoised <- SamplesReads
          Invalidate = TRUE
          CarryMemo = FALSE
          LastReads <- SamplesReads
INVARIANT ReadsAreIdeal
INVARIANT StoreIsCurrent
INVARIANT AlphabetIsPartitioned
PROPERTY ReadsLeaveTheContent
