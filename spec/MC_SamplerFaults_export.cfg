SPECIFICATION Spec
CONSTANTS Export = TRUE
INVARIANT NoLeak
INVARIANT UserFileIntact
INVARIANT InjectedAlwaysRaises
INVARIANT CacheOnlyOnObjectPath
