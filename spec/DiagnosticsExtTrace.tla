------------------------- MODULE DiagnosticsExtTrace -------------------------
(* Total monitor.  kind "perperiod": [times (sequence of slots), P, r, n]   kind "unimodal": [Ps (sequence of day counts), T, res] *)
EXTENDS DiagnosticsExt, Json, IOUtils
Tr == JsonDeserialize(IOEnv.TRACE_FILE)
VARIABLES tid, done
vars == <<tid, done>>
ToSet(s) == {s[k] : k \in DOMAIN s}
Clause(t) ==
  IF t.kind = "perperiod" THEN
      (IF t.n # PerPeriod(t.times, t.r, t.P) THEN "X02.PerPeriodIsFullestPeriodLongWindow" ELSE "")
  ELSE (IF t.res \notin UnimodalAllowed(ToSet(t.Ps), t.T) THEN "X02.UnimodalRule" ELSE "")
Init == tid \in 1..Len(Tr) /\ done = FALSE
Next == /\ ~done /\ done' = TRUE /\ tid' = tid
        /\ LET t == Tr[tid] c == Clause(t) IN PrintT(<<"VERDICT", t.id, c = "", c, 1, "">>)
=============================================================================
