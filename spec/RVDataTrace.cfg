INIT Init
NEXT Next
