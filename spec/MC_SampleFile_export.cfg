SPECIFICATION Spec
CONSTANTS Depth = 2
          Export = TRUE
INVARIANT NeverEmptyOnceWritten
PROPERTY AppendIsConcat
PROPERTY RefusedLeavesFile
PROPERTY RefusedOnlyWhenIncompatible
