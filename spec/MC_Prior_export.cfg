SPECIFICATION Spec
CONSTANTS Export = TRUE
INVARIANT DrawsInSupport
INVARIANT DrawEnds
INVARIANT LogFlat
INVARIANT RatioLaw
INVARIANT SigmaCapped
INVARIANT KOnlyWithLinear
