INIT Init
NEXT Next
CONSTANTS MaxN = 6
          MaxReq = 3
