SPECIFICATION Spec
CONSTANTS Vocabulary = {"t", "time", "jd", "bjd", "mjd", "bmjd", "rv", "vr", "vhelio", "rv_err", "rverr", "e_rv", "vr_e", "vhelio_err", "flux"}
          Export = FALSE
INVARIANT ChosenPresent
INVARIANT ErrBelongsToRV
INVARIANT FormatKnown
