---------------------------- MODULE TableGuessTrace ----------------------------
(* [cols (sequence), tclass, raised, tcol, rvcol, errcol, fmt, scale]  or  kind "format": [classes (sequence), raised, fmt] *)
EXTENDS TableGuess, Json, IOUtils
Tr == JsonDeserialize(IOEnv.TRACE_FILE)
VARIABLES tid, done
vars == <<tid, done>>
ToSet(s) == {s[k] : k \in DOMAIN s}
Clause(t) ==
  IF t.kind = "format" THEN
     (IF (GuessFormat(ToSet(t.classes)) = "raise") # t.raised THEN "X01.GuessTimeFormatRaisesIffAmbiguous"
      ELSE IF ~t.raised /\ t.fmt # GuessFormat(ToSet(t.classes)) THEN "X01.GuessTimeFormat" ELSE "")
  ELSE LET cs == ToSet(t.cols) IN
     IF Raises(cs, t.tclass) # t.raised THEN "X01.GuessFromTableRaisesIffNoUsableColumns"
     ELSE IF t.raised THEN ""
     ELSE IF t.tcol # TimeCol(cs) THEN "X01.TimeColumn"
     ELSE IF t.rvcol # RVCol(cs) THEN "X01.VelocityColumn"
     ELSE IF t.errcol # ErrCol(cs) THEN "X01.UncertaintyColumnOfThatVelocityColumn"
     ELSE IF t.fmt # Format(cs, t.tclass) THEN "X01.TimeFormat"
     ELSE IF t.scale # Scale(cs) THEN "X01.TimeScale"
     ELSE ""
Init == tid \in 1..Len(Tr) /\ done = FALSE
Next == /\ ~done /\ done' = TRUE /\ tid' = tid
        /\ LET t == Tr[tid] c == Clause(t) IN PrintT(<<"VERDICT", t.id, c = "", c, 1, "">>)
=============================================================================
